#!/usr/bin/env python3
"""writes seeded/<name>/meta.json from the agent's meta + my confirmation log"""
import json, os, sys
name = sys.argv[1]
d = f'/verif/seeded/{name}'
a = {}
try: a = json.load(open(f'{d}/meta.agent.json'))
except Exception: pass
log = open(f'{d}/confirm.log').read() if os.path.exists(f'{d}/confirm.log') else ''
last = [l for l in log.splitlines() if l.startswith('demo_with=')]
meta = {
 'property': a.get('property', name[:3]),
 'summary': a.get('summary'),
 'needs': a.get('needs'),
 'files': a.get('files'),
 'origin': 'fresh sub-agent given only the property text and its own scratch worktree',
 'confirmed_by_me': {'ran': ['demo.py with change (expect exit 1)', 'demo.py without change (expect exit 0)', 'full pytest suite with change (expect 55 passed)'],
                     'result': last[-1] if last else None, 'base_commit': 'b965850 (patch re-based onto current /repo HEAD where needed)'},
 'agent_ran': a.get('ran'),
}
json.dump(meta, open(f'{d}/meta.json', 'w'), indent=1)
if os.path.exists(f'{d}/meta.agent.json'): os.remove(f'{d}/meta.agent.json')
print(name, meta['confirmed_by_me']['result'])
