#!/bin/bash
# usage: tools_confirm_seed.sh <seed-name> <worktree>   (confirms a sub-agent's seeded change and stores it under seeded/<name>/)
set -u
N=$1; WT=$2; OUT=/verif/seeded/$N
mkdir -p $OUT
cd $WT || exit 2
git diff -- setigen > /tmp/confirm_$N.diff
[ -s /tmp/confirm_$N.diff ] || { echo "no diff in $WT"; exit 2; }
LOG=$OUT/confirm.log; : > $LOG
echo "== demo with change" >> $LOG
PYTHONPATH=$WT /venv/bin/python _seeded/demo.py >> $LOG 2>&1; W=$?
git apply -R /tmp/confirm_$N.diff
echo "== demo without change" >> $LOG
PYTHONPATH=$WT /venv/bin/python _seeded/demo.py >> $LOG 2>&1; WO=$?
git apply /tmp/confirm_$N.diff
echo "== test suite with change" >> $LOG
PYTHONPATH=$WT /venv/bin/python -m pytest -q -p no:cacheprovider --timeout=900 -x 2>&1 | tail -3 >> $LOG; 
T=$(grep -c "55 passed" $LOG)
echo "demo_with=$W demo_without=$WO suite_55_passed=$T" | tee -a $LOG
cp /tmp/confirm_$N.diff $OUT/patch.diff; cp _seeded/demo.py $OUT/demo.py; cp _seeded/meta.json $OUT/meta.agent.json 2>/dev/null
# does it apply to current /repo HEAD?
if git -C /repo apply --check $OUT/patch.diff 2>/dev/null; then echo "applies_to_repo_head=yes" | tee -a $LOG; else echo "applies_to_repo_head=NO" | tee -a $LOG; fi
