#!/bin/bash
# Re-runs every seeded change against the quick check of its own property (in a scratch worktree, /repo untouched)
# and writes seeded/MATRIX.md.  Evidence files are overwritten by these runs: re-run the checks on /repo afterwards.
cd /verif
WT=/tmp/wt_matrix
git -C /repo worktree remove --force $WT 2>/dev/null
git -C /repo worktree add -q --detach $WT HEAD || exit 2
OUT=seeded/MATRIX.md
rm -rf /var/tmp/evidence_keep; cp -r evidence /var/tmp/evidence_keep      # evidence must describe runs on /repo itself
echo "| seed | property | applies | own check exit | VIOLATION lines |" > $OUT
echo "|---|---|---|---|---|" >> $OUT
for d in seeded/*/; do
  n=$(basename $d); [ -f $d/patch.diff ] || continue
  prop=$(python3 -c "import json;print(json.load(open('$d/meta.json'))['property'])")
  git -C $WT checkout -q -- . 
  if git -C $WT apply $PWD/$d/patch.diff 2>/dev/null; then
    SETIGEN_REPO=$WT timeout 1500 ./check $prop --tier quick > /tmp/matrix_$n.log 2>&1; rc=$?
    echo "| $n | $prop | yes | $rc | $(grep -c '^VIOLATION' /tmp/matrix_$n.log) |" >> $OUT
  else
    echo "| $n | $prop | no (superseded) | - | - |" >> $OUT
  fi
done
git -C /repo worktree remove --force $WT
cp /var/tmp/evidence_keep/*.json evidence/ && rm -rf /var/tmp/evidence_keep
cat $OUT
