"""symx.npx -- SymArr (object ndarray of Sym) and the NumPy proxy that is put in
place of a setigen module's ``np`` / ``xp`` attribute while it is analysed.

Everything structural (reshape, meshgrid, slicing, fancy indexing, broadcasting,
+=, mean, diff, concatenate ...) is NumPy's own code on object arrays.  The proxy
only supplies meaning for what object arrays cannot do.
"""
import builtins
import operator
import numpy as np
import z3

from . import core
from .core import Sym, SymB, SymC, lift, liftb, RV, UF, HarnessError


_ND_DTYPE = np.ndarray.dtype.__get__


def _isobj(a):
    return _ND_DTYPE(a) == np.dtype(object)


def _is_sym(x):
    return isinstance(x, (Sym, SymB, SymC))


def has_sym(a):
    if _is_sym(a):
        return True
    if isinstance(a, np.ndarray):
        if not _isobj(a):
            return False
        return builtins.any(_is_sym(e) for e in a.flat)
    if isinstance(a, (list, tuple)):
        return builtins.any(has_sym(e) for e in a)
    return False


class SymDType:
    """what SymArr.dtype reports: behaves like numpy's object dtype in comparisons but remembers whether the
    elements are real or complex valued, so that `np.empty(shape, dtype=x.dtype)` can model NumPy's casting"""
    kind = 'O'
    name = 'object'
    type = np.object_
    itemsize = 8

    def __init__(self, sym_kind):
        self.sym_kind = sym_kind        # 'f' real-valued, 'c' complex-valued

    def __eq__(self, o):
        if isinstance(o, SymDType):
            return self.sym_kind == o.sym_kind
        try:
            return np.dtype(o) == np.dtype(object)
        except TypeError:
            return False

    def __ne__(self, o):
        return not self.__eq__(o)

    def __hash__(self):
        return hash(('symdtype', self.sym_kind))

    def __repr__(self):
        return f"SymDType({self.sym_kind})"


class MaskedView:
    """result of arr[symbolic_mask]; supports += / -= / *= and assignment back"""

    def __init__(self, arr, mask):
        self.arr = arr
        self.mask = mask
        self.new = arr

    def __iadd__(self, v):
        self.new = self.new + v
        return self

    def __isub__(self, v):
        self.new = self.new - v
        return self

    def __imul__(self, v):
        self.new = self.new * v
        return self


class SymArr(np.ndarray):
    __array_priority__ = 1000

    def __new__(cls, a):
        obj = oarr(a).view(cls)
        return obj

    _real_only = False      # set on arrays created with a real dtype: assignments drop imaginary parts (NumPy's cast)
    _int_only = False       # integer element type: assignments truncate, in-place arithmetic with floats is refused

    def __array_finalize__(self, obj):
        # views share the element type of their base; fresh results of arithmetic do not inherit it
        view = obj is not None and self.base is not None
        self._real_only = getattr(obj, '_real_only', False) if view else False
        self._int_only = getattr(obj, '_int_only', False) if view else False

    def copy(self, *a, **kw):
        r = super().copy(*a, **kw)
        r._real_only = self._real_only
        r._int_only = self._int_only
        return r

    @property
    def dtype(self):
        base = _ND_DTYPE(self)
        if base != np.dtype(object):
            return base
        if self._int_only:
            return SymDType('i')
        cplx = builtins.any(isinstance(e, (SymC, complex, np.complexfloating)) for e in np.asarray(self).flat)
        return SymDType('c' if cplx else 'f')

    def astype(self, dtype, *a, **kw):
        # NumPy: a cast to a real type drops imaginary parts (ComplexWarning); a cast returns a new array of that type
        def to_real():
            out = _map(lambda e: e.real if isinstance(e, (SymC, complex, np.complexfloating)) else e, np.asarray(self).view(SymArr))
            out = np.asarray(out).view(SymArr)
            out._real_only = True
            return out

        def to_complex():
            out = np.array(np.asarray(self), dtype=object, copy=True).view(SymArr)
            out._real_only = False
            return out
        if isinstance(dtype, SymDType):
            if dtype.sym_kind == 'f':
                return to_real()
            if dtype.sym_kind == 'c':
                return to_complex()
            out = _map(lambda e: e.astype(int) if _is_sym(e) else int(e), np.asarray(self).view(SymArr))
            out._int_only = True
            return out
        if dtype is object or dtype == object:
            return self
        if dtype in (complex, np.complex128, np.complex64):
            return to_complex()
        if dtype in (float, np.float64, np.float32):
            return to_real()
        out = np.empty(self.shape, dtype=object)
        for idx in np.ndindex(self.shape):
            e = self[idx] if self.ndim else self.item()
            if _is_sym(e):
                out[idx] = e.astype(dtype)
            else:
                out[idx] = np.asarray(e).astype(dtype).item()
        return out.view(SymArr)

    def __getitem__(self, key):
        if isinstance(key, np.ndarray) and _isobj(key) and key.size and builtins.all(
                isinstance(k, (SymB, bool, np.bool_)) for k in key.flat) and builtins.any(isinstance(k, SymB) for k in key.flat):
            return MaskedView(self, key)
        key = _concretize_key(key, self.shape)
        r = super().__getitem__(key)
        return r

    def __setitem__(self, key, val):
        if isinstance(val, MaskedView):
            new, mask = val.new, val.mask
            for idx in np.ndindex(self.shape):
                np.ndarray.__setitem__(self, idx, core.ite(mask[idx], new[idx], np.ndarray.__getitem__(self, idx)))
            return
        if isinstance(key, np.ndarray) and _isobj(key) and key.size and builtins.any(isinstance(k, SymB) for k in key.flat):
            valb = np.broadcast_to(oarr(val), self.shape)
            for idx in np.ndindex(self.shape):
                np.ndarray.__setitem__(self, idx, core.ite(key[idx], valb[idx], np.ndarray.__getitem__(self, idx)))
            return
        key = _concretize_key(key, self.shape)
        if self._int_only:
            tr = lambda e: (e.astype(int) if isinstance(e, Sym) else (int(e) if isinstance(e, (float, np.floating)) else e))
            val = _map(tr, val) if isinstance(val, np.ndarray) else tr(val)
        if self._real_only:
            val = _map(lambda e: e.real if isinstance(e, (SymC, complex, np.complexfloating)) else e, val) if isinstance(val, np.ndarray) else (val.real if isinstance(val, (SymC, complex, np.complexfloating)) else val)
        super().__setitem__(key, val)

    def _cmpop(self, o, f):
        if isinstance(o, (str, bytes)) or o is None:
            return NotImplemented
        return _map2(f, np.asarray(self), o)

    def __lt__(self, o):
        return self._cmpop(o, lambda a, b: a < b)

    def __le__(self, o):
        return self._cmpop(o, lambda a, b: a <= b)

    def __gt__(self, o):
        return self._cmpop(o, lambda a, b: a > b)

    def __ge__(self, o):
        return self._cmpop(o, lambda a, b: a >= b)

    def __eq__(self, o):
        return self._cmpop(o, lambda a, b: a == b)

    def __ne__(self, o):
        return self._cmpop(o, lambda a, b: a != b)

    __hash__ = None

    def _inplace(self, o, f, sup):
        if self._int_only and not _int_typed(o):
            # NumPy: UFuncTypeError, cannot cast the float64 result to the integer output under 'same_kind'
            raise TypeError("Cannot cast ufunc output from dtype('float64') to dtype('int64') with casting rule 'same_kind'")
        if self._real_only and _has_complex(o):
            # NumPy: UFuncTypeError, the complex result cannot be cast to the float output under 'same_kind'
            raise TypeError("Cannot cast ufunc output from dtype('complex128') to dtype('float64') with casting rule 'same_kind'")
        if _is_sym(o):
            np.ndarray.__setitem__(self, Ellipsis, f(np.asarray(self).view(SymArr), o))
            return self
        return sup(o)

    def __iadd__(self, o):
        return self._inplace(o, lambda a, b: a + b, super().__iadd__)

    def __isub__(self, o):
        return self._inplace(o, lambda a, b: a - b, super().__isub__)

    def __imul__(self, o):
        return self._inplace(o, lambda a, b: a * b, super().__imul__)

    def __itruediv__(self, o):
        return self._inplace(o, lambda a, b: a / b, super().__itruediv__)

    @property
    def real(self):
        return _map(lambda e: e.real if _is_sym(e) else np.real(e), self)

    @property
    def imag(self):
        return _map(lambda e: e.imag if _is_sym(e) else np.imag(e), self)

    def std(self, axis=None, **kw):
        return _std(self, axis=axis)

    def var(self, axis=None, **kw):
        return _var(self, axis=axis)

    def tobytes(self, *a, **k):
        return SymBytes(list(np.asarray(self).ravel()))

    def round(self, decimals=0, out=None):
        return _map(lambda e: core.rne(e) if _is_sym(e) else builtins.round(e), self)

    def any(self, *a, **k):
        acc = z3.BoolVal(False)
        for e in self.flat:
            acc = z3.Or(acc, liftb(e) if isinstance(e, (SymB, bool, np.bool_)) else lift(e) != 0)
        return SymB(acc)

    def all(self, *a, **k):
        acc = z3.BoolVal(True)
        for e in self.flat:
            acc = z3.And(acc, liftb(e) if isinstance(e, (SymB, bool, np.bool_)) else lift(e) != 0)
        return SymB(acc)


def _slice_bound(v, n):
    """fork over the equivalence classes of a symbolic slice bound for an axis of
    length n: v <= -n, each value in (-n, n), v >= n"""
    if not isinstance(v, Sym):
        return v
    c = core.const_value(v.t)
    if c is not None:
        return int(c)
    ctx = core.Ctx.cur
    if ctx is None:
        raise HarnessError("symbolic slice bound outside a context")
    opts = [(-n, v.t <= -n)] + [(k, v.t == k) for k in range(-n + 1, n)] + [(n, v.t >= n)]
    ctx.keep.append(v.t)
    return ctx.decide(opts, label='slice', memo_key=('s', v.t.get_id(), n))


def _concretize_key(key, shape):
    if isinstance(key, builtins.slice):
        if isinstance(key.start, Sym) or isinstance(key.stop, Sym):
            n = shape[0] if shape else 0
            return builtins.slice(_slice_bound(key.start, n), _slice_bound(key.stop, n), key.step)
        return key
    if isinstance(key, tuple) and builtins.any(isinstance(k, builtins.slice) and (isinstance(k.start, Sym) or isinstance(k.stop, Sym)) for k in key):
        out = []
        ax = 0
        for k in key:
            if k is None:
                out.append(k)
                continue
            if k is Ellipsis:
                ax = len(shape) - (len([x for x in key if x is not None]) - 1 - len(out) + out.count(None))
                out.append(k)
                continue
            if isinstance(k, builtins.slice):
                n = shape[ax]
                out.append(builtins.slice(_slice_bound(k.start, n), _slice_bound(k.stop, n), k.step))
            else:
                out.append(k)
            ax += 1
        return tuple(out)
    return key


class SymBytes:
    """what SymArr.tobytes() returns: a flat list of byte-valued terms"""

    def __init__(self, items):
        self.items = list(items)

    def __len__(self):
        return len(self.items)

    def __getitem__(self, k):
        r = self.items[k]
        return SymBytes(r) if isinstance(k, slice) else r

    def __add__(self, o):
        return SymBytes(self.items + list(o.items if isinstance(o, SymBytes) else o))

    def __radd__(self, o):
        return SymBytes(list(o) + self.items)

    def __bool__(self):
        return len(self.items) > 0


def oarr(x):
    """object ndarray (no copy semantics promised) holding the elements of x"""
    if isinstance(x, np.ndarray) and _isobj(x):
        return x
    if isinstance(x, np.ndarray):
        a = np.empty(x.shape, dtype=object)
        if x.ndim == 0:
            a[()] = x.item()
        else:
            a[...] = x.tolist() if x.size else x
        return a
    if _is_sym(x) or core.is_num(x) or isinstance(x, complex):
        a = np.empty((), dtype=object)
        a[()] = x
        return a
    # nested sequence
    xs = [oarr(e) for e in x]
    if not xs:
        return np.empty((0,), dtype=object)
    shp = xs[0].shape
    a = np.empty((len(xs),) + shp, dtype=object)
    for i, e in enumerate(xs):
        a[i] = e[()] if e.ndim == 0 else e
    return a


def sarr(x):
    return oarr(x).view(SymArr)


def _concrete_if_const(arr):
    """object array whose elements are all constant terms / numbers -> float64 array"""
    vals = []
    for e in arr.flat:
        if isinstance(e, Sym):
            c = core.const_value(e.t)
            if c is None:
                return arr
            vals.append(float(c))
        elif core.is_num(e):
            vals.append(float(e))
        else:
            return arr
    return np.array(vals, dtype=float).reshape(arr.shape)


def _map(f, a):
    a = oarr(a)
    out = np.empty(a.shape, dtype=object)
    if a.ndim == 0:
        out[()] = f(a.item())
    else:
        for idx in np.ndindex(a.shape):
            out[idx] = f(a[idx])
    return out.view(SymArr)


def _map2(f, a, b):
    a, b = oarr(a), oarr(b)
    a, b = np.broadcast_arrays(a, b)
    out = np.empty(a.shape, dtype=object)
    if a.ndim == 0:
        out[()] = f(a.item(), b.item())
    else:
        for idx in np.ndindex(a.shape):
            out[idx] = f(a[idx], b[idx])
    return out.view(SymArr)


def _scalar_or_arr(r, *args):
    """return a scalar if all inputs were scalars"""
    if builtins.all(not isinstance(a, (np.ndarray, list, tuple)) for a in args):
        return r.item() if isinstance(r, np.ndarray) else r
    return r


def _var(a, axis=None):
    a = oarr(a)
    if axis is None:
        flat = list(a.ravel())
        n = len(flat)
        m = builtins.sum(flat[1:], flat[0]) / n
        return builtins.sum([(e - m) * (e - m) for e in flat[1:]], (flat[0] - m) * (flat[0] - m)) / n
    raise HarnessError("var with axis on symbolic array")


def _std(a, axis=None):
    v = _var(a, axis)
    if isinstance(v, Sym):
        return v.sqrt()
    return np.sqrt(v)


def exact_dft_matrix(n):
    """DFT twiddles exp(-2*pi*i*j*k/n) as exact (re, im) pairs of Sym/ints.
    n in 1,2,4,8. sqrt(1/2) is a fresh algebraic constant r with r>0, r*r=1/2."""
    if n not in (1, 2, 4, 8):
        # other lengths: twiddles are uninterpreted complex constants TW(n, m) = "exp(-2 pi i m / n)"; an `unsat` then
        # holds for every value of them (in particular the true ones), different lengths get different symbols
        base = [(1, 0)] + [(Sym(z3.Real(f'TWr_{n}_{m}')), Sym(z3.Real(f'TWi_{n}_{m}'))) for m in range(1, n)]
        return [[base[(j * k) % n] for j in range(n)] for k in range(n)]
    if n == 8:
        r = _root_half()
        base = [(1, 0), (r, -r), (0, -1), (-r, -r), (-1, 0), (-r, r), (0, 1), (r, r)]
    elif n == 4:
        base = [(1, 0), (0, -1), (-1, 0), (0, 1)]
    elif n == 2:
        base = [(1, 0), (-1, 0)]
    else:
        base = [(1, 0)]
    return [[base[(j * k) % n] for j in range(n)] for k in range(n)]


_rh = [None]


def _root_half():
    if _rh[0] is None:
        r = z3.Real('ROOT_HALF')
        core.GLOBAL_SIDE.append(z3.And(r > 0, r * r == z3.RealVal('1/2')))
        _rh[0] = Sym(r, radicand=z3.RealVal('1/2'))
    return _rh[0]


def sym_fft(x, n=None, axis=-1):
    x = oarr(x)
    if n is None:
        n = x.shape[axis]
    xm = np.moveaxis(x, axis, -1)
    if xm.shape[-1] < n:
        pad = np.empty(xm.shape[:-1] + (n - xm.shape[-1],), dtype=object)
        pad[...] = 0
        xm = np.concatenate([xm, pad], axis=-1)
    xm = xm[..., :n]
    M = exact_dft_matrix(n)
    out = np.empty(xm.shape, dtype=object)
    for idx in np.ndindex(xm.shape[:-1]):
        row = xm[idx]
        for k in range(n):
            acc = SymC(0, 0)
            for j in range(n):
                c = M[k][j]
                acc = acc + SymC.of(row[j]) * SymC(c[0], c[1])
            out[idx + (k,)] = acc
    return np.moveaxis(out, -1, axis).view(SymArr)


def sym_rfft(x, n=None, axis=-1):
    full = sym_fft(x, n, axis)
    nn = full.shape[axis]
    sl = [builtins.slice(None)] * full.ndim
    sl[axis] = builtins.slice(0, nn // 2 + 1)
    return full[tuple(sl)]


class _FFT:
    def __init__(self, base):
        self._b = base

    def __getattr__(self, k):
        return getattr(self._b, k)

    def fft(self, x, n=None, axis=-1, **kw):
        if has_sym(x) or (isinstance(x, np.ndarray) and _isobj(x)):
            return sym_fft(x, n, axis)
        return self._b.fft(x, n, axis, **kw)

    def rfft(self, x, n=None, axis=-1, **kw):
        if has_sym(x) or (isinstance(x, np.ndarray) and _isobj(x)):
            return sym_rfft(x, n, axis)
        return self._b.rfft(x, n, axis, **kw)

    def fftshift(self, x, axes=None):
        return self._b.fftshift(x, axes=axes)


class NPProxy:
    """stands in for the ``numpy`` module inside a setigen module."""

    def __init__(self, force_object=True, rng_factory=None):
        self._force_object = force_object
        self.fft = _FFT(np.fft)
        self.random = _Random(rng_factory)
        self.calls = {}

    def __getattr__(self, k):
        return getattr(np, k)

    # -- creation
    def zeros(self, shape, dtype=None, **kw):
        if self._force_object:
            a = np.empty(shape, dtype=object)
            a[...] = 0
            a = a.view(SymArr)
            a._real_only = _is_real_dtype(dtype)
            a._int_only = _is_int_dtype(dtype)
            return a
        return np.zeros(shape, dtype=dtype, **kw)

    def ones(self, shape, dtype=None, **kw):
        if self._force_object:
            a = np.empty(shape, dtype=object)
            a[...] = 1
            a = a.view(SymArr)
            a._real_only = _is_real_dtype(dtype)
            return a
        return np.ones(shape, dtype=dtype, **kw)

    def empty(self, shape, dtype=None, **kw):
        if self._force_object:
            a = np.empty(shape, dtype=object)
            a[...] = 0
            a = a.view(SymArr)
            a._real_only = _is_real_dtype(dtype)
            return a
        return np.empty(shape, dtype=dtype, **kw)

    def full(self, shape, fill, dtype=None, **kw):
        if _is_sym(fill) or self._force_object:
            a = np.empty(shape, dtype=object)
            a[...] = fill
            a = a.view(SymArr)
            a._real_only = _is_real_dtype(dtype) if dtype is not None else not isinstance(fill, (SymC, complex, np.complexfloating))
            return a
        return np.full(shape, fill, dtype=dtype, **kw)

    def array(self, x, dtype=None, **kw):
        if has_sym(x) or (isinstance(x, (list, tuple)) and builtins.any(isinstance(e, np.ndarray) and _isobj(e) for e in _flatten_list(x))):
            return np.array(oarr(x), dtype=object, copy=True).view(SymArr)
        if isinstance(x, np.ndarray) and _isobj(x):
            return np.array(x, dtype=object, copy=True).view(SymArr)
        return np.array(x, dtype=dtype, **kw)

    def asarray(self, x, dtype=None, **kw):
        if has_sym(x):
            return sarr(x)
        return np.asarray(x, dtype=dtype, **kw)

    def linspace(self, start, stop, num=50, endpoint=True, **kw):
        if getattr(start, '_fp', False) or getattr(stop, '_fp', False):
            from . import fp
            return fp.flinspace(start, stop, num, endpoint).view(SymArr)
        if _is_sym(start) or _is_sym(stop):
            num = operator.index(num)          # NumPy refuses a non-integer sample count (TypeError)
            div = (num - 1) if endpoint else num
            a = np.empty(num, dtype=object)
            if num == 0:
                return a.view(SymArr)
            delta = stop - start
            step = delta / div if div > 0 else delta
            for i in range(num):
                a[i] = start + i * step
            return a.view(SymArr)
        return np.linspace(start, stop, num, endpoint=endpoint, **kw)

    def arange(self, *args, **kw):
        if builtins.any(_is_sym(a) for a in args):
            if len(args) == 1:
                start, stop, step = 0, args[0], 1
            elif len(args) == 2:
                start, stop, step = args[0], args[1], 1
            else:
                start, stop, step = args[:3]
            if builtins.any(getattr(a, '_fp', False) for a in args):
                from . import fp
                return fp.farange(start, stop, step).view(SymArr)
            # exact reals: length ceil((stop-start)/step), forked over its feasible values
            n = core.smax(core.ceil(Sym(lift((stop - start) / step))), 0)
            k = core.concretize_int(n)
            out = np.empty(k, dtype=object)
            for i in range(k):
                out[i] = start + i * step
            return out.view(SymArr)
        return np.arange(*args, **kw)

    # -- rounding & selection
    def round(self, a, decimals=0, **kw):
        if has_sym(a):
            if decimals != 0:
                # NumPy: multiply by 10**decimals, round half to even, divide again
                sc = 10 ** int(decimals)
                one = lambda e: (core.rne(e * sc) / sc) if _is_sym(e) else builtins.round(e, int(decimals))
                return one(a) if _is_sym(a) else _map(one, a)
            if _is_sym(a):
                return core.rne(a)
            return _concrete_if_const(_map(lambda e: core.rne(e) if _is_sym(e) else builtins.round(e), a))
        return np.round(a, decimals, **kw)

    around = round
    rint = round

    def ceil(self, a, **kw):
        if has_sym(a):
            if _is_sym(a):
                return core.ceil(a)
            return _map(lambda e: core.ceil(e), a)
        return np.ceil(a, **kw)

    def floor(self, a, **kw):
        if has_sym(a):
            if _is_sym(a):
                return core.floor(a)
            return _map(lambda e: core.floor(e), a)
        return np.floor(a, **kw)

    def abs(self, a, **kw):
        if _is_sym(a):
            return abs(a)
        return np.abs(a, **kw)

    absolute = abs

    def clip(self, a, lo, hi, **kw):
        if has_sym(a) or _is_sym(lo) or _is_sym(hi):
            f = lambda e: core.smin(core.smax(e, lo), hi)
            if _is_sym(a):
                return f(a)
            return _map(f, a)
        return np.clip(a, lo, hi, **kw)

    def _like(self, a, fill, dtype=None):
        """zeros_like / ones_like / full_like: a new array of the shape AND element type of `a`"""
        if not isinstance(a, SymArr) and not has_sym(a):
            return None
        src = a if isinstance(a, SymArr) else oarr(a).view(SymArr)
        out = np.empty(src.shape, dtype=object)
        out[...] = fill
        out = out.view(SymArr)
        if dtype is not None:
            out._real_only = _is_real_dtype(dtype)
        else:
            out._int_only = bool(getattr(src, '_int_only', False))
            out._real_only = not builtins.any(isinstance(e, (SymC, complex, np.complexfloating)) for e in np.asarray(src).flat) and not out._int_only
        return out

    def zeros_like(self, a, dtype=None, **kw):
        r = self._like(a, 0, dtype)
        return np.zeros_like(a, dtype=dtype, **kw) if r is None else r

    def ones_like(self, a, dtype=None, **kw):
        r = self._like(a, 1, dtype)
        return np.ones_like(a, dtype=dtype, **kw) if r is None else r

    def empty_like(self, a, dtype=None, **kw):
        r = self._like(a, 0, dtype)
        return np.empty_like(a, dtype=dtype, **kw) if r is None else r

    def full_like(self, a, fill_value, dtype=None, **kw):
        r = self._like(a, fill_value, dtype)
        return np.full_like(a, fill_value, dtype=dtype, **kw) if r is None else r

    def interp(self, x, xp, fp, left=None, right=None, period=None):
        """piecewise-linear interpolation, clamped outside [xp[0], xp[-1]] (NumPy's rule); xp concrete and increasing"""
        if not (has_sym(x) or has_sym(xp) or has_sym(fp)):
            return np.interp(x, xp, fp, left=left, right=right, period=period)
        if has_sym(xp) or period is not None:
            raise HarnessError("interp with symbolic abscissae / period")
        xs = [float(v) for v in np.asarray(xp, dtype=float).ravel()]
        fs_ = list(oarr(fp).ravel())
        lo = fs_[0] if left is None else left
        hi = fs_[-1] if right is None else right

        def one(e):
            if not _is_sym(e):
                e = core.Sym(core.RV(e))
            acc = hi
            for k in range(len(xs) - 2, -1, -1):
                seg = fs_[k] + (e - xs[k]) * ((fs_[k + 1] - fs_[k]) / (xs[k + 1] - xs[k]))
                acc = core.ite(e < xs[k + 1], seg, acc)
            return core.ite(e < xs[0], lo, acc)
        if isinstance(x, np.ndarray) or isinstance(x, (list, tuple)):
            return _map(one, oarr(x))
        return one(x)

    def maximum(self, a, b, **kw):
        if has_sym(a) or has_sym(b):
            return _scalar_or_arr(_map2(lambda x, y: core.smax(x, y), a, b), a, b)
        return np.maximum(a, b, **kw)

    def minimum(self, a, b, **kw):
        if has_sym(a) or has_sym(b):
            return _scalar_or_arr(_map2(lambda x, y: core.smin(x, y), a, b), a, b)
        return np.minimum(a, b, **kw)

    def max(self, a, axis=None, **kw):
        if has_sym(a):
            if axis is not None:
                raise HarnessError("max axis")
            return core.smax(*list(oarr(a).ravel()))
        return np.max(a, axis=axis, **kw)

    amax = max

    def min(self, a, axis=None, **kw):
        if has_sym(a):
            if axis is not None:
                raise HarnessError("min axis")
            return core.smin(*list(oarr(a).ravel()))
        return np.min(a, axis=axis, **kw)

    amin = min

    def where(self, c, a=None, b=None):
        if a is None:
            if has_sym(c):
                raise HarnessError("where(cond) with symbolic cond")
            return np.where(c)
        if has_sym(c):
            c_, a_, b_ = np.broadcast_arrays(oarr(c), oarr(a), oarr(b))
            out = np.empty(c_.shape, dtype=object)
            for idx in np.ndindex(c_.shape):
                ce = c_[idx]
                if isinstance(ce, SymB):
                    out[idx] = core.ite(ce, a_[idx], b_[idx])
                else:
                    out[idx] = a_[idx] if ce else b_[idx]
            if c_.ndim == 0:
                return out.item()
            return out.view(SymArr)
        if has_sym(a) or has_sym(b):
            c_, a_, b_ = np.broadcast_arrays(np.asarray(c), oarr(a), oarr(b))
            out = np.empty(c_.shape, dtype=object)
            for idx in np.ndindex(c_.shape):
                out[idx] = a_[idx] if c_[idx] else b_[idx]
            return out.view(SymArr)
        return np.where(c, a, b)

    # -- math
    def sqrt(self, a, **kw):
        if _is_sym(a):
            return a.sqrt()
        if isinstance(a, np.ndarray) and _isobj(a):
            return _map(lambda e: e.sqrt() if _is_sym(e) else np.sqrt(e), a)
        return np.sqrt(a, **kw)

    def _scalar_uf(name):
        def f(self, a, **kw):
            if _is_sym(a):
                return getattr(a, name)()
            if isinstance(a, np.ndarray) and _isobj(a):
                return _map(lambda e: getattr(e, name)() if _is_sym(e) else getattr(np, name)(e), a)
            return getattr(np, name)(a, **kw)
        return f

    exp = _scalar_uf('exp')
    sin = _scalar_uf('sin')
    cos = _scalar_uf('cos')
    log = _scalar_uf('log')
    log10 = _scalar_uf('log10')
    del _scalar_uf

    def sinc(self, a):
        if has_sym(a):
            f = lambda e: Sym(UF('SINC')(lift(e)))
            if _is_sym(a):
                return f(a)
            return _map(f, a)
        return np.sinc(a)

    def power(self, a, b, **kw):
        if has_sym(a) or has_sym(b):
            if _is_sym(a) and not isinstance(b, np.ndarray):
                return a ** b
            return _scalar_or_arr(_map2(lambda x, y: (x if _is_sym(x) else Sym(lift(x))) ** y, a, b), a, b)
        return np.power(a, b, **kw)

    def std(self, a, axis=None, **kw):
        if has_sym(a):
            return _std(a, axis)
        return np.std(a, axis=axis, **kw)

    def var(self, a, axis=None, **kw):
        if has_sym(a):
            return _var(a, axis)
        return np.var(a, axis=axis, **kw)

    def mean(self, a, axis=None, **kw):
        if has_sym(a):
            a = oarr(a)
            if axis is None:
                flat = list(a.ravel())
                return builtins.sum(flat[1:], flat[0]) / len(flat)
            n = a.shape[axis]
            r = np.add.reduce(a, axis=axis, keepdims=kw.get('keepdims', False)) / n
            return r.view(SymArr) if isinstance(r, np.ndarray) else r
        return np.mean(a, axis=axis, **kw)

    def sum(self, a, axis=None, **kw):
        if has_sym(a):
            a = oarr(a)
            if axis is None:
                flat = list(a.ravel())
                return builtins.sum(flat[1:], flat[0])
            r = np.add.reduce(a, axis=axis, keepdims=kw.get('keepdims', False))
            return r.view(SymArr) if isinstance(r, np.ndarray) else r
        return np.sum(a, axis=axis, **kw)

    def real(self, a):
        if _is_sym(a):
            return a.real
        if isinstance(a, np.ndarray) and _isobj(a):
            return _map(lambda e: e.real if _is_sym(e) else np.real(e), a)
        return np.real(a)

    def imag(self, a):
        if _is_sym(a):
            return a.imag
        if isinstance(a, np.ndarray) and _isobj(a):
            return _map(lambda e: e.imag if _is_sym(e) else np.imag(e), a)
        return np.imag(a)

    def iscomplexobj(self, a):
        if isinstance(a, np.ndarray) and _isobj(a):
            return builtins.any(isinstance(e, (SymC, complex, np.complexfloating)) for e in a.flat)
        if isinstance(a, SymC):
            return True
        return np.iscomplexobj(a)

    def concatenate(self, arrs, axis=0, **kw):
        arrs = list(arrs)
        if builtins.any(isinstance(a, np.ndarray) and _isobj(a) for a in arrs):
            r = np.concatenate([oarr(a) for a in arrs], axis=axis)
            return r.view(SymArr)
        return np.concatenate(arrs, axis=axis, **kw)

    def append(self, a, v, axis=None):
        if has_sym(a) or has_sym(v):
            return np.append(oarr(a), oarr(v), axis=axis).view(SymArr)
        return np.append(a, v, axis=axis)

    def frombuffer(self, buf, dtype=None, **kw):
        if isinstance(buf, SymBytes):
            return sarr(np.array(buf.items, dtype=object))
        return np.frombuffer(buf, dtype=dtype, **kw)

    def asnumpy(self, a):
        raise AttributeError("asnumpy")  # numpy has none; backend falls back

    def isscalar(self, x):
        return _is_sym(x) or np.isscalar(x)

    def isclose(self, a, b, rtol=1e-05, atol=1e-08, **kw):
        """numpy.isclose: |a - b| <= atol + rtol * |b| (exact reals)"""
        if not (has_sym(a) or has_sym(b)):
            return np.isclose(a, b, rtol=rtol, atol=atol, **kw)

        def one(x, y):
            x, y = core.lift(x), core.lift(y)
            ad = z3.If(x - y >= 0, x - y, y - x)
            ay = z3.If(y >= 0, y, -y)
            return SymB(ad <= core.RV(atol) + core.RV(rtol) * ay)
        if isinstance(a, np.ndarray) or isinstance(b, np.ndarray):
            return _map2(one, oarr(a), oarr(b))
        return one(a, b)

    def copy(self, a, *args, **kw):
        return a.copy() if isinstance(a, SymArr) else np.copy(a, *args, **kw)

    def result_type(self, *args):
        kinds = []
        for a in args:
            d = a.dtype if isinstance(a, np.ndarray) else a
            if isinstance(d, SymDType):
                kinds.append(d.sym_kind)
            elif isinstance(d, (Sym, SymB)):
                kinds.append('f')
            elif isinstance(d, SymC):
                kinds.append('c')
            else:
                kinds.append(None)
        if builtins.all(k is None for k in kinds):
            return np.result_type(*args)
        rest = [a for a, k in zip(args, kinds) if k is None]
        base = np.result_type(*rest) if rest else np.dtype(float)
        return SymDType('c' if ('c' in kinds or base.kind == 'c') else 'f')


def _has_complex(o):
    if isinstance(o, np.ndarray):
        if o.dtype != np.dtype(object):
            return o.dtype.kind == 'c'
        return builtins.any(isinstance(e, (SymC, complex, np.complexfloating)) for e in o.flat)
    return isinstance(o, (SymC, complex, np.complexfloating))


def _int_typed(o):
    if isinstance(o, SymArr):
        return o._int_only or (_ND_DTYPE(o) != np.dtype(object) and _ND_DTYPE(o).kind in 'iub')
    if isinstance(o, np.ndarray):
        return o.dtype.kind in 'iub'
    if isinstance(o, Sym):
        return bool(o.is_int)
    return isinstance(o, (int, np.integer, bool, np.bool_, SymB))


def _is_int_dtype(dtype):
    """an integer element type was requested (assignments truncate)"""
    if dtype is None:
        return False
    if isinstance(dtype, SymDType):
        return dtype.sym_kind == 'i'
    try:
        return np.dtype(dtype).kind in 'iub'
    except TypeError:
        return False


def _is_real_dtype(dtype):
    """a real element type, requested or by NumPy's default float64 (NumPy drops imaginary parts on assignment)"""
    if dtype is None:
        return True
    if isinstance(dtype, SymDType):
        return dtype.sym_kind == 'f'
    try:
        return np.dtype(dtype).kind in 'fiu'
    except TypeError:
        return False


def _flatten_list(x):
    for e in x:
        if isinstance(e, (list, tuple)):
            yield from _flatten_list(e)
        else:
            yield e


class _Random:
    def __init__(self, factory):
        self._factory = factory

    def default_rng(self, seed=None):
        if self._factory is not None:
            return self._factory(seed)
        return np.random.default_rng(seed)

    def __getattr__(self, k):
        return getattr(np.random, k)
