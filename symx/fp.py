"""symx.fp -- the rounded-real ("delta") model of binary64 arithmetic.

An FSym stands for a binary64 value; its term is the exact real the double
denotes.  Every arithmetic operation returns  (x op y) * (1 + d)  with a fresh
d, |d| <= 2^-53 (sound for results in the normal range -- harnesses constrain
ranges accordingly).  Operations that binary64 performs exactly (x+0, x*1,
multiplication/division by a power of two, integer-valued results below 2^53
of integer operands) introduce no d.

`unsat` under this model covers every binary64 execution within the stated
ranges; `sat` is a *candidate* (the model over-approximates) that a replayer
must concretise on the real code.
"""
import math
from fractions import Fraction

import numpy as np
import z3

from . import core
from .core import Sym, SymB, RV, lift

U = Fraction(1, 2 ** 53)
UV = z3.RealVal(f"1/{2 ** 53}")

SIDE = []      # delta range constraints (global; harnesses snapshot/reset)
EXACT_QUOTIENTS = [False]   # opt-in: decide divisibility of integer operands to keep exact quotients exact
_n = [0]


def reset():
    del SIDE[:]


def _delta():
    _n[0] += 1
    d = z3.Real(f"dlt!{_n[0]}")
    c = z3.And(d >= -UV, d <= UV)
    SIDE.append(c)
    if core.Ctx.cur is not None:
        core.Ctx.cur.side.append(c)
    return d


def _pow2(c):
    """is the Fraction c = +-2^k ?"""
    if c is None or c == 0:
        return False
    c = abs(c)
    n, d = c.numerator, c.denominator
    return (n & (n - 1) == 0) and (d & (d - 1) == 0)


class FSym(Sym):
    _fp = True

    def __init__(self, t, is_int=False):
        Sym.__init__(self, t, is_int)

    @staticmethod
    def of(x):
        if isinstance(x, FSym):
            return x
        if isinstance(x, Sym):
            return FSym(x.t, x.is_int)
        return FSym(RV(x), core.is_intlike(x))

    @staticmethod
    def var(name, lo=None, hi=None, pre=None):
        v = z3.Real(name)
        if pre is not None:
            if lo is not None:
                pre.append(v >= RV(lo))
            if hi is not None:
                pre.append(v <= RV(hi))
        return FSym(v)

    def _c(self):
        return core.const_value(self.t)

    def _arith(self, o, op, rev=False):
        if core._isarr(o):
            return core._ew(o, (lambda e: op_apply(e, self, op)) if rev else (lambda e: op_apply(self, e, op)))
        if o is None or isinstance(o, (str, bytes, list, tuple, dict)):
            return NotImplemented
        a, b = (FSym.of(o), self) if rev else (self, FSym.of(o))
        ca, cb = a._c(), b._c()
        both_int = a.is_int and b.is_int
        if op == '+':
            t = a.t + b.t
            exact = (ca == 0 or cb == 0) or both_int
        elif op == '-':
            t = a.t - b.t
            exact = (cb == 0) or both_int
        elif op == '*':
            t = a.t * b.t
            exact = ca in (0, 1, -1) or cb in (0, 1, -1) or _pow2(ca) or _pow2(cb) or both_int
        elif op == '/':
            t = a.t / b.t
            exact = cb in (1, -1) or _pow2(cb) or ca == 0
            q_int = bool(both_int and cb in (1, -1))
            if not q_int and both_int and EXACT_QUOTIENTS[0]:
                # IEEE division is correctly rounded: an integer quotient of integers (below 2^53) is delivered
                # exactly.  Whether the quotient is an integer on every admitted value is asked of the solver.
                ctx = core.Ctx.cur
                hyp = (list(ctx.pre) + list(ctx.pc)) if ctx is not None else []
                r, _ = core.check(hyp + [b.t != 0, t != z3.ToReal(z3.ToInt(t))], timeout_ms=5000)
                if r == 'unsat':
                    exact = q_int = True
            both_int = q_int
        else:
            raise core.HarnessError(op)
        if ca is not None and cb is not None:
            # constant folding happens in real binary64
            fa, fb = float(ca), float(cb)
            v = {'+': fa + fb, '-': fa - fb, '*': fa * fb, '/': fa / fb if fb != 0 else float('nan')}[op]
            return FSym(RV(v), float(v).is_integer())
        if exact:
            return FSym(t, both_int)
        return FSym(t * (1 + _delta()), False)

    def __add__(self, o):
        return self._arith(o, '+')

    def __radd__(self, o):
        return self._arith(o, '+', rev=True)

    def __sub__(self, o):
        return self._arith(o, '-')

    def __rsub__(self, o):
        return self._arith(o, '-', rev=True)

    def __mul__(self, o):
        return self._arith(o, '*')

    def __rmul__(self, o):
        return self._arith(o, '*', rev=True)

    def __truediv__(self, o):
        return self._arith(o, '/')

    def __rtruediv__(self, o):
        return self._arith(o, '/', rev=True)

    def __neg__(self):
        return FSym(-self.t, self.is_int)

    def __abs__(self):
        return FSym(z3.If(self.t >= 0, self.t, -self.t), self.is_int)

    def __pow__(self, n):
        if n == 2:
            return self * self
        raise core.HarnessError("FSym power")

    def __floordiv__(self, o):
        # python float floor division: floor of the rounded quotient (approximation noted in DESIGN)
        return core.floor(Sym((self / o).t))

    def astype(self, ty, **kw):
        if ty in (int, np.int64, np.int32) or (isinstance(ty, type) and issubclass(ty, (int, np.integer))):
            return self if self.is_int else core.trunc(Sym(self.t))
        return self

    def __repr__(self):
        return f"FSym({z3.simplify(self.t)})"


def op_apply(a, b, op):
    a = a if isinstance(a, FSym) else FSym.of(a)
    return a._arith(b, op)


def flinspace(start, stop, num, endpoint=True):
    """numpy.linspace in the delta model: step = fl(fl(stop-start)/div); y_i = fl(fl(i*step)+start)"""
    num = int(num)
    div = (num - 1) if endpoint else num
    out = np.empty(num, dtype=object)
    if num == 0:
        return out
    start, stop = FSym.of(start), FSym.of(stop)
    delta = stop - start
    step = delta / div if div > 0 else delta
    for i in range(num):
        out[i] = FSym.of(i) * step + start
    return out


def farange_len(start, stop, step):
    """length of numpy.arange(start, stop, step) for doubles: ceil(fl(fl(stop-start)/step)) (>= 0)"""
    start, stop, step = FSym.of(start), FSym.of(stop), FSym.of(step)
    qv = (stop - start) / step
    n = core.ceil(Sym(qv.t))
    return core.smax(n, 0)


def farange(start, stop, step, cap=64):
    """numpy.arange in the delta model; the length is forked over its feasible values.
    element i = fl(start + fl(i*step))"""
    n = farange_len(start, stop, step)
    k = core.concretize_int(n, cap=cap)
    start, step = FSym.of(start), FSym.of(step)
    out = np.empty(k, dtype=object)
    for i in range(k):
        out[i] = start + FSym.of(i) * step
    return out
