"""symx.core -- symbolic value domain (z3 terms behind Python numbers) and the
forking executor that lets the *real* setigen functions run over them.

Sym   : real/integer valued term (z3 Real sort; ``is_int`` tracks integrality)
SymB  : boolean term; ``bool()`` on it forks the execution
SymC  : complex value as a pair of reals
Ctx   : one execution path (decision prefix, path condition, side constraints)
explore(fn, pre): depth-first re-execution over all feasible decision sequences

All numbers are *exact*: Python floats are lifted to the rational they denote.
"""
import builtins
import time
from fractions import Fraction

import numpy as np
import z3

R = z3.RealSort()


class Inconclusive(Exception):
    """solver said unknown / cap reached: never counted as success."""


class SliceMissing(Exception):
    """an AST slice (statements lifted from the live source to run with symbolic sizes) is not present in this form
    of the source: the job is not applicable to this implementation and says so; the executed jobs of the same check
    carry the claim for concrete sizes"""


class HarnessError(Exception):
    pass


class Stats:
    def __init__(self):
        self.queries = 0
        self.sat = 0
        self.unsat = 0
        self.unknown = 0
        self.solver_s = 0.0
        self.feas_queries = 0
        self.leaves = 0

    def merge(self, o):
        for k in self.__dict__:
            setattr(self, k, getattr(self, k) + getattr(o, k))

    def as_dict(self):
        d = dict(self.__dict__)
        d['solver_s'] = round(d['solver_s'], 3)
        return d


STATS = Stats()
FRAC_INTS = [False]      # opt-in: floor/ceil/trunc of a quotient of integer terms through a fresh integer (solver-friendly NIA)
INT64_WRAP = [False]     # opt-in machine model for float -> int64 casts (set by harnesses that care)


def reset_stats():
    global STATS
    STATS = Stats()
    return STATS


def reset_state():
    """make a job independent of what ran before it in the same worker process: fresh-name counters and the
    AST-id keyed caches start from scratch (z3's heuristics are sensitive to symbol names/order)"""
    _fresh[0] = 0
    _frac_cache.clear()
    _int_cache.clear()
    _sqrt_cache.clear()
    del GLOBAL_SIDE[:]
    FRAC_INTS[0] = False
    try:
        from . import npx, fp
        npx._rh[0] = None
        fp.reset()
        fp._n[0] = 0
    except Exception:
        pass


# ----------------------------------------------------------------- lifting
def RV(x):
    """exact z3 real numeral of a Python/NumPy number."""
    if isinstance(x, (bool, np.bool_)):
        return z3.RealVal(int(x))
    if isinstance(x, (int, np.integer)):
        return z3.RealVal(int(x))
    if isinstance(x, Fraction):
        return z3.RealVal(f"{x.numerator}/{x.denominator}")
    if isinstance(x, (float, np.floating)):
        fr = Fraction(float(x))
        return z3.RealVal(f"{fr.numerator}/{fr.denominator}")
    raise TypeError(f"cannot lift {type(x)}")


def is_num(x):
    return isinstance(x, (bool, int, float, Fraction, np.bool_, np.integer, np.floating))


def is_intlike(x):
    if isinstance(x, Sym):
        return x.is_int
    if isinstance(x, (bool, int, np.bool_, np.integer)):
        return True
    if isinstance(x, (float, np.floating)):
        return float(x).is_integer()
    if isinstance(x, Fraction):
        return x.denominator == 1
    return False


def lift(x):
    """-> z3 Real term"""
    if isinstance(x, Sym):
        return x.t
    if isinstance(x, SymB):
        return z3.If(x.t, z3.RealVal(1), z3.RealVal(0))
    if isinstance(x, z3.ExprRef):
        if z3.is_int(x):
            return z3.ToReal(x)
        return x
    if isinstance(x, np.ndarray) and x.ndim == 0:
        return lift(x.item())
    return RV(x)


def liftb(x):
    if isinstance(x, SymB):
        return x.t
    if isinstance(x, (bool, np.bool_)):
        return z3.BoolVal(bool(x))
    if isinstance(x, z3.ExprRef):
        return x
    raise TypeError(f"cannot lift bool {type(x)}")


def const_value(t):
    """Fraction if the (simplified) term is a numeral, else None"""
    if z3.is_rational_value(t) or z3.is_int_value(t):
        if z3.is_int_value(t):
            return Fraction(t.as_long())
        return Fraction(t.numerator_as_long(), t.denominator_as_long())
    s = z3.simplify(t)
    if z3.is_rational_value(s):
        return Fraction(s.numerator_as_long(), s.denominator_as_long())
    if z3.is_int_value(s):
        return Fraction(s.as_long())
    return None


_fresh = [0]


def fresh(prefix='v'):
    _fresh[0] += 1
    return z3.Real(f"{prefix}!{_fresh[0]}")


_ufs = {}


def UF(name, arity=1):
    key = (name, arity)
    if key not in _ufs:
        _ufs[key] = z3.Function(name, *([R] * (arity + 1)))
    return _ufs[key]


def _ew(arr, fn):
    """apply fn elementwise over an ndarray -> SymArr (object)"""
    from . import npx
    out = np.empty(arr.shape, dtype=object)
    for idx in np.ndindex(arr.shape):
        out[idx] = fn(arr[idx])
    return out.view(npx.SymArr)


def _isarr(o):
    return isinstance(o, np.ndarray) and o.ndim > 0


# ----------------------------------------------------------------- booleans
class SymB:
    __array_priority__ = 2000
    __array_ufunc__ = None

    def __init__(self, t):
        self.t = t

    def __bool__(self):
        t = z3.simplify(self.t)
        if z3.is_true(t):
            return True
        if z3.is_false(t):
            return False
        ctx = Ctx.cur
        if ctx is None:
            raise HarnessError(f"bool() on symbolic condition outside an execution context: {t}")
        ctx.keep.append(t)
        return ctx.decide([(True, t), (False, z3.Not(t))], memo_key=('b', t.get_id()))

    def __and__(self, o):
        return SymB(z3.And(self.t, liftb(o)))

    __rand__ = __and__

    def __or__(self, o):
        return SymB(z3.Or(self.t, liftb(o)))

    __ror__ = __or__

    def __invert__(self):
        return SymB(z3.Not(self.t))

    def __xor__(self, o):
        return SymB(z3.Xor(self.t, liftb(o)))

    def astype(self, ty, **kw):
        if ty in (bool, np.bool_):
            return self
        return Sym(z3.If(self.t, z3.RealVal(1), z3.RealVal(0)), True)

    def __eq__(self, o):
        if isinstance(o, (SymB, bool, np.bool_)):
            return SymB(self.t == liftb(o))
        return Sym(lift(self), True) == o

    def __ne__(self, o):
        r = self.__eq__(o)
        return ~r

    __hash__ = None

    # arithmetic on booleans behaves like 0/1
    def _num(self):
        return Sym(lift(self), True)

    def __mul__(self, o):
        return self._num() * o

    __rmul__ = __mul__

    def __add__(self, o):
        return self._num() + o

    __radd__ = __add__

    def __sub__(self, o):
        return self._num() - o

    def __rsub__(self, o):
        return o - self._num()

    def __repr__(self):
        return f"SymB({z3.simplify(self.t)})"


# ----------------------------------------------------------------- reals
def _cbin(a, b, f):
    """complex fallback for a binary real-term lambda: identify the operator by probing"""
    raise HarnessError("mixed real/complex array arithmetic through _bin")


class Sym:
    __array_priority__ = 2000
    __array_ufunc__ = None

    def __init__(self, t, is_int=False, radicand=None, frac=None):
        self.t = t
        self.is_int = is_int
        self.radicand = radicand  # if this term is sqrt(radicand)
        self.frac = frac          # (numerator term, denominator term) when this is a quotient of integer-valued terms

    # -- helpers
    def _bin(self, o, f, int_ok=True):
        if isinstance(o, SymC) or isinstance(o, (complex, np.complexfloating)):
            return NotImplemented
        if o is None or isinstance(o, (str, bytes, dict, list, tuple)):
            return NotImplemented
        try:
            lo = lift(o)
        except TypeError:
            return NotImplemented          # let the other operand's reflected method handle it
        return Sym(f(self.t, lo), int_ok and self.is_int and is_intlike(o))

    def __add__(self, o):
        if _isarr(o):
            return _ew(o, lambda e: self + e)
        if isinstance(o, (SymC, complex, np.complexfloating)):
            return SymC.of(self) + o
        return self._bin(o, lambda a, b: a + b)

    def __radd__(self, o):
        if _isarr(o):
            return _ew(o, lambda e: e + self)
        if isinstance(o, (SymC, complex, np.complexfloating)):
            return SymC.of(o) + self
        return self._bin(o, lambda a, b: b + a)

    def __sub__(self, o):
        if _isarr(o):
            return _ew(o, lambda e: self - e)
        if isinstance(o, (SymC, complex, np.complexfloating)):
            return SymC.of(self) - o
        return self._bin(o, lambda a, b: a - b)

    def __rsub__(self, o):
        if _isarr(o):
            return _ew(o, lambda e: e - self)
        if isinstance(o, (SymC, complex, np.complexfloating)):
            return SymC.of(o) - self
        return self._bin(o, lambda a, b: b - a)

    def __mul__(self, o):
        if _isarr(o):
            return _ew(o, lambda e: self * e)
        if isinstance(o, (SymC, complex, np.complexfloating)):
            return SymC.of(self) * o
        return self._bin(o, lambda a, b: a * b)

    def __rmul__(self, o):
        if _isarr(o):
            return _ew(o, lambda e: e * self)
        if isinstance(o, (SymC, complex, np.complexfloating)):
            return SymC.of(o) * self
        return self._bin(o, lambda a, b: b * a)

    def __truediv__(self, o):
        if _isarr(o):
            return _ew(o, lambda e: self / e)
        if isinstance(o, (SymC, complex, np.complexfloating)):
            return SymC.of(self) / o
        r = self._bin(o, lambda a, b: a / b, int_ok=False)
        if FRAC_INTS[0] and isinstance(r, Sym) and is_intlike(o):
            st = z3.simplify(r.t)
            if (self.is_int or self.frac is not None) and _integral_linear(st):
                return Sym(st, True)          # exact division of integer terms by a constant (e.g. (16 k) / 16)
            if self.is_int:
                r.frac = (self.t, lift(o))
            elif self.frac is not None:
                r.frac = (self.frac[0], self.frac[1] * lift(o))
        return r

    def __rtruediv__(self, o):
        if _isarr(o):
            return _ew(o, lambda e: e / self)
        if isinstance(o, (SymC, complex, np.complexfloating)):
            return SymC.of(o) / self
        return self._bin(o, lambda a, b: b / a, int_ok=False)

    def __floordiv__(self, o):
        if isinstance(o, np.ndarray) and o.ndim > 0:
            return _ew(o, lambda e: self // e)
        q = self.t / lift(o)
        if FRAC_INTS[0] and self.is_int and is_intlike(o):
            return Sym(_frac_floor(self.t, lift(o)), True)
        return floor(Sym(q))

    def __rfloordiv__(self, o):
        q = lift(o) / self.t
        return floor(Sym(q))

    def __mod__(self, o):
        if isinstance(o, np.ndarray) and o.ndim > 0:
            return _ew(o, lambda e: self % e)
        # Python semantics: a - floor(a/b)*b
        if FRAC_INTS[0] and self.is_int and is_intlike(o):
            fl = Sym(_frac_floor(self.t, lift(o)), True)
        else:
            fl = floor(Sym(self.t / lift(o)))
        return Sym(self.t - fl.t * lift(o), self.is_int and is_intlike(o))

    def __rmod__(self, o):
        fl = floor(Sym(lift(o) / self.t))
        return Sym(lift(o) - fl.t * self.t, self.is_int and is_intlike(o))

    def __neg__(self):
        return Sym(-self.t, self.is_int)

    def __pos__(self):
        return self

    def __abs__(self):
        return Sym(z3.If(self.t >= 0, self.t, -self.t), self.is_int)

    def __pow__(self, n):
        if isinstance(n, Sym):
            c = const_value(n.t)
            if c is None:
                return Sym(UF('POW', 2)(self.t, n.t))
            n = c
        if is_num(n):
            fn = Fraction(n) if not isinstance(n, Fraction) else n
            if fn.denominator == 1 and 0 <= fn.numerator <= 8:
                k = int(fn.numerator)
                if k == 0:
                    return Sym(z3.RealVal(1), True)
                if k == 2 and self.radicand is not None:
                    return Sym(self.radicand)
                out = self.t
                for _ in range(k - 1):
                    out = out * self.t
                return Sym(out, self.is_int)
            if fn == Fraction(1, 2):
                return self.sqrt()
            if fn.denominator == 1 and -8 <= fn.numerator < 0:
                return 1 / (self ** (-fn.numerator))
            return Sym(UF('POW', 2)(self.t, RV(n)))
        return NotImplemented

    def __rpow__(self, b):
        return Sym(UF('POW', 2)(lift(b), self.t))

    # comparisons
    def _cmp(self, o, f):
        if isinstance(o, np.ndarray) and o.ndim > 0:
            return _ew(o, lambda e: self._cmp(e, f))
        return SymB(f(self.t, lift(o)))

    def __lt__(self, o):
        return self._cmp(o, lambda a, b: a < b)

    def __le__(self, o):
        return self._cmp(o, lambda a, b: a <= b)

    def __gt__(self, o):
        return self._cmp(o, lambda a, b: a > b)

    def __ge__(self, o):
        return self._cmp(o, lambda a, b: a >= b)

    def __eq__(self, o):
        if o is None or isinstance(o, (str, bytes, dict, list, tuple, type)):
            return False
        if isinstance(o, np.ndarray) and o.ndim > 0:
            return _ew(o, lambda e: self == e)
        try:
            return SymB(self.t == lift(o))
        except TypeError:
            return False

    def __ne__(self, o):
        r = self.__eq__(o)
        if r is False:
            return True
        if r is NotImplemented:
            return r
        return ~r

    __hash__ = None

    def __bool__(self):
        return bool(self != 0)

    # conversions
    def astype(self, ty, **kw):
        if ty in (int, np.int64, np.int32, np.int8, 'int') or (isinstance(ty, type) and issubclass(ty, (int, np.integer))):
            v = self if self.is_int else trunc(self)
            if INT64_WRAP[0] and const_value(v.t) is None:
                # float64 -> int64 conversion of an out-of-range value yields INT64_MIN on x86-64 (what NumPy does)
                lo, hi = z3.RealVal(-2 ** 63), z3.RealVal(2 ** 63 - 1)
                return Sym(z3.If(z3.And(v.t >= lo, v.t <= hi), v.t, lo), True)
            return v
        return self

    def __round__(self, nd=None):
        if nd not in (None, 0):
            raise HarnessError("round(x, ndigits) on symbolic value")
        return rne(self)

    def __trunc__(self):
        return trunc(self)

    def __floor__(self):
        return floor(self)

    def __ceil__(self):
        return ceil(self)

    def __index__(self):
        if not self.is_int:
            raise TypeError("symbolic real used as an index")
        return concretize_int(self)

    def __int__(self):
        # builtins.int(Sym) (not shadowed) must return a real int: concretise
        v = self if self.is_int else trunc(self)
        return concretize_int(v)

    def __float__(self):
        c = const_value(self.t)
        if c is None:
            raise HarnessError(f"float() on symbolic value {self}")
        return float(c)

    def item(self):
        return self

    def __format__(self, spec):
        # symbolic values inside messages / f-strings: a placeholder token
        c = const_value(self.t)
        if c is not None:
            try:
                return format(float(c) if not self.is_int else int(c), spec)
            except (ValueError, TypeError):
                pass
        return f"<sym#{self.t.get_id()}>"

    # numpy object-dtype ufunc protocol: np.sin(objarr) calls elem.sin()
    def _uf(self, name):
        c = const_value(self.t)
        return Sym(UF(name)(self.t))

    def sin(self):
        return self._uf('SIN')

    def cos(self):
        return self._uf('COS')

    def exp(self):
        return self._uf('EXP')

    def log(self):
        return self._uf('LOG')

    def log10(self):
        return self._uf('LOG10')

    def sqrt(self):
        c = const_value(self.t)
        if c is not None and c >= 0:
            from math import isqrt
            n, d = c.numerator, c.denominator
            if isqrt(n) ** 2 == n and isqrt(d) ** 2 == d:
                return Sym(RV(Fraction(isqrt(n), isqrt(d))))
        return sqrt_of(self)

    def conjugate(self):
        return self

    conj = conjugate

    def rint(self):
        return rne(self)

    def floor(self):
        return floor(self)

    def ceil(self):
        return ceil(self)

    def trunc(self):
        return trunc(self)

    @property
    def real(self):
        return self

    @property
    def imag(self):
        return Sym(z3.RealVal(0), True)

    def __repr__(self):
        return f"Sym({z3.simplify(self.t)})"


_sqrt_cache = {}


def sqrt_of(x):
    """principal square root as a fresh constant with a side constraint"""
    key = x.t.get_id()
    if key in _sqrt_cache and _sqrt_cache[key][0].eq(x.t):
        s = _sqrt_cache[key][1]
    else:
        s = fresh('sqrt')
        _sqrt_cache[key] = (x.t, s)
    side(z3.And(s >= 0, s * s == x.t))
    return Sym(s, radicand=x.t)


def side(c):
    """add a definitional side constraint to the current path (or global list)"""
    if Ctx.cur is not None:
        Ctx.cur.side.append(c)
    else:
        GLOBAL_SIDE.append(c)


GLOBAL_SIDE = []


def to_int_term(x):
    return z3.ToInt(lift(x))


_frac_cache = {}


def _integral_linear(t):
    """is the (simplified) term built from integer numerals, ToReal(int terms), +, * only"""
    if z3.is_rational_value(t):
        return t.denominator_as_long() == 1
    if z3.is_app(t):
        k = t.decl().kind()
        if k == z3.Z3_OP_TO_REAL:
            return True
        if k in (z3.Z3_OP_ADD, z3.Z3_OP_MUL, z3.Z3_OP_UMINUS, z3.Z3_OP_SUB):
            return all(_integral_linear(c) for c in t.children())
    return False


def _frac_floor(n, d):
    """floor(n/d) for integer-valued n, d != 0 through a fresh integer q (definition as side constraint)"""
    key = (n.get_id(), d.get_id())
    hit = _frac_cache.get(key)
    if hit is not None and hit[0].eq(n) and hit[1].eq(d):
        qv = hit[2]               # the same quotient is the same integer on every path (floor is a function)
    else:
        _fresh[0] += 1
        qv = z3.ToReal(z3.Int(f"q!{_fresh[0]}"))
        _frac_cache[key] = (n, d, qv)
    cd = const_value(d)
    if cd is not None and cd > 0:
        side(z3.And(qv * d <= n, n < (qv + 1) * d))
    else:
        side(z3.Or(z3.And(d > 0, qv * d <= n, n < (qv + 1) * d), z3.And(d < 0, qv * d >= n, n > (qv + 1) * d)))
    return qv


def floor(x):
    if not isinstance(x, Sym):
        x = Sym(lift(x))
    if x.is_int:
        return x
    if FRAC_INTS[0] and x.frac is not None:
        return Sym(_frac_floor(*x.frac), True)
    return Sym(z3.ToReal(z3.ToInt(x.t)), True)


def ceil(x):
    if not isinstance(x, Sym):
        x = Sym(lift(x))
    if x.is_int:
        return x
    if FRAC_INTS[0] and x.frac is not None:
        return Sym(-_frac_floor(-x.frac[0], x.frac[1]), True)
    return Sym(-z3.ToReal(z3.ToInt(-x.t)), True)


def trunc(x):
    if not isinstance(x, Sym):
        x = Sym(lift(x))
    if x.is_int:
        return x
    if FRAC_INTS[0] and _integral_linear(z3.simplify(x.t)):
        return Sym(z3.simplify(x.t), True)
    if FRAC_INTS[0] and x.frac is not None:
        n, d = x.frac
        return Sym(z3.If(x.t >= 0, _frac_floor(n, d), -_frac_floor(-n, d)), True)
    return Sym(z3.If(x.t >= 0, z3.ToReal(z3.ToInt(x.t)), -z3.ToReal(z3.ToInt(-x.t))), True)


def rne(x):
    """round half to even (np.round / Python round)"""
    if not isinstance(x, Sym):
        x = Sym(lift(x))
    if x.is_int:
        return x
    fi = z3.ToInt(x.t)
    fl = z3.ToReal(fi)
    d = x.t - fl
    half = z3.RealVal('1/2')
    return Sym(z3.If(d < half, fl, z3.If(d > half, fl + 1, z3.If(fi % 2 == 0, fl, fl + 1))), True)


def smin(*a):
    if len(a) == 1:
        if not isinstance(a[0], (list, tuple, np.ndarray)):
            return a[0]
        a = list(a[0])
    if not any(isinstance(v, (Sym, SymB)) for v in a):
        return builtins.min(*a)
    out = a[0]
    for v in a[1:]:
        A, B = lift(out), lift(v)
        out = Sym(z3.If(B < A, B, A), is_intlike(out) and is_intlike(v))
    return out


def smax(*a):
    if len(a) == 1:
        if not isinstance(a[0], (list, tuple, np.ndarray)):
            return a[0]
        a = list(a[0])
    if not any(isinstance(v, (Sym, SymB)) for v in a):
        return builtins.max(*a)
    out = a[0]
    for v in a[1:]:
        A, B = lift(out), lift(v)
        out = Sym(z3.If(B > A, B, A), is_intlike(out) and is_intlike(v))
    return out


def sabs(x):
    return abs(x)


def ite(c, a, b):
    c = liftb(c)
    if isinstance(a, SymC) or isinstance(b, SymC):
        a, b = SymC.of(a), SymC.of(b)
        return SymC(ite(c, a.re, b.re), ite(c, a.im, b.im))
    return Sym(z3.If(c, lift(a), lift(b)), is_intlike(a) and is_intlike(b))


# ----------------------------------------------------------------- complex
class SymC:
    __array_priority__ = 2000
    __array_ufunc__ = None

    def __init__(self, re, im):
        self.re = re if isinstance(re, Sym) else Sym(lift(re), is_intlike(re))
        self.im = im if isinstance(im, Sym) else Sym(lift(im), is_intlike(im))

    @staticmethod
    def of(o):
        if isinstance(o, SymC):
            return o
        if isinstance(o, (complex, np.complexfloating)):
            return SymC(o.real, o.imag)
        return SymC(o, 0)

    def _arr(self, o):
        return isinstance(o, np.ndarray) and o.ndim > 0

    def __add__(self, o):
        if self._arr(o):
            return _ew(o, lambda e: self + e)
        o = SymC.of(o)
        return SymC(self.re + o.re, self.im + o.im)

    __radd__ = __add__

    def __sub__(self, o):
        if self._arr(o):
            return _ew(o, lambda e: self - e)
        o = SymC.of(o)
        return SymC(self.re - o.re, self.im - o.im)

    def __rsub__(self, o):
        if self._arr(o):
            return _ew(o, lambda e: e - self)
        o = SymC.of(o)
        return SymC(o.re - self.re, o.im - self.im)

    def __mul__(self, o):
        if self._arr(o):
            return _ew(o, lambda e: self * e)
        if not isinstance(o, (SymC, complex, np.complexfloating)):
            return SymC(self.re * o, self.im * o)
        o = SymC.of(o)
        return SymC(self.re * o.re - self.im * o.im, self.re * o.im + self.im * o.re)

    __rmul__ = __mul__

    def __truediv__(self, o):
        if self._arr(o):
            return _ew(o, lambda e: self / e)
        if isinstance(o, (SymC, complex, np.complexfloating)):
            o = SymC.of(o)
            d = o.re * o.re + o.im * o.im
            return SymC((self.re * o.re + self.im * o.im) / d, (self.im * o.re - self.re * o.im) / d)
        return SymC(self.re / o, self.im / o)

    def __rtruediv__(self, o):
        if self._arr(o):
            return _ew(o, lambda e: e / self)
        return SymC.of(o) / self

    def __neg__(self):
        return SymC(-self.re, -self.im)

    def __abs__(self):
        return sqrt_of(self.re * self.re + self.im * self.im)

    def conjugate(self):
        return SymC(self.re, -self.im)

    conj = conjugate

    def __pow__(self, n):
        if n == 2:
            return self * self
        raise HarnessError("complex power")

    @property
    def real(self):
        return self.re

    @property
    def imag(self):
        return self.im

    def __eq__(self, o):
        if o is None:
            return False
        o = SymC.of(o)
        return SymB(z3.And(self.re.t == o.re.t, self.im.t == o.im.t))

    __hash__ = None

    def astype(self, ty, **kw):
        return self

    def __repr__(self):
        return f"SymC({z3.simplify(self.re.t)}, {z3.simplify(self.im.t)})"


# ----------------------------------------------------------------- execution
class LeafCap(Inconclusive):
    pass


class Ctx:
    cur = None

    def __init__(self, pre, solver=None, timeout_ms=20000):
        self.pre = list(pre)
        self.prefix = []
        self.pos = 0
        self.pc = []
        self.side = []
        self.todo = []
        self.trace = []
        self.memo = {}
        self.keep = []   # keeps memoised ASTs alive so that their ids stay unique
        self.solver = solver
        self.timeout_ms = timeout_ms

    def _solver(self):
        if self.solver is None:
            self.solver = z3.Solver()
            self.solver.set('timeout', self.timeout_ms)
            self.solver.add(*self.pre)
        return self.solver

    def feasible(self, c):
        if FRAC_INTS[0]:
            ia = intify_all(self.pre + self.pc + self.side + [c])
            if ia is not None:
                s = z3.Solver()
                s.set('timeout', self.timeout_ms)
                s.add(*ia)
                t0 = time.time()
                r = s.check()
                STATS.solver_s += time.time() - t0
                STATS.feas_queries += 1
                if r == z3.unknown:
                    raise Inconclusive(f"feasibility unknown: {s.reason_unknown()}")
                return r == z3.sat
        s = self._solver()
        s.push()
        s.add(*self.pc)
        s.add(*self.side)
        s.add(c)
        t0 = time.time()
        r = s.check()
        STATS.solver_s += time.time() - t0
        STATS.feas_queries += 1
        s.pop()
        if r == z3.unknown:
            raise Inconclusive(f"feasibility unknown: {s.reason_unknown()}")
        return r == z3.sat

    def feasible_options(self, options):
        """indices of the options whose condition is satisfiable on this path
        (model-guided: one solver call per feasible option, plus one)"""
        if len(options) <= 2:
            return [i for i, (v, c) in enumerate(options) if self.feasible(c)]
        s = self._solver()
        s.push()
        s.add(*self.pc)
        s.add(*self.side)
        conds = [c for v, c in options]
        s.add(z3.Or(*conds))
        feas = []
        try:
            while True:
                t0 = time.time()
                r = s.check()
                STATS.solver_s += time.time() - t0
                STATS.feas_queries += 1
                if r == z3.unknown:
                    raise Inconclusive(f"feasibility unknown: {s.reason_unknown()}")
                if r != z3.sat:
                    break
                m = s.model()
                hit = None
                for i, c in enumerate(conds):
                    if i in feas:
                        continue
                    if z3.is_true(m.eval(c, model_completion=True)):
                        hit = i
                        break
                if hit is None:
                    raise HarnessError("model satisfies no option")
                feas.append(hit)
                s.add(z3.Not(conds[hit]))
        finally:
            s.pop()
        return sorted(feas)

    def decide(self, options, label=None, memo_key=None):
        """options: list of (value, condition); picks per the decision prefix,
        scheduling the other feasible options for later re-execution."""
        if memo_key is not None and memo_key in self.memo:
            return self.memo[memo_key]
        if self.pos < len(self.prefix):
            k = self.prefix[self.pos]
        else:
            feas = self.feasible_options(options)
            if not feas:
                raise Infeasible()
            k = feas[0]
            for j in feas[1:]:
                self.todo.append(self.prefix[:self.pos] + [j])
            self.prefix = self.prefix[:self.pos] + [k]
        self.pos += 1
        v, c = options[k]
        self.pc.append(c)
        self.trace.append((label, v))
        if memo_key is not None:
            self.memo[memo_key] = v
        return v


class Infeasible(Exception):
    pass


def concretize_int(s, cap=96):
    """fork over the feasible integer values of an integer-valued term"""
    c = const_value(s.t)
    if c is not None:
        return int(c)
    ctx = Ctx.cur
    if ctx is None:
        raise HarnessError(f"symbolic integer needs a concrete value outside a context: {s}")
    mk = ('i', s.t.get_id())
    ctx.keep.append(s.t)
    if mk in ctx.memo:
        return ctx.memo[mk]
    if ctx.pos < len(ctx.prefix):
        # replaying: value recorded in the prefix as ('v', value)
        k = ctx.prefix[ctx.pos]
        ctx.pos += 1
        iv = k[1]
        ctx.pc.append(s.t == iv)
        ctx.trace.append(('int', iv))
        ctx.memo[mk] = iv
        return iv
    sol = z3.Solver()
    sol.set('timeout', ctx.timeout_ms)
    sol.add(*ctx.pre)
    sol.add(*ctx.pc)
    sol.add(*ctx.side)
    vals = []
    while True:
        t0 = time.time()
        r = sol.check()
        STATS.solver_s += time.time() - t0
        STATS.feas_queries += 1
        if r == z3.unknown:
            raise Inconclusive("concretize unknown")
        if r != z3.sat:
            break
        v = sol.model().eval(s.t, model_completion=True)
        v = z3.simplify(v)
        fr = Fraction(v.numerator_as_long(), v.denominator_as_long())
        iv = int(fr)
        if fr != iv:
            raise HarnessError(f"integer-flagged term has non-integer model value {fr}")
        vals.append(iv)
        sol.add(s.t != iv)
        if len(vals) > cap:
            raise LeafCap(f"more than {cap} feasible values for an index")
    if not vals:
        raise Infeasible()
    vals.sort()
    for v in vals[1:]:
        ctx.todo.append(ctx.prefix[:ctx.pos] + [('v', v)])
    ctx.prefix = ctx.prefix[:ctx.pos] + [('v', vals[0])]
    ctx.pos += 1
    ctx.pc.append(s.t == vals[0])
    ctx.trace.append(('int', vals[0]))
    ctx.memo[mk] = vals[0]
    return vals[0]


class Leaf:
    __slots__ = ('pc', 'side', 'kind', 'value', 'trace')

    def __init__(self, pc, side_, kind, value, trace):
        self.pc = pc
        self.side = side_
        self.kind = kind
        self.value = value
        self.trace = trace

    def cond(self):
        return z3.And(*self.pc) if self.pc else z3.BoolVal(True)


def explore(fn, pre=(), cap=4000, catch=(Exception,), timeout_ms=20000):
    """run fn() over every feasible decision sequence. Returns list of Leaf.
    Exceptions raised by the code under analysis become leaves of kind 'exc'."""
    leaves = []
    work = [[]]
    while work:
        pfx = work.pop()
        ctx = Ctx(pre, timeout_ms=timeout_ms)
        ctx.prefix = pfx
        prev = Ctx.cur
        Ctx.cur = ctx
        try:
            try:
                res = ('ok', fn())
            except (Inconclusive, HarnessError):
                raise
            except Infeasible:
                res = None
            except catch as e:
                res = ('exc', e)
        finally:
            Ctx.cur = prev
        if res is not None:
            leaves.append(Leaf(list(ctx.pc), list(ctx.side), res[0], res[1], list(ctx.trace)))
        work.extend(ctx.todo)
        STATS.leaves += 1
        if len(leaves) > cap:
            raise LeafCap(f"more than {cap} paths")
    return leaves


def run_single(fn, pre=()):
    """run fn() expecting no forks (asserted)."""
    leaves = explore(fn, pre, cap=1)
    if len(leaves) != 1:
        raise HarnessError("unexpected fork")
    return leaves[0]


# ----------------------------------------------------------------- integer view of integer-valued real terms
class NotIntegral(Exception):
    pass


_int_cache = {}


def intify(e):
    """rebuild a formula whose Real-sorted subterms are all integer valued (ToReal of Int terms, integer numerals,
    +, -, *, If) in pure Int sort.  Equivalence preserving; raises NotIntegral otherwise."""
    key = e.get_id()
    hit = _int_cache.get(key)
    if hit is not None and hit[0].eq(e):
        return hit[1]
    r = _intify(e)
    _int_cache[key] = (e, r)
    return r


def _intify(e):
    if z3.is_bool(e):
        if z3.is_true(e) or z3.is_false(e):
            return e
        k = e.decl().kind()
        ch = e.children()
        if k in (z3.Z3_OP_AND, z3.Z3_OP_OR):
            cs = [intify(c) for c in ch]
            return z3.And(*cs) if k == z3.Z3_OP_AND else z3.Or(*cs)
        if k == z3.Z3_OP_NOT:
            return z3.Not(intify(ch[0]))
        if k == z3.Z3_OP_IMPLIES:
            return z3.Implies(intify(ch[0]), intify(ch[1]))
        if k == z3.Z3_OP_ITE:
            return z3.If(intify(ch[0]), intify(ch[1]), intify(ch[2]))
        if k in (z3.Z3_OP_LE, z3.Z3_OP_LT, z3.Z3_OP_GE, z3.Z3_OP_GT, z3.Z3_OP_EQ, z3.Z3_OP_DISTINCT):
            if z3.is_bool(ch[0]):
                a, b = intify(ch[0]), intify(ch[1])
            else:
                a, b = _intify_term(ch[0]), _intify_term(ch[1])
            return {z3.Z3_OP_LE: lambda: a <= b, z3.Z3_OP_LT: lambda: a < b, z3.Z3_OP_GE: lambda: a >= b, z3.Z3_OP_GT: lambda: a > b,
                    z3.Z3_OP_EQ: lambda: a == b, z3.Z3_OP_DISTINCT: lambda: a != b}[k]()
        if k == z3.Z3_OP_UNINTERPRETED and not ch:
            return e
        raise NotIntegral(str(e.decl()))
    return _intify_term(e)


def _intify_term(t):
    if z3.is_int(t):
        return t
    if z3.is_rational_value(t):
        if t.denominator_as_long() != 1:
            raise NotIntegral(str(t))
        return z3.IntVal(t.numerator_as_long())
    k = t.decl().kind()
    ch = t.children()
    if k == z3.Z3_OP_TO_REAL:
        return ch[0]
    if k == z3.Z3_OP_ADD:
        cs = [_intify_term(c) for c in ch]
        out = cs[0]
        for c in cs[1:]:
            out = out + c
        return out
    if k == z3.Z3_OP_MUL:
        cs = [_intify_term(c) for c in ch]
        out = cs[0]
        for c in cs[1:]:
            out = out * c
        return out
    if k == z3.Z3_OP_SUB:
        cs = [_intify_term(c) for c in ch]
        out = cs[0]
        for c in cs[1:]:
            out = out - c
        return out
    if k == z3.Z3_OP_UMINUS:
        return -_intify_term(ch[0])
    if k == z3.Z3_OP_ITE:
        return z3.If(intify(ch[0]), _intify_term(ch[1]), _intify_term(ch[2]))
    raise NotIntegral(str(t.decl()))


def intify_all(assertions):
    try:
        return [intify(z3.simplify(a) if not z3.is_bool(a) else a) for a in assertions]
    except NotIntegral:
        return None


# ----------------------------------------------------------------- queries
def check(assertions, timeout_ms=60000, want_model=True):
    """-> ('unsat'|'sat'|'unknown', model or None)"""
    s = z3.Solver()
    s.set('timeout', timeout_ms)
    alist = list(GLOBAL_SIDE) + list(assertions)
    if FRAC_INTS[0]:
        ia = intify_all(alist)
        if ia is not None:
            alist = ia
    s.add(*alist)
    t0 = time.time()
    r = s.check()
    if r == z3.unknown:
        # z3's non-linear / mixed-integer heuristics are seed sensitive: two more attempts before giving up
        for seed in (7, 23):
            s2 = z3.Solver()
            s2.set('timeout', timeout_ms)
            s2.set('random_seed', seed)
            s2.add(*alist)
            r = s2.check()
            if r != z3.unknown:
                s = s2
                break
    STATS.solver_s += time.time() - t0
    STATS.queries += 1
    if r == z3.sat:
        STATS.sat += 1
        return 'sat', (s.model() if want_model else None)
    if r == z3.unsat:
        STATS.unsat += 1
        return 'unsat', None
    STATS.unknown += 1
    return 'unknown', s.reason_unknown()


def model_num(m, t):
    v = z3.simplify(m.eval(lift(t), model_completion=True))
    if z3.is_rational_value(v):
        return Fraction(v.numerator_as_long(), v.denominator_as_long())
    if z3.is_int_value(v):
        return Fraction(v.as_long())
    if z3.is_algebraic_value(v):
        a = v.approx(30)
        return Fraction(a.numerator_as_long(), a.denominator_as_long())
    raise HarnessError(f"non-numeric model value {v}")


def model_float(m, t):
    return float(model_num(m, t))


def model_vals(m, names):
    """{name: float} for the real constants `names` under model m (for replays that take their inputs from the model)"""
    out = {}
    if m is None:
        return out
    for n in names:
        try:
            out[n] = model_float(m, z3.Real(n))
        except Exception:
            pass
    return out


def uf_table(m, f):
    """FuncInterp of a unary/binary real UF -> (list of (args, value), else)"""
    if not any(d.eq(f) for d in m.decls()):
        return [], 0.0
    fi = m[f]
    if fi is None:
        return [], 0.0
    rows = []
    if isinstance(fi, z3.FuncInterp):
        for i in range(fi.num_entries()):
            e = fi.entry(i)
            args = [float(model_num(m, e.arg_value(k))) for k in range(e.num_args())]
            rows.append((args, float(model_num(m, e.value()))))
        els = fi.else_value()
        try:
            els = float(model_num(m, els))
        except Exception:
            els = 0.0
        return rows, els
    return [], float(model_num(m, fi))
