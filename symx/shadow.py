"""symx.shadow -- put symbolic-aware stand-ins into a setigen module's global
namespace for the duration of a harness (and take them out again).

Module globals shadow builtins for every function defined in that module, so
``int(x)``, ``min(a, b)``, ``isinstance(v, (int, float))`` inside the real code
reach these objects while the code itself is untouched.
"""
import builtins
import contextlib

import numpy as np

from . import core
from .core import Sym, SymB, SymC


class _MInt(type):
    def __instancecheck__(cls, o):
        return builtins.isinstance(o, builtins.int) or (builtins.isinstance(o, Sym) and o.is_int)


class sint(builtins.int, metaclass=_MInt):
    """shadow of builtins.int: truncation on symbolic values stays symbolic"""

    def __new__(cls, x=0, *a):
        if builtins.isinstance(x, Sym):
            return x if x.is_int else core.trunc(x)
        if builtins.isinstance(x, SymB):
            return Sym(core.lift(x), True)
        return builtins.int(x, *a)


class _MFloat(type):
    def __instancecheck__(cls, o):
        return builtins.isinstance(o, builtins.float) or (builtins.isinstance(o, Sym) and not o.is_int)


class sfloat(builtins.float, metaclass=_MFloat):
    def __new__(cls, x=0.0):
        if builtins.isinstance(x, Sym):
            return x
        return builtins.float(x)


class _MComplex(type):
    def __instancecheck__(cls, o):
        return builtins.isinstance(o, builtins.complex) or builtins.isinstance(o, SymC)


class scomplex(builtins.complex, metaclass=_MComplex):
    def __new__(cls, *a):
        if a and builtins.isinstance(a[0], (Sym, SymC)):
            return SymC.of(a[0])
        return builtins.complex(*a)


def sround(x, nd=None):
    if builtins.isinstance(x, Sym):
        return core.rne(x)
    return builtins.round(x, nd) if nd is not None else builtins.round(x)


def sabs(x):
    return builtins.abs(x)


def slen(x):
    return builtins.len(x)


DEFAULT_BUILTINS = {
    'int': sint,
    'float': sfloat,
    'complex': scomplex,
    'round': sround,
    'min': core.smin,
    'max': core.smax,
}


@contextlib.contextmanager
def patched(module, **attrs):
    """temporarily set attributes on a module (restores / deletes afterwards)"""
    missing = object()
    old = {}
    for k, v in attrs.items():
        old[k] = module.__dict__.get(k, missing)
        setattr(module, k, v)
    try:
        yield
    finally:
        for k, v in old.items():
            if v is missing:
                try:
                    delattr(module, k)
                except AttributeError:
                    pass
            else:
                setattr(module, k, v)


@contextlib.contextmanager
def patched_many(specs):
    """specs: list of (module, dict)"""
    with contextlib.ExitStack() as st:
        for mod, attrs in specs:
            st.enter_context(patched(mod, **attrs))
        yield
