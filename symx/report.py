"""symx.report -- verdict protocol, job pool, replay files, known findings,
evidence files.  Exit codes: 0 held / 1 violation / 2 harness error / 3 inconclusive.
"""
import hashlib
import json
import multiprocessing as mp
import os
import re
import signal
import subprocess
import sys
import time
import traceback

VERIF = os.path.dirname(os.path.dirname(os.path.abspath(__file__)))
REPO = os.environ.get('SETIGEN_REPO', '/repo')
PY = os.path.join(VERIF, '.venv', 'bin', 'python')


def use_repo():
    """make `import setigen` resolve to REPO (not the editable install) and
    silence its import-time warnings"""
    import warnings
    warnings.filterwarnings('ignore')
    if sys.path[0] != REPO:
        sys.path.insert(0, REPO)
    os.environ.setdefault('SETIGEN_VERIF', '1')
    import setigen
    if not os.path.abspath(setigen.__file__).startswith(os.path.abspath(REPO)):
        raise RuntimeError(f"setigen resolved to {setigen.__file__}, expected under {REPO}")
    return setigen


def file_hashes(relpaths):
    out = {}
    for rp in relpaths:
        p = os.path.join(REPO, rp)
        try:
            out[rp] = hashlib.sha256(open(p, 'rb').read()).hexdigest()[:16]
        except OSError:
            out[rp] = 'missing'
    return out


class JobTimeout(Exception):
    pass


def _alarm(signum, frame):
    raise JobTimeout()


def _run_job(arg):
    """worker: arg = (module_name, func_name, params, timeout_s)"""
    modname, fname, params, timeout_s = arg
    t0 = time.time()
    rec = {'job': f"{fname}{params}", 'records': [], 'status': 'ok'}
    try:
        signal.signal(signal.SIGALRM, _alarm)
        signal.alarm(int(timeout_s))
        import importlib
        from symx import core
        core.reset_stats()
        core.reset_state()
        mod = importlib.import_module(modname)
        fn = getattr(mod, fname)
        out = fn(*params)
        rec['records'] = out or []
        rec['stats'] = core.STATS.as_dict()
    except JobTimeout:
        rec['status'] = 'timeout'
    except BaseException as e:      # incl. SystemExit raised by third-party code (blimpy calls sys.exit on bad files)
        from symx import core
        if isinstance(e, KeyboardInterrupt):
            raise
        if isinstance(e, core.Inconclusive):
            rec['status'] = 'inconclusive'
            rec['error'] = f"{type(e).__name__}: {e}"
        elif isinstance(e, core.SliceMissing):
            rec['status'] = 'ok'
            rec['records'] = [note(f"{fname}{params}: not applicable to this form of the source: {e}", slice_missing=True)]
        else:
            rec['status'] = 'error'
            rec['error'] = f"{type(e).__name__}: {e}"
            rec['tb'] = traceback.format_exc()[-3000:]
        try:
            rec['stats'] = core.STATS.as_dict()
        except Exception:
            pass
    finally:
        signal.alarm(0)
    rec['wall_s'] = round(time.time() - t0, 3)
    return rec


# record constructors used by job functions --------------------------------
def q(name, verdict, ms=None, **extra):
    """a discharged query. verdict in unsat/sat/unknown; `expect` defaults to unsat"""
    d = {'kind': 'query', 'name': name, 'verdict': verdict}
    if ms is not None:
        d['ms'] = round(ms, 1)
    d.update(extra)
    return d


def cex(key, what, payload, name=None):
    """candidate counterexample (from a sat answer); replayed by the parent"""
    return {'kind': 'cex', 'key': key, 'what': what, 'payload': payload, 'name': name}


def note(name, **kw):
    d = {'kind': 'note', 'name': name}
    d.update(kw)
    return d


class Check:
    def __init__(self, pid, title, argv=None):
        import argparse
        ap = argparse.ArgumentParser()
        ap.add_argument('--tier', default=os.environ.get('VERIF_TIER', 'quick'))
        ap.add_argument('--jobs', type=int, default=int(os.environ.get('VERIF_JOBS', '0')) or min(16, os.cpu_count() or 4))
        ap.add_argument('--only', default=None, help='substring filter on job names (development)')
        a = ap.parse_args(argv)
        self.pid = pid
        self.title = title
        self.tier = a.tier if a.tier in ('quick', 'thorough') else 'quick'
        self.njobs = a.jobs
        self.only = a.only
        self.seed = int(os.environ.get('VERIF_SEED', '0') or 0)
        self.t0 = time.time()
        self.queries = []
        self.cexs = []
        self.notes = []
        self.errors = []
        self.inconclusive = []
        self.stats = {}
        self.samples = []
        self.assumptions = []
        self.functions = []
        self.files = []
        self.bounds = {}
        self.stubs = []
        self.njobs_run = 0
        self.violations = []
        self.known_hits = []
        self.unreproduced = []
        self.explanation = ''

    thorough = property(lambda s: s.tier == 'thorough')

    # ---- running jobs
    def run_jobs(self, modname, jobs, timeout_s=600):
        """jobs: list of (func_name, params tuple)"""
        if self.only:
            jobs = [j for j in jobs if self.only in f"{j[0]}{j[1]}"]
        args = [(modname, f, p, timeout_s) for f, p in jobs]
        if not args:
            return
        if self.njobs <= 1 or len(args) == 1:
            results = [_run_job(a) for a in args]
        else:
            ctx = mp.get_context('fork')
            with ctx.Pool(min(self.njobs, len(args)), maxtasksperchild=1) as pool:
                results = pool.map(_run_job, args, chunksize=1)
        for r in results:
            self.absorb(r)

    def absorb(self, r):
        self.njobs_run += 1
        self.job_walls = getattr(self, 'job_walls', [])
        self.job_walls.append((r.get('wall_s', 0), r['job']))
        for k, v in (r.get('stats') or {}).items():
            self.stats[k] = round(self.stats.get(k, 0) + v, 3)
        if r['status'] == 'error':
            self.errors.append((r['job'], r.get('error'), r.get('tb')))
        elif r['status'] in ('timeout', 'inconclusive'):
            self.inconclusive.append((r['job'], r.get('error', r['status'])))
        for rec in r['records']:
            rec['job'] = r['job']
            k = rec['kind']
            if k == 'query':
                self.queries.append(rec)
            elif k == 'cex':
                self.cexs.append(rec)
            else:
                self.notes.append(rec)

    # ---- findings
    def _known(self):
        p = os.path.join(VERIF, 'known_findings.json')
        try:
            d = json.load(open(p))
        except OSError:
            return {}
        return {f['key']: f for f in d.get('findings', []) if f.get('property') == self.pid}

    def _replay(self, rec, n):
        d = os.path.join(VERIF, 'replays', self.pid)
        os.makedirs(d, exist_ok=True)
        path = os.path.join(d, f"{n:03d}_{re.sub(r'[^A-Za-z0-9_.-]+', '_', rec['key'])[:60]}.py")
        body = ("#!/verif/.venv/bin/python\n"
                "# replay of a solver counterexample against the real, unshadowed code.\n"
                "# exit 1 = property violated on this input, exit 0 = holds.\n"
                f"# property {self.pid}: {rec['what']}\n"
                "import sys, json\n"
                f"sys.path.insert(0, {VERIF!r})\n"
                "from symx.replay import main\n"
                f"PAYLOAD = json.loads({json.dumps(json.dumps(rec['payload']))})\n"
                f"main({self.pid!r}, PAYLOAD)\n")
        with open(path, 'w') as f:
            f.write(body)
        env = dict(os.environ)
        env['SETIGEN_REPO'] = REPO
        try:
            pr = subprocess.run([PY, path], capture_output=True, text=True, timeout=300, env=env)
            return path, pr.returncode, (pr.stdout + pr.stderr)[-1500:]
        except subprocess.TimeoutExpired:
            return path, 3, 'replay timeout'

    def triage(self):
        """replay every candidate counterexample; classify."""
        known = self._known()
        seen = {}
        # replay at most 3 candidates per key (they are the same failure class)
        for rec in self.cexs:
            seen.setdefault(rec['key'], []).append(rec)
        n = 0
        for key, recs in seen.items():
            reproduced = None
            tried = []
            for rec in recs[:4]:
                n += 1
                path, rc, out = self._replay(rec, n)
                tried.append((path, rc, out))
                if rc == 1:
                    reproduced = (rec, path, out)
                    break
            if reproduced:
                rec, path, out = reproduced
                if key in known:
                    self.known_hits.append((key, known[key].get('what', rec['what'])))
                else:
                    self.violations.append((key, rec['what'], path, out))
            else:
                self.unreproduced.append((key, recs[0]['what'], [(p, rc) for p, rc, _ in tried], tried[-1][2][-600:]))

    # ---- wrap up
    def finish(self, level='other'):
        self.triage()
        bad_q = [x for x in self.queries if x['verdict'] != x.get('expect', 'unsat')]
        unknown_q = [x for x in bad_q if x['verdict'] == 'unknown']
        # a query with an unexpected verdict must be explained by a cex record (sat) --
        # otherwise it is inconclusive
        cex_names = {c.get('name') for c in self.cexs}
        unexplained = [x for x in bad_q if x['verdict'] != 'unknown' and x['name'] not in cex_names]
        wall = time.time() - self.t0
        distinct = len({x['name'] for x in self.queries if x['verdict'] == x.get('expect', 'unsat') and not x.get('trivial')})
        samples = self.samples[:]
        for x in self.queries[:3]:
            samples.append({k: v for k, v in x.items() if k in ('name', 'verdict', 'ms', 'job', 'detail')})
        for c in self.cexs[:3]:
            samples.append({'counterexample': c['key'], 'what': c['what'], 'payload': c['payload']})
        ev = {
            'property_id': self.pid,
            'tier': self.tier,
            'seed': self.seed,
            'level': level,
            'coverage': {
                'evaluations': max(1, len(self.queries)),
                'distinct_nontrivial': max(distinct, 0),
                'rule': 'one evaluation = one SMT query (negated obligation or vacuity twin) over the terms produced by '
                        'symbolically executing the real functions at one configuration/path; distinct = distinct query names '
                        '(configuration x path x obligation) with the expected verdict, constant-folded queries excluded',
                'samples': samples or [{'note': 'no queries'}],
                'obligations': len([x for x in self.queries if x.get('expect', 'unsat') == 'unsat']),
                'discharged': len([x for x in self.queries if x.get('expect', 'unsat') == 'unsat' and x['verdict'] == 'unsat']),
                'vacuity_twins': len([x for x in self.queries if x.get('expect') == 'sat']),
                'vacuity_twins_sat': len([x for x in self.queries if x.get('expect') == 'sat' and x['verdict'] == 'sat']),
                'checker_cmd': ' '.join(sys.argv),
                'trusted_base': ['z3 %s' % _z3v(), 'symx value domain and NumPy proxy (validated per run against NumPy)',
                                 'NumPy structural operations on object arrays'] + self.stubs,
                'explanation': self.explanation or 'bounded symbolic execution of the real code; SMT solver decides each obligation for all values within the stated bounds',
                'functions_encoded': self.functions,
                'source_hashes': file_hashes(self.files),
                'bounds': self.bounds,
                'jobs': self.njobs_run,
                'solver': self.stats,
                'counterexamples_found': len(self.cexs),
                'counterexamples_reproduced_known': [k for k, _ in self.known_hits],
                'counterexamples_unreproduced': [k for k, *_ in self.unreproduced],
                'inconclusive': [f"{j}: {w}" for j, w in self.inconclusive][:20],
                'notes': [n_['name'] for n_ in self.notes][:20],
                'exhaustive': False,
            },
            'assumptions': self.assumptions,
            'wall_s': round(wall, 2),
            'violations': len(self.violations),
        }
        os.makedirs(os.path.join(VERIF, 'evidence'), exist_ok=True)
        with open(os.path.join(VERIF, 'evidence', f'{self.pid}.json'), 'w') as f:
            json.dump(ev, f, indent=1, default=str)
        # ---- report
        print(f"[{self.pid}] tier={self.tier} jobs={self.njobs_run} queries={len(self.queries)} "
              f"unsat={sum(1 for x in self.queries if x['verdict']=='unsat')} sat={sum(1 for x in self.queries if x['verdict']=='sat')} "
              f"unknown={len(unknown_q)} cex={len(self.cexs)} wall={wall:.1f}s solver={self.stats.get('solver_s', 0)}s")
        if os.environ.get('VERIF_VERBOSE'):
            for w, j in sorted(getattr(self, 'job_walls', []), reverse=True)[:8]:
                print(f"  slow job {w:7.1f}s {j}")
        for key, what in self.known_hits:
            print(f"KNOWN-FINDING: property={self.pid} {key}: {what}")
        code = 0
        if self.violations:
            for key, what, path, out in self.violations:
                print(f"VIOLATION property={self.pid} replay={path}")
                print(f"  {key}: {what}")
                for line in out.strip().splitlines()[-6:]:
                    print(f"    | {line}")
            code = 1
        elif self.errors:
            for j, e, tb in self.errors[:5]:
                print(f"HARNESS-ERROR in {j}: {e}\n{tb or ''}", file=sys.stderr)
            code = 2
        elif self.inconclusive or unknown_q or self.unreproduced or unexplained:
            for j, w in self.inconclusive[:10]:
                print(f"INCONCLUSIVE {j}: {w}", file=sys.stderr)
            for x in unknown_q[:10]:
                print(f"INCONCLUSIVE query {x['name']} ({x['job']}): unknown", file=sys.stderr)
            for x in unexplained[:10]:
                print(f"INCONCLUSIVE query {x['name']} ({x['job']}): verdict {x['verdict']} (expected {x.get('expect','unsat')}) without counterexample record", file=sys.stderr)
            for key, what, tried, out in self.unreproduced[:10]:
                print(f"INCONCLUSIVE counterexample did not reproduce on the real code: {key}: {what} {tried}\n{out}", file=sys.stderr)
            code = 3
        for n_ in self.notes[:10]:
            print(f"NOTE {n_['name']}")
        if code == 0:
            print(f"[{self.pid}] HELD within bounds")
        sys.stdout.flush()
        sys.exit(code)


def _z3v():
    try:
        import z3
        return z3.get_version_string()
    except Exception:
        return '?'
