"""symx.replay -- entry point of generated replay scripts: runs the property's
concrete oracle on the real, unshadowed code in a fresh interpreter."""
import importlib
import os
import sys


def main(pid, payload):
    here = os.path.dirname(os.path.dirname(os.path.abspath(__file__)))
    if here not in sys.path:
        sys.path.insert(0, here)
    from symx.report import use_repo
    use_repo()
    mod = importlib.import_module(f'props.{pid}')
    fn = mod.REPLAYS[payload['fn']]
    try:
        violated, msg = fn(payload)
    except Exception:
        # an exception escaping the oracle is a defect of the oracle (or an outcome it does not anticipate), not a
        # reproduction: reserved exit code, the parent reports the candidate as inconclusive
        import traceback
        traceback.print_exc()
        print('REPLAY-ERROR: the concrete oracle raised; not counted as a reproduction')
        sys.exit(4)
    print(msg)
    print('REPRODUCED: property violated on the real code' if violated else 'not reproduced: property holds on this input')
    sys.exit(1 if violated else 0)
