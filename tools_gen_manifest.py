#!/usr/bin/env python3
"""regenerates MANIFEST.json from the table below (keeps it valid at all times)"""
import json, os
HERE = os.path.dirname(os.path.abspath(__file__))
props = {json.loads(l)['id']: json.loads(l) for l in open(os.path.join(HERE, 'properties.jsonl'))}

CLAIMED = {
 'C01': dict(engine='symexec', technique='bounded symbolic execution of the real Frame.add_signal and profile factories over z3 terms (uninterpreted callbacks, symbolic geometry/content); SMT decides impl != spec per pixel',
             text='For every configuration in the stated shape/option set, z3 shows that no geometry, prior content, callback, array or bounding range makes a returned pixel differ from the t*f*bandpass specification (unsat), with case-split completeness and vacuity twins; outside the shapes nothing is claimed.',
             note='exact real arithmetic (binary64 rounding outside); shapes <= 4x6; sub-sample counts <= 3; transcendental functions uninterpreted; sigma_clip stubbed', ref='DESIGN.md section 4 C01'),
 'C06': dict(engine='symexec', technique='bounded symbolic execution of the real Frame.add_signal over z3 terms; SMT decides additivity, confinement to the requested index range, bounded==unbounded on the range, state preservation and order-independence of two injections',
             text='For every configuration in the stated set, z3 shows (unsat) that no prior content, signal, geometry-compatible bounding range (endpoints are free reals, forked over all clipped index pairs with a completeness query) violates data_after = data_before + returned, zero/untouched outside the range, equality with the unbounded signal inside it, unchanged axes/noise estimates/metadata/generator, and commutation of two injections.',
             note='exact reals; bounded configurations on concrete dyadic geometries; shapes <= 4x6; float32 prior data and -0.0 outside', ref='DESIGN.md section 4 C06'),
 'C13': dict(engine='symexec', technique='bounded symbolic execution of the real add_constant_signal and add_signal in one run with f_start, drift_rate, level, width as free reals; forks on box indices / sub-step count with completeness query; SMT decides helper == general per pixel',
             text='For every shape/geometry/profile/smearing combination in the stated set and EVERY real (f_start, drift, level, width) in the stated ranges, z3 shows the helper equals general injection of the linear path (with max(1, ceil(|drift|/unit)) smearing sub-steps) on the support of compact profiles and inside the FWHM track of tailed ones, and is general-or-zero elsewhere.',
             note='concrete dyadic geometries; shapes <= 4x10; exp/sinc/wofz uninterpreted; exact reals', ref='DESIGN.md section 4 C13'),
 'C05': dict(engine='symexec', technique='bounded symbolic execution of the real Frame constructors and index/frequency converters over z3 terms: exact reals for the grid structure, rounded-real (delta) model of binary64 for rounding claims; SMT decides each obligation',
             text='For shapes up to 8x8 and every construction route, z3 shows (unsat) that no real df>0, dt>0, fch1 makes fs/ts/ts_ext/fmin/fmax/fmid/t_stop/obs_length/unit and two-index drift rates deviate from the uniform grid; index->frequency->index is the identity for every integer (decomposed into three lemmas) and, in the delta model of binary64, for fch1/df <= 1e12 and j <= 2^24; nearest-channel and in-band claims for every real frequency on dyadic geometries; opposite orientation flags give identical axes and injected data.',
             note='linspace/arange by their documented formulas; delta model |d|<=2^-53 per operation within stated ranges; sat answers of the delta model are candidates concretised by the replayer', ref='DESIGN.md section 4 C05'),
 'C08': dict(engine='symexec', technique='bounded symbolic execution of the real PolyphaseFilterbank.channelize / pfb_frontend / cache on symbolic sample streams with a symbolic window (exact DFT for lengths 2,4,8); SMT decides output == FIR+DFT definition, linearity, every chunk composition == one shot, cache isolation',
             text='For num_branches in {2,4,8}, num_taps <= 4 and every composition of up to 5 (thorough 6) windows into chunks, z3 shows (unsat) that for all sample values and all window coefficients the real code returns exactly the definition, the right number of spectra, the right tail cache, is linear, treats complex input as re + i*im, and that uncached calls / other objects / resets neither use nor disturb the cache.',
             note='numpy.fft stubbed as the exact DFT; FFT round-off outside; P > 8 outside', ref='DESIGN.md section 4 C08'),
 'C09': dict(engine='symexec', technique='bounded symbolic execution of the real quantisers over z3 terms (round-half-even via ToInt, clip via If); value/range/monotonicity by SMT lemmas; refresh schedule as an inductive step from an arbitrary counter state with symbolic integer period plus unrolled call sequences',
             text='For bit widths 2..8 and inputs of up to 4 symbolic samples, z3 shows the output is clip(round((target_std/data_std)(x-data_mean)+target_mean)) with the statistics estimated once from the leading samples (or the custom deviation), within range, monotone (three lemmas), constant input maps to the target mean, complex = two independent real quantisers; for EVERY integer period the counter step refreshes exactly on calls 0,p,2p.. (p>0) or only on the first call (p<=0).',
             note='exact reals (ties within 1e-6 skipped in replays); estimate_stats abstracted to fresh symbols inside value queries and verified separately; n<=4', ref='DESIGN.md section 4 C09'),
 'C10': dict(engine='symexec', technique='bounded symbolic execution of the real DataStream/Antenna methods with symbolic clock, rate, signal and noise parameters; generator draws as Z(seed,k) terms, cos and custom sources uninterpreted; SMT decides every sample == closed form for every request composition and clock-operation sequence',
             text='For every composition of up to 4 (thorough 6) samples into requests and every sequence of up to 2 clock operations (set/add/reset/update_noise with equal or different size) between requests, z3 shows that for all parameter values each sample equals v_mean + v_std*Z(k) + level*cos(+-2pi((f-fch1)t + d t^2/2)+phase) + custom(t) at t = t_start + k/sample_rate, equals the single-request value, and that the clock lands exactly on the requested instant; antenna = polarisations stacked x,y on one timeline with its own clock equal to its streams.',
             note='exact-real clock; seeded generator abstracted as a fixed draw sequence; request sizes <= 6', ref='DESIGN.md section 4 C10'),
 'C15': dict(engine='symexec', technique='bounded symbolic execution of the real MultiAntennaArray with symbolic integer delays (forked over values and induced slice bounds, completeness query), samples as Z(seed,k)+chirp(t) terms; SMT decides alignment per sample',
             text='For 1..3 antennas, 1..2 polarisations, EVERY delay vector in 0..dmax (dmax <= 3) and the omitted default, every composition of 7 (thorough 8) samples into admissible requests, with and without set_time between requests, z3 shows antenna i sample k = own sample k + background sample k + max_delay - delay_i (per polarisation, at the right time), and that resetting the time restarts the alignment.',
             note='exact-real clock; Generator abstracted as fixed draw sequence', ref='DESIGN.md section 4 C15'),
 'C02': dict(engine='symexec', technique='bounded symbolic execution of the real record()/collect_data_block()/channelize() chain on a symbolic voltage stream (quantisers as per-(antenna,pol) uninterpreted functions, exact DFT, in-memory files); SMT decides every recorded byte == reference pipeline term; partitions compared term-for-term',
             text='For every configuration in the stated set (num_branches, taps, windows per block, every num_subblocks from 1 to windows+1 incl. non-divisors, 1-2 pols, 1-2 antennas, 8/4 bit, channel selections, 1-3 blocks, 1-3 blocks per file, digitiser on/off) z3 shows that for ALL stream contents and window coefficients each recorded byte is the requantised PFB output of the digitised stream at the right channel/time/pol/re-im (or nibble) position, in the right file, with the antenna asked for exactly the warm-up window plus T*P samples per block.',
             note='quantisers abstracted as fixed element-wise functions (property premise); exact DFT stub; sizes above the set outside', ref='DESIGN.md section 4 C02'),
 'C04': dict(engine='symexec+slices', technique='symbolic header length: the real get_header_size and AST slices of the padding/header-size/file-split expressions evaluated with the card count / block count as symbolic integers, decided by SMT; real record() into in-memory files parsed by an independent byte-level GUPPI parser and by the real readers under every listing permutation',
             text='For EVERY header length (symbolic card count <= 10^4) and every DIRECTIO spelling, z3 shows the writer pads to the next multiple of 512 iff DIRECTIO != 0 with no padding when aligned, and that every reader (get_header_size users, from_data, blimpy rule) skips exactly what the writer emits; file i holds blocks [i*bpf, min((i+1)bpf, n)) for symbolic n; configuration-owned cards cannot be overridden by arbitrary user values; recordings with 0..33 user cards x DIRECTIO absent/0/1 parse exactly into the requested blocks, PKTIDX advances by samples-per-block, and block counts are independent of listing order.',
             note='card text formatting exercised on concrete values only (symbolic int formatting not confirmed by CrossHair within budget)', ref='DESIGN.md section 4 C04'),
 'C16': dict(engine='symexec', technique='bounded symbolic execution of the real Cadence.add_signal/overwrite_times/slew_times/consolidate with symbolic start times and geometry, uninterpreted signal components; fault position enumerated (callback raising on frame k); bit-exact restoration decided in the delta model of binary64',
             text='For cadences of 1..3 (thorough 4) frames, whole or sub-selected by slice / index list, and the option sets plain / integrate path+time / integrate f + smearing / integrate path + smearing, z3 shows for all start times, contents and callbacks that each member receives exactly the single-frame signal at its own times shifted by its start relative to the (sub)cadence first frame, non-members are untouched, every time axis is the original afterwards -- also when path, t_profile or f_profile raises on frame k for every k -- and bit-for-bit in binary64; overwrite_times gives slew_times == t_slew; consolidation concatenates data with absolute times.',
             note='exact reals for signal values; delta model for ts restoration; frames <= 4', ref='DESIGN.md section 4 C16'),
 'C17': dict(engine='symexec', technique='bounded symbolic execution of the real get_slice / dedrift / integrate / spectrum / timeseries / from_data on symbolic data, symbolic integer slice bounds and a symbolic real drift rate (forked over rounded row offsets, completeness query); SMT decides data/axis registration and inherited attributes',
             text='For shapes up to 3x5 (thorough 4x8), both orientations: for EVERY 0 <= l < r <= fchans the slice holds exactly columns l..r-1 of data and frequency axis; for EVERY real drift rate up to one channel beyond the limit (either sign, explicit or from metadata) row i is the parent row shifted by round(|d| i dt/df) towards the drift start, row 0 keeps its frequencies, width is fchans - max offset, rates leaving no channels raise ValueError and no others do, a linear path deviates by at most half a channel; integration equals per-column/row mean or sum and the wrappers carry the parent axis; all derived frames inherit orientation, resolutions, start time, source name, and are copies.',
             note='de-drift on dyadic geometries; normalize=True outside; exact reals', ref='DESIGN.md section 4 C17'),
 'C20': dict(engine='symexec+slices', technique='bounded symbolic execution of the real constructor / get_num_blocks / helpers with symbolic integer sizes and real rates/durations; AST slice of record()\'s length section executed with symbolic requested and available block counts; delta model of binary64 for duration->blocks and total-sample rounding; SMT decides each identity',
             text='For every windows-per-block count k >= 1 and sample rate > 0 (6 size configurations): samples_per_block*(ants*chans*bytes) = block_size, time_per_block = spb*P/rate; for every duration up to 1e6 s the block count is the whole number of blocks not exceeding it (exact, and in binary64 within the stated 1e-9 boundary tolerance); for every requested and available block count <= 1e6 the recorded count is their minimum and obs_length / total_obs_num_samples equal n*time_per_block / n*spb*P (bit-exact in the delta model); executed recordings of 1..3 blocks draw exactly n*spb*P + taps*P samples, advance the clock accordingly and write SCANLEN / PKTSTART / PKTSTOP consistently; the stand-alone helpers agree with the backend on symbolic inputs.',
             note='durations on a concrete dyadic rate; quantisers abstracted as in C02', ref='DESIGN.md section 4 C20'),
 'C14': dict(engine='symexec', technique='bounded symbolic execution of the real from_data (readers on in-memory input), _read_next_block, collect_data_block input branch and record with every input data byte a symbolic integer; requantiser as an uninterpreted function of (value, custom deviation, target statistics) with logged calls; SMT decides decode, output composition and gain stationarity',
             text='For input recordings of 2-3 blocks (8/4 bit, 1-2 pols, 1-2 antennas, DIRECTIO absent/0/1, several files with a partial last one, unfriendly listing order) and ALL byte values, z3 shows each decoded complex sample is exactly the stored re/im (or nibble pair), the output keeps block size / bit depth / channel, pol and antenna counts and min(requested, input) blocks, every output value is requantise(input + requantise0(synthetic PFB output; sigma*target_std, mean 0)) at the same position, the final target statistics are the block mean / deviation, and the custom deviation is the same term at every sub-block and block (num_subblocks 1..4 incl. partial).',
             note='requantiser/digitiser abstracted (C09 covers internals); channelized unit-noise deviations symbolic', ref='DESIGN.md section 4 C14'),
}
NA = {}

checks = []
for pid in sorted(CLAIMED):
    c = CLAIMED[pid]
    checks.append({
        'property_id': pid,
        'quick_cmd': f'./check {pid} --tier quick',
        'thorough_cmd': f'./check {pid} --tier thorough',
        'evidence_file': f'/verif/evidence/{pid}.json',
        'replay_cmd_template': '/verif/.venv/bin/python {path}',
        'engine': c['engine'],
        'level_claimed': {'category': 'other', 'text': c['text'], 'design_ref': c['ref']},
        'level_note': c['note'],
        'technique': c['technique'],
    })
na = []
for pid in sorted(props):
    if pid not in CLAIMED:
        na.append({'property_id': pid, 'reason': NA.get(pid, 'check not built yet (work in progress); planned per DESIGN.md section 4')})
m = {
 'version': 1,
 'setup_cmd': './setup.sh',
 'hooks': {'guard': 'SETIGEN_VERIF', 'enable': 'no source hooks: all instrumentation is done from the harness side by rebinding module attributes at run time (SETIGEN_VERIF=1 is exported by ./check but read by nothing in /repo)',
           'baseline_off_cmd': 'cd /repo && /venv/bin/python -m pytest -ra -q -p no:cacheprovider --timeout=900 --continue-on-collection-errors',
           'source_commits': [], 'add_only': True},
 'engines': [
   {'name': 'symexec', 'path': 'symx/', 'serves_properties': sorted(CLAIMED), 'kind_free_text': 'shadow execution of the real Python functions over z3 terms (Sym/SymArr/NumPy proxy, forking on symbolic branches), z3 as the deciding step, counterexamples replayed on the unshadowed code'},
 ],
 'checks': checks,
 'not_applicable': na,
 'notes': 'Exit codes of every check: 0 held within bounds, 1 violation (VIOLATION line, replay script), 2 harness error, 3 inconclusive (unknown/timeout/unreproduced candidate). known_findings.json lists recorded defects and fixed: entries.',
}
json.dump(m, open(os.path.join(HERE, 'MANIFEST.json'), 'w'), indent=1)
print('claimed', sorted(CLAIMED), 'na', len(na))
