#!/bin/bash
# usage: tools_run_seeded_wt.sh <seed-name> <PROP> [<PROP>...]  : like tools_run_seeded.sh but in a scratch worktree
# (SETIGEN_REPO), leaving /repo untouched -- for use while a long run on /repo itself is in progress.
N=$1; shift
cd /verif
WT=/tmp/wt_seedrun_$N
git -C /repo worktree remove --force $WT 2>/dev/null
git -C /repo worktree add -q --detach $WT HEAD || exit 2
git -C $WT apply /verif/seeded/$N/patch.diff || { echo "patch does not apply"; git -C /repo worktree remove --force $WT; exit 2; }
for P in "$@"; do
  cp evidence/$P.json /var/tmp/evidence_keep_$P.json 2>/dev/null
  SETIGEN_REPO=$WT ./check $P --tier ${TIER:-quick} > /tmp/seedrun_${N}_$P.log 2>&1; rc=$?
  [ -f /var/tmp/evidence_keep_$P.json ] && mv /var/tmp/evidence_keep_$P.json evidence/$P.json
  echo "seed=$N check=$P tier=${TIER:-quick} exit=$rc $(grep -c '^VIOLATION' /tmp/seedrun_${N}_$P.log) violation lines (scratch worktree)" | tee -a seeded/$N/detect.log
done
git -C /repo worktree remove --force $WT
