#!/bin/bash
# usage: tools_run_seeded_iso.sh <seed-name> <PROP> [<PROP>...]  : like tools_run_seeded_wt.sh, but the checks run from a
# scratch COPY of /verif (own replays/ and evidence/), so that they cannot collide with other runs of the same check.
N=$1; shift
V=/var/tmp/vcopy_$N
rm -rf $V; mkdir -p $V
rsync -a --exclude .git --exclude .venv --exclude replays --exclude 'thorough_*.log' /verif/ $V/
ln -s /verif/.venv $V/.venv
WT=/tmp/wt_seediso_$N
git -C /repo worktree remove --force $WT 2>/dev/null
git -C /repo worktree add -q --detach $WT HEAD || exit 2
git -C $WT apply /verif/seeded/$N/patch.diff || { echo "patch does not apply"; git -C /repo worktree remove --force $WT; rm -rf $V; exit 2; }
for P in "$@"; do
  (cd $V && SETIGEN_REPO=$WT ./check $P --tier ${TIER:-quick} > /tmp/seedrun_${N}_$P.log 2>&1); rc=$?
  echo "seed=$N check=$P tier=${TIER:-quick} exit=$rc $(grep -c '^VIOLATION' /tmp/seedrun_${N}_$P.log) violation lines (scratch worktree, scratch copy of /verif)" | tee -a /verif/seeded/$N/detect.log
done
git -C /repo worktree remove --force $WT
rm -rf $V
