#!/bin/bash
# usage: tools_run_seeded.sh <seed-name> <PROP> [<PROP>...]  : apply seeded patch to /repo, run quick checks, undo
N=$1; shift
cd /verif
git -C /repo diff --quiet || { echo "/repo dirty"; exit 2; }
git -C /repo apply /verif/seeded/$N/patch.diff || { echo "patch does not apply"; exit 2; }
for P in "$@"; do
  ./check $P --tier ${TIER:-quick} > /tmp/seedrun_${N}_$P.log 2>&1; rc=$?
  echo "seed=$N check=$P tier=${TIER:-quick} exit=$rc $(grep -c '^VIOLATION' /tmp/seedrun_${N}_$P.log) violation lines" | tee -a seeded/$N/detect.log
done
git -C /repo checkout -- .
