#!/bin/bash
# usage: tools_run_seeded.sh <seed-name> <PROP> [<PROP>...]  : apply seeded patch to /repo, run quick checks, undo
N=$1; shift
cd /verif
git -C /repo diff --quiet || { echo "/repo dirty"; exit 2; }
git -C /repo apply /verif/seeded/$N/patch.diff || { echo "patch does not apply"; exit 2; }
for P in "$@"; do
  cp evidence/$P.json /var/tmp/evidence_keep_$P.json 2>/dev/null   # evidence must describe runs on /repo itself, not on a mutant
  ./check $P --tier ${TIER:-quick} > /tmp/seedrun_${N}_$P.log 2>&1; rc=$?
  [ -f /var/tmp/evidence_keep_$P.json ] && mv /var/tmp/evidence_keep_$P.json evidence/$P.json
  echo "seed=$N check=$P tier=${TIER:-quick} exit=$rc $(grep -c '^VIOLATION' /tmp/seedrun_${N}_$P.log) violation lines" | tee -a seeded/$N/detect.log
done
git -C /repo checkout -- .
