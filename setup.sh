#!/bin/bash
# Build the overlay venv used by all checks (offline).
# /verif/.venv = venv of /venv's interpreter + .pth pointing at /venv's site-packages
# + z3-solver, crosshair-tool, cvc5 from the offline wheelhouse.
set -e
HERE="$(cd "$(dirname "$0")" && pwd)"
V="$HERE/.venv"
cd "$HERE"
if [ -x $V/bin/python ] && $V/bin/python -c "import z3, crosshair, numpy" 2>/dev/null; then
  exit 0
fi
rm -rf $V
/venv/bin/python -m venv $V
SP=$($V/bin/python -c "import sysconfig; print(sysconfig.get_paths()['purelib'])")
printf "import site; site.addsitedir('/venv/lib/python3.12/site-packages')\n" > $SP/overlay.pth
PIP_NO_INDEX=1 $V/bin/pip install -q --no-index --find-links /opt/veriftools/wheels z3-solver crosshair-tool cvc5 jsonschema >/dev/null
$V/bin/python -c "import z3, crosshair, numpy; print('venv ok', z3.get_version_string())"
