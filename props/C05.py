"""C05 -- frame axes and frequency/index conversion are exact and orientation-independent.

E1 on the real Frame.__init__/_update_fs/_update_ts/get_index/get_frequency/... with
symbolic geometry (exact reals) and, for what is a statement about rounding, the
rounded-real (delta) model of binary64 (symx.fp).
"""
import time

import numpy as np
import z3

from symx import core, npx, fp
from symx.core import Sym, lift, RV
from symx.fp import FSym
from symx.report import Check, q, cex, note
from props import inject
from props.frame_common import F, frame_patches, geom_syms, make_frame, sym_data

ROUTES = ('sizes', 'shape', 'data', 'from_data', 'backend')


def build(route, T, Fc, asc, df, dt, fch1):
    if route == 'ctor_flagforms':
        # the orientation flag as NumPy hands it over (np.bool_ from a comparison such as header foff > 0), or as 0 / 1
        return F.Frame(fchans=Fc, tchans=T, df=df, dt=dt, fch1=fch1, ascending=(np.bool_(asc) if T % 2 else int(asc)))
    if route == 'sizes':
        return F.Frame(fchans=Fc, tchans=T, df=df, dt=dt, fch1=fch1, ascending=asc)
    if route == 'shape':
        return F.Frame(shape=(T, Fc), df=df, dt=dt, fch1=fch1, ascending=asc)
    if route == 'data':
        return F.Frame(data=np.zeros((T, Fc)), df=df, dt=dt, fch1=fch1, ascending=asc)
    if route == 'from_data':
        return F.Frame.from_data(df, dt, fch1, asc, np.zeros((T, Fc)))
    raise KeyError(route)


def axis_obligations(fr, T, Fc, asc, df, dt, fch1):
    """list of (label, z3 disequality-or-negated-claim) for the statement's grid claims"""
    ob = []
    dfv, dtv, f1 = lift(df), lift(dt), lift(fch1)
    fmin = f1 if asc else f1 - (Fc - 1) * dfv
    fmax = fmin + (Fc - 1) * dfv
    if len(fr.fs) != Fc or len(fr.ts) != T or tuple(fr.shape) != (T, Fc) or fr.data.shape != (T, Fc):
        ob.append(('lengths', z3.BoolVal(True)))
        return ob
    for j in range(Fc):
        ob.append((f'fs[{j}]', lift(fr.fs[j]) != fmin + j * dfv))
    for j in range(Fc - 1):
        ob.append((f'fs increasing {j}', z3.Not(lift(fr.fs[j]) < lift(fr.fs[j + 1]))))
    for i in range(T):
        ob.append((f'ts[{i}]', lift(fr.ts[i]) != i * dtv))
    ob.append(('fmin', lift(fr.fmin) != fmin))
    ob.append(('fmax', lift(fr.fmax) != fmax))
    ob.append(('fch1', lift(fr.fch1) != (fmin if asc else fmax)))
    ob.append(('fmid', lift(fr.fmid) != (fmin + fmax) / 2))
    ob.append(('obs_length', lift(fr.obs_length) != T * dtv))
    ob.append(('t_stop', lift(fr.t_stop) != lift(fr.t_start) + T * dtv))
    ob.append(('unit_drift_rate', lift(fr.unit_drift_rate) != dfv / dtv))
    ext = fr.ts_ext
    if len(ext) != T + 1:
        ob.append(('ts_ext length', z3.BoolVal(True)))
    else:
        for i in range(T + 1):
            ob.append((f'ts_ext[{i}]', lift(ext[i]) != i * dtv))
    # the extended axis follows the frame's own time axis wherever that starts (cadences shift it)
    tau = z3.Real('t_origin')
    ts_saved = fr.ts
    fr.ts = fr.ts + Sym(tau)
    ext2 = fr.ts_ext
    fr.ts = ts_saved
    if len(ext2) != T + 1:
        ob.append(('ts_ext length (shifted)', z3.BoolVal(True)))
    else:
        for i in range(T + 1):
            ob.append((f'ts_ext[{i}] (shifted origin)', lift(ext2[i]) != tau + i * dtv))
    # the derived end time follows the frame's current start time (cadences and users reassign it)
    ts_new = z3.Real('t_start_new')
    t_saved = fr.t_start
    fr.t_start = Sym(ts_new)
    ob.append(('t_stop (start time reassigned)', lift(fr.t_stop) != ts_new + T * dtv))
    ob.append(('obs_length (start time reassigned)', lift(fr.obs_length) != T * dtv))
    fr.t_start = t_saved
    a, b = z3.Real('ia'), z3.Real('ib')
    ob.append(('get_drift_rate', lift(fr.get_drift_rate(Sym(a), Sym(b))) != (b - a) * dfv / (T * dtv)))
    ob.append(('df', lift(fr.df) != dfv))
    ob.append(('dt', lift(fr.dt) != dtv))
    return ob


def job_axes(T, Fc, asc, route):
    recs = []
    df, dt, fch1, pre = geom_syms()
    tag = f"C05:axes:{(T, Fc, asc, route)}"
    with frame_patches():
        leaves = core.explore(lambda: build(route, T, Fc, asc, df, dt, fch1), pre, cap=20)
    for li, leaf in enumerate(leaves):
        if leaf.kind == 'exc':
            recs.append(q(f"{tag}:leaf{li}", 'sat', detail=f"raised {leaf.value!r}"))
            recs.append(cex(f"C05:construct:{route}", f"construction raised {leaf.value!r}", dict(fn='axes', T=T, Fc=Fc, asc=asc, route=route, df=2.0, dt=4.0, fch1=4096.0), name=f"{tag}:leaf{li}"))
            continue
        fr = leaf.value
        with frame_patches():
            ob = axis_obligations(fr, T, Fc, asc, df, dt, fch1)
        base = pre + leaf.pc + leaf.side
        t0 = time.time()
        r, m = core.check(base + [z3.Or(*[c for _, c in ob])], timeout_ms=60000)
        recs.append(q(f"{tag}:leaf{li}", r, ms=(time.time() - t0) * 1000, obligations=len(ob)))
        if r == 'sat':
            failing = [l for l, c in ob if z3.is_true(m.eval(c, model_completion=True))]
            mm = inject.nice_model(base + [z3.Or(*[c for _, c in ob])], dict(df=df, dt=dt, fch1=fch1)) or m
            recs.append(cex(f"C05:axes:{failing[0].split('[')[0] if failing else 'grid'}", f"axis claim(s) fail: {failing[:4]}",
                            dict(fn='axes', T=T, Fc=Fc, asc=asc, route=route, df=core.model_float(mm, df), dt=core.model_float(mm, dt), fch1=core.model_float(mm, fch1)),
                            name=f"{tag}:leaf{li}"))
    r, _ = core.check(pre + [z3.Not(z3.Or(*[l.cond() for l in leaves]))], timeout_ms=30000)
    recs.append(q(f"{tag}:split-complete", r))
    if leaves and leaves[0].kind == 'ok':
        r, _ = core.check(pre + leaves[0].pc + [lift(leaves[0].value.fs[0]) != lift(fch1) + 1], timeout_ms=30000)
        recs.append(q(f"{tag}:twin", r, expect='sat'))
    return recs


BACKENDS = ((1024.0, 8, 16, 2), (1024.0, 9, 4, 3))      # chan_bw=128, df=8, dt=0.25 / an odd branch count: df=28.4.., dt=0.105..


def job_backend(asc, cfg=0):
    """from_backend_params / params_from_backend: concrete backend, symbolic obs_length"""
    recs = []
    sr, nb, fft, intf = BACKENDS[cfg]
    L = Sym(z3.Real('obs_length'))
    pre = [L.t >= RV(0.25), L.t < RV(1.2)]
    tag = f"C05:backend:{asc}" + (f":cfg{cfg}" if cfg else '')

    def run():
        return F.Frame.from_backend_params(fchans=3, obs_length=L, sample_rate=sr, num_branches=nb, fftlength=fft,
                                           int_factor=intf, fch1=4096.0, ascending=asc)
    with frame_patches():
        leaves = core.explore(run, pre, cap=40)
    for li, leaf in enumerate(leaves):
        if leaf.kind == 'exc':
            recs.append(q(f"{tag}:leaf{li}", 'sat', detail=repr(leaf.value)))
            recs.append(cex('C05:backend:raise', f'from_backend_params raised {leaf.value!r}', dict(fn='backend', asc=asc, obs_length=0.77, cfg=cfg), name=f"{tag}:leaf{li}"))
            continue
        fr = leaf.value
        dfv, dtv = sr / nb / fft, intf / (sr / nb / fft)
        T = fr.tchans
        Tt = lift(T)
        claims = [lift(fr.df) != RV(dfv), lift(fr.dt) != RV(dtv), z3.Not(z3.And(Tt * RV(dtv) <= L.t, L.t < (Tt + 1) * RV(dtv))),
                  RV(len(fr.ts)) != Tt]
        claims += [lift(fr.ts[i]) != i * RV(dtv) for i in range(len(fr.ts))]
        # orientation and frequency grid: the flag handed in is the frame's, fch1 is the bottom (ascending) / top channel
        fmin_w = RV(4096.0) if asc else RV(4096.0) - 2 * RV(dfv)
        claims += [RV(int(bool(fr.ascending) == bool(asc))) != 1, RV(len(fr.fs)) != 3]
        # (concrete non-dyadic df: the code's binary64 grid and the exact one differ by rounding; compared to 1e-9 Hz)
        for j in range(min(3, len(fr.fs))):
            e = lift(fr.fs[j]) - (fmin_w + j * RV(dfv))
            claims += [e > RV(1e-9), e < -RV(1e-9)]
        r, m = core.check(pre + leaf.pc + [z3.Or(*claims)], timeout_ms=30000)
        recs.append(q(f"{tag}:leaf{li}", r, tchans=str(T)))
        if r == 'sat':
            recs.append(cex('C05:backend', 'from_backend_params geometry differs from sample_rate/num_branches/fftlength/int_factor',
                            dict(fn='backend', asc=asc, obs_length=core.model_float(m, L), cfg=cfg), name=f"{tag}:leaf{li}"))
    r, _ = core.check(pre + [z3.Not(z3.Or(*[l.cond() for l in leaves]))], timeout_ms=30000)
    recs.append(q(f"{tag}:split-complete", r, leaves=len(leaves)))
    # the parameter mapping handed to a caller is the caller's: editing it does not reach later frames
    bad = backend_params_history(F)
    r, _ = core.check([RV(int(not bad)) != 1])
    recs.append(q(f"{tag}:params-not-shared", r, trivial=True, detail=bad or ''))
    if bad:
        recs.append(cex('C05:backend:shared-params', bad, dict(fn='backend', asc=asc, obs_length=0.77), name=f"{tag}:params-not-shared"))
    return recs


def backend_params_history(Fm):
    kw = dict(obs_length=1.3, sample_rate=1024.0, num_branches=8, fftlength=16, int_factor=2)
    p1 = Fm.params_from_backend(**kw)
    want = dict(p1)
    p1['tchans'] = 1
    p1['df'] = 123.0
    p2 = Fm.params_from_backend(**kw)
    if dict(p2) != want:
        return f"params_from_backend returns {dict(p2)} after a caller edited the mapping it got from an earlier identical call (expected {want})"
    fr = Fm.Frame.from_backend_params(fchans=3, fch1=4096.0, ascending=True, **kw)
    if fr.tchans != want['tchans'] or fr.df != want['df']:
        return f"from_backend_params builds tchans={fr.tchans}, df={fr.df} after a caller edited an earlier parameter mapping (expected {want['tchans']}, {want['df']})"
    return None


def job_units():
    """unit-carrying arguments: astropy conversion runs concretely, result compared with the plain-number frame"""
    import astropy.units as u
    recs = []
    cases = [dict(df=2.0 * u.Hz, dt=4.0 * u.s, fch1=4096.0 * u.Hz), dict(df=0.002 * u.kHz, dt=4000.0 * u.ms, fch1=4.096 * u.kHz),
             dict(df=-2.0 * u.Hz, dt=4.0 * u.s, fch1=0.004096 * u.MHz)]
    for k, cs in enumerate(cases):
        for asc in (False, True):
            fr = F.Frame(fchans=5, tchans=3, ascending=asc, **cs)
            ref = F.Frame(fchans=5, tchans=3, ascending=asc, df=2.0, dt=4.0, fch1=4096.0)
            ok = np.allclose(fr.fs, ref.fs, rtol=1e-12, atol=0) and np.allclose(fr.ts, ref.ts, rtol=1e-12) and abs(fr.df - 2.0) < 1e-12 and abs(fr.dt - 4.0) < 1e-12
            # decided by the solver on the lifted concrete values (trivial arithmetic, kept uniform)
            r, _ = core.check([RV(int(ok)) != 1])
            recs.append(q(f"C05:units:{k}:{asc}", r, trivial=True))
            if r == 'sat':
                recs.append(cex('C05:units', f'unit-carrying construction differs from plain numbers: case {k}', dict(fn='units', k=k, asc=asc), name=f"C05:units:{k}:{asc}"))
    return recs


def job_units_sym(asc):
    """unit-carrying arguments as symbolic quantities (kHz / ms / MHz / GHz): the frame and its conversions are those
    of the same values given as plain SI numbers"""
    from props.frame_common import SQ
    recs = []
    tag = f"C05:units-sym:{asc}"
    dk, tms, fM, xG, xk = (Sym(z3.Real(n)) for n in ('df_kHz', 'dt_ms', 'fch1_MHz', 'x_GHz', 'x_kHz'))
    pre = [dk.t > 0, tms.t > 0]
    T, Fc = 2, 3

    def run():
        fr = F.Frame(fchans=Fc, tchans=T, df=SQ(dk, 'kHz'), dt=SQ(tms, 'ms'), fch1=SQ(fM, 'MHz'), ascending=asc)
        return fr, fr.get_index(SQ(xG, 'GHz')), fr.get_index(SQ(xk, 'kHz')), fr.get_index(xG * 1e9)
    with frame_patches(units=True):
        leaves = core.explore(run, pre, cap=60)
    conds = []
    for li, leaf in enumerate(leaves):
        conds.append(leaf.cond())
        base = pre + leaf.pc + leaf.side
        name = f"{tag}:leaf{li}"
        if leaf.kind == 'exc':
            r, m = core.check(base, timeout_ms=30000)
            recs.append(q(name + ':noexc', r, detail=repr(leaf.value)))
            if r == 'sat':
                recs.append(cex('C05:units', f'unit-carrying arguments raise {leaf.value!r}', dict(fn='units'), name=name + ':noexc'))
            continue
        fr, iG, ik, iref = leaf.value
        dfv, dtv, f1 = dk.t * 1000, tms.t / 1000, fM.t * 1000000
        ob = [(n_, c) for n_, c in axis_obligations(fr, T, Fc, asc, Sym(dfv), Sym(dtv), Sym(f1))]
        fmin = f1 if asc else f1 - (Fc - 1) * dfv
        # nearest-channel index of a frequency given in GHz / kHz: |(x - fmin)/df - index| <= 1/2
        for nm, idx, hz in (('get_index(GHz)', iG, xG.t * 1000000000), ('get_index(kHz)', ik, xk.t * 1000)):
            qv = (hz - fmin) / dfv
            ob.append((nm, z3.Or(lift(idx) - qv > RV(0.5), qv - lift(idx) > RV(0.5))))
        ob.append(('get_index(GHz) = get_index(Hz)', lift(iG) != lift(iref)))
        with frame_patches(units=True):
            pass
        r, m = core.check(base + [z3.Or(*[c for _, c in ob])], timeout_ms=60000)
        recs.append(q(name, r, obligations=len(ob)))
        if r == 'sat':
            failing = [l for l, c in ob if z3.is_true(m.eval(c, model_completion=True))]
            recs.append(cex('C05:units', f"with unit-carrying arguments: {failing[:3]}", dict(fn='units'), name=name))
    r, _ = core.check(pre + [z3.Not(z3.Or(*conds))], timeout_ms=30000)
    recs.append(q(f"{tag}:split-complete", r))
    return recs


def job_index(geom, T, Fc, asc):
    """index <-> frequency with an arbitrary *integer* j and an arbitrary real f (exact reals)"""
    recs = []
    g = inject.GEOMS.get(geom)
    if g is None:
        df, dt, fch1, pre = geom_syms()
    else:
        df, dt, fch1, pre = Sym(RV(g['df'])), Sym(RV(g['dt'])), Sym(RV(g['fch1'])), []
    ji = z3.Int('j')
    j = Sym(z3.ToReal(ji), True)
    f = Sym(z3.Real('f'))
    tag = f"C05:index:{(geom, T, Fc, asc)}"
    with frame_patches():
        fr = core.run_single(lambda: make_frame(T, Fc, asc, df, dt, fch1), pre).value
        rt = fr.get_index(fr.get_frequency(j))
        k = fr.get_index(f)
        fk = fr.get_frequency(k)
        gf = fr.get_frequency(j)
    qv = unrounded_index(fr, fr.get_frequency, j)
    # identity on every channel (and on every integer), decomposed (the monolithic query mixes
    # ToInt with non-linear terms and is `unknown`):
    #   (1) the real get_index returns round-half-even of q   (2) q == j   (3) rne(j) == j for integer j
    r1, _ = core.check(pre + [lift(rt) != lift(core.rne(Sym(lift(qv))))], timeout_ms=60000)
    recs.append(q(f"{tag}:roundtrip:impl-is-rne(q)", r1))
    r, m = core.check(pre + [lift(qv) != lift(j)], timeout_ms=60000)
    recs.append(q(f"{tag}:roundtrip:q==j", r))
    r3, _ = core.check([lift(core.rne(Sym(z3.ToReal(ji)))) != z3.ToReal(ji)], timeout_ms=60000)
    recs.append(q(f"{tag}:roundtrip:rne(j)==j", r3))
    if r == 'sat' or r1 == 'sat':
        jv = int(str(m.eval(ji, model_completion=True))) if r == 'sat' else 1
        recs.append(cex('C05:index:roundtrip', 'get_index(get_frequency(j)) != j', dict(fn='index', geom=geom, T=T, Fc=Fc, asc=asc, j=jv, f=None), name=f"{tag}:roundtrip:q==j" if r == 'sat' else f"{tag}:roundtrip:impl-is-rne(q)"))
    r, m = core.check(pre + [lift(gf) != lift(fr.fmin) + lift(fr.df) * lift(j)], timeout_ms=60000)
    recs.append(q(f"{tag}:get_frequency", r))
    if g is not None:
        # nearest channel: |f_k - f| <= df/2 for every real f; inside the band k is a valid channel
        half = lift(fr.df) / 2
        dist = z3.If(lift(fk) >= f.t, lift(fk) - f.t, f.t - lift(fk))
        r, m = core.check(pre + [dist > half], timeout_ms=60000)
        recs.append(q(f"{tag}:nearest", r))
        if r == 'sat':
            recs.append(cex('C05:index:nearest', 'get_index(f) is not the nearest channel', dict(fn='index', geom=geom, T=T, Fc=Fc, asc=asc, j=None, f=core.model_float(m, f)), name=f"{tag}:nearest"))
        inband = [f.t > lift(fr.fmin) - half, f.t < lift(fr.fmax) + half]
        r, m = core.check(pre + inband + [z3.Or(lift(k) < 0, lift(k) > Fc - 1)], timeout_ms=60000)
        recs.append(q(f"{tag}:inband", r))
        if r == 'sat':
            recs.append(cex('C05:index:inband', 'in-band frequency mapped outside 0..fchans-1', dict(fn='index', geom=geom, T=T, Fc=Fc, asc=asc, j=None, f=core.model_float(m, f)), name=f"{tag}:inband"))
        # each fs[j] maps to j
        for jj in range(Fc):
            with frame_patches():
                kk = fr.get_index(fr.fs[jj])
            r, _ = core.check(pre + [lift(kk) != jj], timeout_ms=30000)
            recs.append(q(f"{tag}:fs[{jj}]->index", r))
        r, _ = core.check(pre + [dist > half + 1], timeout_ms=30000)
        recs.append(q(f"{tag}:twin", 'sat' if core.check(pre + [dist >= half])[0] == 'sat' else 'unsat', expect='sat'))
    return recs


def job_orient(T, Fc, smear):
    """two frames describing the same band with opposite orientation flags: identical axes,
    identical injected data (real add_signal on both)"""
    recs = []
    df, dt, fch1, pre = geom_syms()
    D = sym_data(T, Fc)
    P, TPf, FPf, BPf = inject.PATH, inject.TP, inject.FP, inject.BP

    def run():
        a = make_frame(T, Fc, True, df, dt, fch1)
        b = make_frame(T, Fc, False, df, dt, fch1 + (Fc - 1) * abs(df))
        out = []
        for fr in (a, b):
            fr.data = D.copy()
            s = fr.add_signal(P, TPf, FPf, BPf, doppler_smearing=smear, smearing_subsamples=2, integrate_f_profile=True, f_subsamples=2)
            out.append((fr, s))
        return out
    with frame_patches():
        leaf = core.run_single(run, pre)
    (a, sa), (b, sb) = leaf.value
    dis = [lift(x) != lift(y) for x, y in zip(a.fs, b.fs)] + [lift(x) != lift(y) for x, y in zip(a.ts, b.ts)]
    dis += [z3.simplify(lift(sa[i, j]) - lift(sb[i, j]), som=True) != 0 for i in range(T) for j in range(Fc)]
    dis += [z3.simplify(lift(a.data[i, j]) - lift(b.data[i, j]), som=True) != 0 for i in range(T) for j in range(Fc)]
    dis += [lift(a.fmin) != lift(b.fmin), lift(a.fmax) != lift(b.fmax), lift(a.fmid) != lift(b.fmid)]
    r, m = core.check(pre + leaf.side + [z3.Or(*dis)], timeout_ms=60000)
    recs.append(q(f"C05:orient:{(T, Fc, smear)}", r))
    if r == 'sat':
        recs.append(cex('C05:orient', 'ascending and descending descriptions of the same band differ', dict(fn='orient', T=T, Fc=Fc, smear=smear), name=f"C05:orient:{(T, Fc, smear)}"))
    return recs


def unrounded_index(fr, get_frequency, j):
    """the value the real get_index computes *before* rounding (real code run with an identity round)"""
    px = npx.NPProxy()

    def ident(a, *x, **k):
        return type(a)(a.t, True) if isinstance(a, Sym) else a
    px.round = ident
    with frame_patches(proxy=px):
        return fr.get_index(get_frequency(j))


# ------------------------------------------------------------------ delta model
def fp_vars(Fc):
    pre = []
    df = FSym.var('df', 1e-3, 1e9, pre)
    dt = FSym.var('dt', 1e-6, 1e6, pre)
    fch1 = FSym.var('fch1', 0, 1e12, pre)
    pre += [fch1.t <= RV(1e12) * df.t, fch1.t >= 4 * Fc * df.t]
    return df, dt, fch1, pre


def job_fp_lengths(T, Fc, asc):
    """in binary64 (delta model) the axes have exactly tchans / fchans / tchans+1 entries"""
    fp.reset()
    recs = []
    tag = f"C05:fp:lengths:{(T, Fc, asc)}"
    df, dt, fch1, pre = fp_vars(Fc)

    def run():
        fr = make_frame(T, Fc, asc, df, dt, fch1)
        return fr, fr.ts_ext
    with frame_patches():
        leaves = core.explore(run, pre, cap=200)
    for li, leaf in enumerate(leaves):
        if leaf.kind == 'exc':
            r, m = core.check(pre + leaf.pc + leaf.side, timeout_ms=30000)
            recs.append(q(f"{tag}:leaf{li}", r, detail=repr(leaf.value)))
            if r == 'sat':
                recs.append(cex('C05:fp:construct', f"frame construction raises in the binary64 model: {leaf.value!r} (candidate)", dict(fn='fp_len', T=T, Fc=Fc, asc=asc, dt=core.model_float(m, dt)), name=f"{tag}:leaf{li}"))
            continue
        fr, ext = leaf.value
        ok = len(fr.ts) == T and len(fr.fs) == Fc and len(ext) == T + 1
        r, m = core.check(pre + leaf.pc + leaf.side + [z3.BoolVal(not ok)], timeout_ms=30000)
        recs.append(q(f"{tag}:leaf{li}", r, lens=(len(fr.ts), len(fr.fs), len(ext))))
        if r == 'sat':
            recs.append(cex(f'C05:fp:length:T{T}', f"axis lengths {(len(fr.ts), len(fr.fs), len(ext))} != {(T, Fc, T + 1)} for some binary64 dt (candidate)",
                            dict(fn='fp_len', T=T, Fc=Fc, asc=asc, dt=core.model_float(m, dt)), name=f"{tag}:leaf{li}"))
    r, _ = core.check(pre + list(fp.SIDE) + [z3.Not(z3.Or(*[l.cond() for l in leaves]))], timeout_ms=30000)
    recs.append(q(f"{tag}:split-complete", r))
    return recs


def job_fp_roundtrip(asc):
    """binary64: get_index(get_frequency(j)) == j for fch1/df <= 1e12, 0 <= j <= 2^24"""
    fp.reset()
    recs = []
    df, dt, fch1, pre = fp_vars(3)
    with frame_patches():
        fr = core.run_single(lambda: make_frame(2, 3, asc, df, dt, fch1), pre).value
        # arbitrary grid origin / spacing (the frame's own fmin is one instance)
        fr.fmin = FSym.var('fmin', 0, 1e12, pre)
        pre.append(fr.fmin.t <= RV(1e12) * df.t)
        j = FSym(z3.Real('j'), True)
        pre += [j.t >= 0, j.t <= 2 ** 24]
        k = fr.get_index(fr.get_frequency(j))
    side0 = list(fp.SIDE)
    qv = unrounded_index(fr, fr.get_frequency, j)
    side = list(fp.SIDE)
    half = RV(0.5)
    # (1) the real code returns rne(q) -- same delta symbols are not shared between the two runs, so this is
    #     checked structurally on a third run with the deltas pinned to zero (exact reals)
    # (2) |q - j| < 1/2 for every admissible rounding
    r, m = core.check(pre + side + [z3.Or(lift(qv) - j.t >= half, j.t - lift(qv) >= half)], timeout_ms=120000)
    recs.append(q(f"C05:fp:roundtrip:{asc}:within-half", r))
    if r == 'sat':
        recs.append(cex('C05:fp:roundtrip', 'binary64 index->frequency->index is not the identity (candidate)',
                        dict(fn='fp_rt', asc=asc, fmin=core.model_float(m, fr.fmin), df=core.model_float(m, df), j=core.model_float(m, j)), name=f"C05:fp:roundtrip:{asc}:within-half"))
    # (3) lemma: r integer with |q - r| <= 1/2 (necessary for r = rne(q)), j integer with |q - j| < 1/2  ==>  r == j.
    #     stated with m = r - j as its own integer (unbounded mixed branch-and-bound diverges on the direct form)
    qq = z3.Real('qq')
    ji, mi = z3.Ints('ji mi')
    rr = z3.ToReal(ji) + z3.ToReal(mi)
    r2, _ = core.check([qq - rr <= half, rr - qq <= half, qq - z3.ToReal(ji) < half, z3.ToReal(ji) - qq < half, mi != 0], timeout_ms=60000)
    recs.append(q(f"C05:fp:roundtrip:{asc}:rne-lemma", r2))
    x = z3.Real('x')
    rx = lift(core.rne(Sym(x)))
    r4, _ = core.check([z3.Or(x - rx > half, rx - x > half)], timeout_ms=60000)
    recs.append(q(f"C05:fp:roundtrip:{asc}:rne-within-half", r4))
    flx = z3.ToReal(z3.ToInt(x))
    r5, _ = core.check([rx != flx, rx != flx + 1], timeout_ms=60000)
    recs.append(q(f"C05:fp:roundtrip:{asc}:rne-integral(floor or floor+1)", r5))
    r3, _ = core.check(pre + side + [lift(qv) - j.t >= RV(1e-9)], timeout_ms=60000)
    recs.append(q(f"C05:fp:roundtrip:{asc}:twin", r3, expect='sat'))
    return recs


# ------------------------------------------------------------------ concrete oracles
def replay_axes(p):
    import setigen as stg
    T, Fc, asc = p['T'], p['Fc'], p['asc']
    try:
        fr = build_real(stg, p['route'], T, Fc, asc, p['df'], p['dt'], p['fch1'])
    except Exception as e:
        return True, f"construction raised {type(e).__name__}: {e}"
    df, dt = p['df'], p['dt']
    fmin = p['fch1'] if asc else p['fch1'] - (Fc - 1) * df
    want_fs = fmin + np.arange(Fc) * df
    want_ts = np.arange(T) * dt
    tol = 1e-9
    msgs = []
    if len(fr.fs) != Fc or len(fr.ts) != T or len(fr.ts_ext) != T + 1:
        msgs.append(f"axis lengths fs={len(fr.fs)} ts={len(fr.ts)} ts_ext={len(fr.ts_ext)} for shape {(T, Fc)}")
    else:
        if not np.allclose(fr.fs, want_fs, rtol=tol, atol=tol * abs(df)):
            msgs.append(f"fs={fr.fs!r} expected {want_fs!r}")
        if not np.all(np.diff(fr.fs) > 0) and Fc > 1:
            msgs.append("fs not strictly increasing")
        if not np.allclose(fr.ts, want_ts, rtol=tol, atol=tol * dt):
            msgs.append(f"ts={fr.ts!r} expected {want_ts!r}")
        if not np.allclose(fr.ts_ext, np.arange(T + 1) * dt, rtol=tol, atol=tol * dt):
            msgs.append("ts_ext wrong")
    chk = dict(fmin=fmin, fmax=fmin + (Fc - 1) * df, fmid=fmin + (Fc - 1) * df / 2, obs_length=T * dt, unit_drift_rate=df / dt,
               fch1=(fmin if asc else fmin + (Fc - 1) * df), df=abs(df), dt=dt)
    for k, v in chk.items():
        if not np.isclose(getattr(fr, k), v, rtol=tol, atol=tol * abs(df)):
            msgs.append(f"{k}={getattr(fr, k)!r} expected {v!r}")
    if not np.isclose(fr.t_stop - fr.t_start, T * dt, rtol=1e-6):
        msgs.append("t_stop")
    if not np.isclose(fr.get_drift_rate(1, 3), 2 * df / (T * dt), rtol=tol):
        msgs.append("get_drift_rate")
    fr.t_start = fr.t_start + 1234.5
    if not np.isclose(fr.t_stop, fr.t_start + T * dt, rtol=1e-12) or not np.isclose(fr.obs_length, T * dt, rtol=tol):
        msgs.append(f"after reassigning t_start to {fr.t_start!r}: t_stop={fr.t_stop!r}, expected {fr.t_start + T * dt!r}")
    fr.ts = fr.ts + 1000.0
    if len(fr.ts_ext) != T + 1 or not np.allclose(fr.ts_ext, 1000.0 + np.arange(T + 1) * dt, rtol=tol, atol=tol * dt):
        msgs.append(f"ts_ext on a time axis starting at 1000.0: {fr.ts_ext!r}")
    return bool(msgs), '; '.join(msgs) or 'axes agree'


def build_real(stg, route, T, Fc, asc, df, dt, fch1):
    if route == 'ctor_flagforms':
        return stg.Frame(fchans=Fc, tchans=T, df=df, dt=dt, fch1=fch1, ascending=(np.bool_(asc) if T % 2 else int(asc)))
    if route == 'sizes':
        return stg.Frame(fchans=Fc, tchans=T, df=df, dt=dt, fch1=fch1, ascending=asc)
    if route == 'shape':
        return stg.Frame(shape=(T, Fc), df=df, dt=dt, fch1=fch1, ascending=asc)
    if route == 'data':
        return stg.Frame(data=np.zeros((T, Fc)), df=df, dt=dt, fch1=fch1, ascending=asc)
    return stg.Frame.from_data(df, dt, fch1, asc, np.zeros((T, Fc)))


def replay_index(p):
    import setigen as stg
    g = inject.GEOMS.get(p['geom']) or inject.GEOMS['g1']
    fr = stg.Frame(fchans=p['Fc'], tchans=p['T'], df=g['df'], dt=g['dt'], fch1=g['fch1'], ascending=p['asc'])
    if p.get('j') is not None:
        j = int(p['j'])
        k = int(fr.get_index(fr.get_frequency(j)))
        return k != j, f"get_index(get_frequency({j})) = {k}"
    f = p['f']
    k = int(fr.get_index(f))
    fk = fr.get_frequency(k)
    bad = abs(fk - f) > fr.df / 2 * (1 + 1e-12)
    if fr.fmin - fr.df / 2 < f < fr.fmax + fr.df / 2 and not (0 <= k < p['Fc']):
        bad = True
    return bad, f"get_index({f!r}) = {k} (frequency {fk!r}, df={fr.df})"


def replay_fp_len(p):
    """concretise a delta-model candidate: search binary64 dt values (the model's value, its
    neighbours and a fixed list of realistic resolutions) on the real constructor"""
    import setigen as stg
    T, Fc, asc = p['T'], p['Fc'], p['asc']
    cands = []
    if p.get('dt'):
        x = float(p['dt'])
        cands += [x] + [np.nextafter(x, np.inf), np.nextafter(x, -np.inf)]
    cands += [18.253611008, 1.4316557653333333, 0.1, 0.3, 1.0737418239999999, 0.7, 1e-3, 2.2369621333333335, 17.89569706666667]
    rng = np.random.default_rng(12345)
    cands += list(rng.uniform(0.01, 20.0, 400))
    for dt in cands:
        try:
            fr = stg.Frame(fchans=Fc, tchans=T, df=2.7939677238464355, dt=dt, fch1=6e9, ascending=asc)
            ext = fr.ts_ext
        except Exception as e:
            return True, f"Frame(tchans={T}, dt={dt!r}) raised {type(e).__name__}: {e}"
        if len(fr.ts) != T or len(fr.fs) != Fc or len(ext) != T + 1:
            return True, f"Frame(tchans={T}, fchans={Fc}, dt={dt!r}): len(ts)={len(fr.ts)}, len(fs)={len(fr.fs)}, len(ts_ext)={len(ext)}"
    return False, f"no binary64 dt among {len(cands)} candidates reproduces the length mismatch"


def replay_fp_rt(p):
    import setigen as stg
    rng = np.random.default_rng(7)
    base = [(p['fmin'], p['df'], p['j'])] if p.get('df') else []
    for (fmin, df, j) in base + [(rng.uniform(0, 1e10), rng.uniform(1e-3, 1e3), rng.integers(0, 2 ** 24)) for _ in range(2000)]:
        fr = stg.Frame(fchans=4, tchans=2, df=df, dt=1.0, fch1=fmin, ascending=True)
        for jj in (int(j), int(j) + 1, max(int(j) - 1, 0)):
            if int(fr.get_index(fr.get_frequency(jj))) != jj:
                return True, f"fmin={fmin!r} df={df!r}: get_index(get_frequency({jj})) = {int(fr.get_index(fr.get_frequency(jj)))}"
    return False, 'round trip is the identity on all candidates'


def replay_backend(p):
    import setigen as stg
    L = p['obs_length']
    sr, nb, fftl, intf = BACKENDS[p.get('cfg', 0)]
    fr = stg.Frame.from_backend_params(fchans=3, obs_length=L, sample_rate=sr, num_branches=nb, fftlength=fftl, int_factor=intf, fch1=4096.0, ascending=p['asc'])
    T = fr.tchans
    dfv = sr / nb / fftl
    dtv = intf / dfv
    fmin_w = 4096.0 if p['asc'] else 4096.0 - 2 * dfv
    bad = not (fr.df == dfv and fr.dt == dtv and T * dtv <= L < (T + 1) * dtv and len(fr.ts) == T and bool(fr.ascending) == bool(p['asc'])
               and np.allclose(fr.fs, fmin_w + np.arange(3) * dfv, rtol=1e-12))
    hist = backend_params_history(stg.frame)
    return bad or bool(hist), f"obs_length={L!r}, ascending={p['asc']}: tchans={T}, df={fr.df}, dt={fr.dt}, ascending={fr.ascending}, fs={fr.fs.tolist()}" + (f"; {hist}" if hist else '')


def replay_orient(p):
    import setigen as stg
    msgs = []
    for (T, Fc) in ((p.get('T', 2), p.get('Fc', 3)), (4, 9)):
        a = stg.Frame(fchans=Fc, tchans=T, df=2.0, dt=4.0, fch1=4096.0, ascending=True, seed=1)
        b = stg.Frame(fchans=Fc, tchans=T, df=2.0, dt=4.0, fch1=4096.0 + (Fc - 1) * 2.0, ascending=False, seed=1)
        if not (np.array_equal(a.fs, b.fs) and np.array_equal(a.ts, b.ts) and a.fmin == b.fmin and a.fmax == b.fmax and a.fmid == b.fmid):
            msgs.append(f"axes differ for {(T, Fc)}: {a.fs} vs {b.fs}")
        kw = dict(path=stg.constant_path(4098.0, 0.2), t_profile=stg.sine_t_profile(30.0), f_profile=stg.gaussian_f_profile(3.0), bp_profile=lambda f: 1 + 1e-3 * (f - 4096.0),
                  doppler_smearing=bool(p.get('smear')), smearing_subsamples=2, integrate_f_profile=True, f_subsamples=2)
        sa, sb = a.add_signal(**kw), b.add_signal(**kw)
        if not np.allclose(sa, sb, rtol=1e-12, atol=1e-12) or not np.allclose(a.data, b.data, rtol=1e-12, atol=1e-12):
            msgs.append(f"injected data differ between orientation flags for {(T, Fc)}")
    return bool(msgs), '; '.join(msgs) or 'orientation flags are equivalent'


def replay_units(p):
    import astropy.units as u
    import setigen as stg
    cases = [dict(df=2.0 * u.Hz, dt=4.0 * u.s, fch1=4096.0 * u.Hz), dict(df=0.002 * u.kHz, dt=4000.0 * u.ms, fch1=4.096 * u.kHz), dict(df=-2.0 * u.Hz, dt=4.0 * u.s, fch1=0.004096 * u.MHz)]
    msgs = []
    for k, cs in enumerate(cases):
        for asc in (False, True):
            fr = stg.Frame(fchans=5, tchans=3, ascending=asc, **cs)
            ref = stg.Frame(fchans=5, tchans=3, ascending=asc, df=2.0, dt=4.0, fch1=4096.0)
            if not (np.allclose(fr.fs, ref.fs, rtol=1e-12, atol=0) and np.allclose(fr.ts, ref.ts, rtol=1e-12) and abs(fr.df - 2.0) < 1e-12 and abs(fr.dt - 4.0) < 1e-12):
                msgs.append(f"unit case {k} asc={asc}: fs={fr.fs} df={fr.df} dt={fr.dt}")
    fr = stg.Frame(fchans=16, tchans=3, df=2.0 * u.Hz, dt=4.0 * u.s, fch1=4096.0 * u.Hz, ascending=True)
    for qv in (4106.0 * u.Hz, 0.004106 * u.MHz, 4.106e-6 * u.GHz, 4.106 * u.kHz):
        if fr.get_index(qv) != 5:
            msgs.append(f"get_index({qv!r}) = {fr.get_index(qv)}, channel 5 is at 4106 Hz")
    return bool(msgs), '; '.join(msgs) or 'unit-carrying arguments agree with plain numbers'


REPLAYS = {'axes': replay_axes, 'index': replay_index, 'fp_len': replay_fp_len, 'fp_rt': replay_fp_rt, 'backend': replay_backend,
           'units': replay_units, 'orient': replay_orient}


def main():
    ck = Check('C05', 'Frame axes and frequency/index conversion are exact, orientation-independent')
    ck.functions = ['setigen.frame.Frame.__init__', 'Frame.from_data', 'Frame.from_backend_params', 'frame.params_from_backend', 'Frame._update_fs',
                    'Frame._update_ts', 'Frame.fmid', 'Frame.t_stop', 'Frame.obs_length', 'Frame.ts_ext', 'Frame.get_index', 'Frame.get_frequency',
                    'Frame.get_drift_rate', 'unit_utils.get_value', 'Frame.add_signal (orientation twin)']
    ck.files = ['setigen/frame.py', 'setigen/unit_utils.py']
    ck.stubs = ['astropy sigma_clip -> identity', 'numpy.linspace by its documented formula (exact: start + i*(stop-start)/num; binary64: fl(fl(i*step)+start))',
                'numpy.arange length ceil((stop-start)/step)']
    ck.assumptions = ['exact reals for the grid structure; rounded-real (delta) model |d| <= 2^-53 per operation for the binary64 claims',
                      'delta model ranges: 1e-3 <= df <= 1e9, fch1/df <= 1e12, 0 <= j <= 2^24 (results in the normal range)',
                      'nearest-channel claim on concrete dyadic geometries (symbolic df makes (f-fmin)/df non-linear)']
    sizes = [(1, 1), (2, 3), (3, 8)] if not ck.thorough else [(1, 1), (2, 3), (3, 8), (4, 5), (8, 8), (6, 16), (16, 4), (1, 32)]
    ck.bounds = dict(shapes=sizes, routes=ROUTES, geometries='symbolic df,dt,fch1 + dyadic g1,g2,g3')
    jobs = []
    for (T, Fc) in sizes:
        for asc in (False, True):
            for route in ('sizes', 'shape', 'data', 'from_data') + (('ctor_flagforms',) if Fc > 1 else ()):
                jobs.append(('job_axes', (T, Fc, asc, route)))
            jobs.append(('job_fp_lengths', (T, Fc, asc)))
            for geom in (None, 'g1', 'g2', 'g3'):
                jobs.append(('job_index', (geom, T, Fc, asc)))
    for asc in (False, True):
        jobs.append(('job_backend', (asc,)))
        jobs.append(('job_backend', (asc, 1)))
        jobs.append(('job_fp_roundtrip', (asc,)))
    jobs.append(('job_units', ()))
    for asc in (False, True):
        jobs.append(('job_units_sym', (asc,)))
    for smear in (False, True):
        jobs.append(('job_orient', (2, 3, smear)))
        if ck.thorough:
            jobs.append(('job_orient', (3, 5, smear)))
    ck.run_jobs('props.C05', jobs, timeout_s=900)
    ck.finish()


if __name__ == '__main__':
    main()
