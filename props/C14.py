"""C14 -- injection onto existing RAW: exact decode, same framing, stationary gain.

E1: the real RawVoltageBackend.from_data (real readers on in-memory input files), _read_next_block,
collect_data_block (input branch) and record run on input files whose every data byte is a symbolic integer in
[-128, 127].  The requantiser is an uninterpreted function of (value, custom deviation, target mean, target
deviation) so that the statistics it is handed at each call are part of the recorded terms.
"""
import itertools
import time

import numpy as np
import z3

from symx import core, npx, shadow
from symx.core import Sym, SymC, lift, RV
from symx.report import Check, q, cex, note
from props.volt_common import B, PF, Q, A, RU, volt_patches, MemFS, MemFile, pfb_spec, cparts
from props import C02, C04

RS = z3.RealSort()
Q1R = z3.Function('Q1r', RS, RS, RS, RS, RS, RS)   # (ant, pol, v, custom_std, target_mean) stage 1 (synthetic, custom deviation)
Q1I = z3.Function('Q1i', RS, RS, RS, RS, RS, RS)
Q2R = z3.Function('Q2r', RS, RS, RS, RS, RS, RS)   # (ant, pol, v, target_mean, target_std) final requantisation
Q2I = z3.Function('Q2i', RS, RS, RS, RS, RS, RS)


class StubCQ(Q.ComplexQuantizer):
    ident = (0, 0)
    log = None

    def quantize(self, v, custom_stds=None):
        a, p = self.ident
        tmr, tmi = lift(self.quantizer_r.target_mean), lift(self.quantizer_i.target_mean)
        tsr, tsi = lift(self.quantizer_r.target_std), lift(self.quantizer_i.target_std)
        if custom_stds is not None:
            try:
                cr, ci = lift(custom_stds[0]), lift(custom_stds[1])
            except TypeError:
                cr = ci = lift(custom_stds)
            if StubCQ.log is not None:
                StubCQ.log.append(('stage1', a, p, cr, ci, tmr, tmi))

            def one(e):
                re, im = cparts(e)
                return SymC(Sym(Q1R(RV(a), RV(p), re, cr, tmr)), Sym(Q1I(RV(a), RV(p), im, ci, tmi)))
        else:
            if StubCQ.log is not None:
                StubCQ.log.append(('stage2', a, p, tmr, tsr, tmi, tsi))

            def one(e):
                re, im = cparts(e)
                return SymC(Sym(Q2R(RV(a), RV(p), re, tmr, tsr)), Sym(Q2I(RV(a), RV(p), im, tmi, tsi)))
        return npx._map(one, v)


def make_input(fs, stem, P, taps, Wb, npol, nant, bits, nc, nblocks, bpf, directio):
    """a real synthetic recording into memory, whose data bytes are then replaced by fresh symbols"""
    aligned = directio == 'aligned'          # DIRECTIO=1 and a header whose cards + END fill a multiple of 512 bytes exactly
    extra = 0
    for attempt in range(2):
        for nm in [n_ for n_ in fs.names() if n_.startswith(stem + '.')]:
            fs.files.pop(nm, None)
            fs.files.pop('__flat__' + nm, None)
        with volt_patches(opener=fs.open):
            be, ant, ws = C02.build(P, taps, Wb, 1, npol, nant, bits, 0, nc, bpf)
            hd = {'TELESCOP': 'GBT', 'OBSERVER': 'X', 'SRC_NAME': 'Y'}
            hd.update({f'PAD{i:03d}': i for i in range(extra)})
            if directio is not None:
                hd['DIRECTIO'] = 1 if aligned else directio
            be.record(stem, num_blocks=nblocks, length_mode='num_blocks', header_dict=hd, digitize=True, verbose=False, load_template=False)
        if not aligned:
            break
        first = [n_ for n_ in fs.names() if n_.startswith(stem + '.')][0]
        head = b''
        for w in fs.files[first]:
            if isinstance(w, npx.SymBytes):
                break
            head += bytes(w)
        cards = head.index(f"{'END':<80}".encode()) // 80 + 1
        if cards % 32 == 0:
            break
        extra = (-cards) % 32
    bytes_, pre = {}, []
    bi = 0
    for nm in fs.names():
        if not nm.startswith(stem + '.'):
            continue
        new = []
        for w in fs.files[nm]:
            if isinstance(w, npx.SymBytes):
                items = []
                for i in range(len(w)):
                    v = z3.Int(f'b{bi}_{i}')
                    pre.append(z3.And(v >= -128, v <= 127))
                    items.append(Sym(z3.ToReal(v), True))
                bytes_[bi] = items
                new.append(npx.SymBytes(items))
                bi += 1
            else:
                new.append(w)
        fs.files[nm] = new
        fs.files.pop('__flat__' + nm, None)
    return be.block_size, bytes_, pre


def decode_spec(items, row, t, p, npol, bits, ncol):
    """(re, im) terms of the complex sample (row, time t, pol p) stored in a block's byte list"""
    if bits == 8:
        col = (t * npol + p) * 2
        return lift(items[row * ncol + col]), lift(items[row * ncol + col + 1])
    b = lift(items[row * ncol + t * npol + p])
    hi = z3.ToReal(z3.ToInt(b / 16))
    lo = b - 16 * hi                      # 0..15
    return hi, z3.If(lo >= 8, lo - 16, lo)


def job_inject(P, taps, Wb, nsb, npol, nant, bits, nc, n_in, bpf, directio, n_req, digitize):
    recs = []
    cfg = (P, taps, Wb, nsb, npol, nant, bits, nc, n_in, bpf, directio, n_req, digitize)
    tag = f"C14:{cfg}"
    pl = dict(fn='inject', P=P, taps=taps, Wb=Wb, nsb=nsb, npol=npol, nant=nant, bits=bits, nc=nc, n_in=n_in, bpf=bpf, directio=directio, n_req=n_req, digitize=digitize)
    fs = MemFS()
    block_size, inbytes, pre = make_input(fs, '/mem/in', P, taps, Wb, npol, nant, bits, nc, n_in, bpf, directio)
    T = taps * Wb
    bps = 2 * npol * bits // 8
    ncol = T * bps
    glob_stub = type('G', (), {'glob': staticmethod(lambda pat: list(reversed(fs.glob(pat))))})     # an unfriendly listing order
    sig_r, sig_i = Sym(z3.Real('chan_std_r')), Sym(z3.Real('chan_std_i'))
    pre += [sig_r.t > 0, sig_i.t > 0]
    StubCQ.log = []
    decoded = {}

    def run():
        ant = C02.FakeAntenna(npol) if nant == 1 else C02.FakeArray(nant, npol)
        fb = PF.PolyphaseFilterbank(num_taps=taps, num_branches=P)
        be = B.RawVoltageBackend.from_data('/mem/in', ant, digitizer=C02.UQ(), filterbank=fb, start_chan=0, num_subblocks=nsb)
        w = npx.sarr([Sym(z3.Real(f'w_{m}')) for m in range(taps * P)])
        for a in range(nant):
            for p in range(npol):
                be.digitizer[a][p].ident = (a, p)
                be.requantizer[a][p].ident = (a, p)
                be.filterbank[a][p].window = w
                be.filterbank[a][p].channelized_stds = npx.sarr([sig_r, sig_i])
        orig = be._read_next_block

        def spy():
            v = orig()
            decoded[len(decoded)] = v
            return v
        be._read_next_block = spy
        be.record('/mem/out', num_blocks=n_req, length_mode='num_blocks', header_dict={}, digitize=digitize, verbose=False, load_template=False)
        return be, ant, [lift(x) for x in w]
    with volt_patches(opener=fs.open, globber=glob_stub, extra=[(Q, dict(ComplexQuantizer=StubCQ))]):
        leaves = core.explore(run, pre, cap=4)
    if len(leaves) != 1 or leaves[0].kind != 'ok':
        what = repr(leaves[0].value) if leaves else 'no path'
        recs.append(q(tag + ':runs', 'sat', detail=what))
        recs.append(cex('C14:raise', f'injection onto existing RAW raised / forked: {what}', pl, name=tag + ':runs'))
        return recs
    leaf = leaves[0]
    be, ant, ws = leaf.value
    base = pre + leaf.pc + leaf.side
    # ---- framing: same block size / bit depth / counts; at most the input's number of blocks
    n_out = min(n_req, n_in)
    problems = []
    if (be.block_size, be.num_bits, be.num_chans, be.num_pols, be.num_antennas, be.blocks_per_file) != (block_size, bits, nc, npol, nant, min(bpf, n_in)):
        problems.append(f"backend geometry {(be.block_size, be.num_bits, be.num_chans, be.num_pols, be.num_antennas, be.blocks_per_file)}")
    if be.input_num_blocks != n_in:
        problems.append(f"input_num_blocks={be.input_num_blocks} for {n_in} input blocks")
    if be.num_blocks != n_out:
        problems.append(f"num_blocks={be.num_blocks}, expected min({n_req},{n_in})")
    out_blocks = []
    for nm in fs.names():
        if nm.startswith('/mem/out.'):
            raw = MemFile(fs.files, nm, 'rb')._flat()
            blocks, err = C04.parse_file(raw)
            if err:
                problems.append(f"{nm}: {err}")
            out_blocks += [w for w in fs.files[nm] if isinstance(w, npx.SymBytes)]
            for h in blocks or []:
                if (int(h['BLOCSIZE']), int(h['NBITS']), int(h['OBSNCHAN']), int(h['NPOL']), int(h.get('NANTS', 1))) != (block_size, bits, nc * nant, npol, nant):
                    problems.append(f"output header {h['BLOCSIZE']},{h['NBITS']},{h['OBSNCHAN']},{h['NPOL']},{h.get('NANTS')}")
    if len(out_blocks) != n_out:
        problems.append(f"{len(out_blocks)} output blocks, expected {n_out}")
    r, _ = core.check([RV(int(not problems)) != 1])
    recs.append(q(tag + ':framing', r, trivial=True, detail='; '.join(problems[:2])))
    if problems:
        recs.append(cex('C14:framing', '; '.join(problems[:3]), pl, name=tag + ':framing'))
        return recs
    # ---- decode: every complex sample handed on equals the stored bytes
    dis = []
    for bi in range(n_out):
        v = decoded.get(bi)
        if v is None or v.shape != (nant * nc, T * npol):
            dis = [z3.BoolVal(True)]
            break
        for row in range(nant * nc):
            for t in range(T):
                for p in range(npol):
                    re, im = decode_spec(inbytes[bi], row, t, p, npol, bits, ncol)
                    gr, gi = cparts(v[row, t * npol + p])
                    dis += [gr != re, gi != im]
    r, m = core.check(base + [z3.Or(*dis)], timeout_ms=120000)
    recs.append(q(tag + ':decode', r, terms=len(dis)))
    if r == 'sat':
        recs.append(cex(f'C14:decode:{bits}bit', 'decoded input samples differ from the bytes stored in the block', pl, name=tag + ':decode'))
        return recs
    # ---- output = requantise(input + requantise0(synthetic; custom deviation * digitiser target deviation)), same gain everywhere
    dis = []
    for bi, blk in enumerate(out_blocks):
        items = blk.items
        for a in range(nant):
            for p in range(npol):
                # target statistics of the final requantiser: mean / deviation of this block's decoded parts
                parts_r, parts_i = [], []
                for c in range(nc):
                    for t in range(T):
                        re, im = decode_spec(inbytes[bi], a * nc + c, t, p, npol, bits, ncol)
                        parts_r.append(re)
                        parts_i.append(im)
                n = len(parts_r)
                mr, mi = sum(parts_r[1:], parts_r[0]) / n, sum(parts_i[1:], parts_i[0]) / n
                tstd = be.digitizer[a][p].target_std if digitize else 1.0
                cr, ci = sig_r.t * RV(tstd), sig_i.t * RV(tstd)
                for c in range(nc):
                    for t in range(T):
                        xs = _X(a, p, digitize)
                        sr_, si_ = pfb_spec(xs, ws, bi * T + t, c, P, taps)
                        s1r, s1i = Q1R(RV(a), RV(p), sr_, cr, RV(0)), Q1I(RV(a), RV(p), si_, ci, RV(0))
                        inr, ini = decode_spec(inbytes[bi], a * nc + c, t, p, npol, bits, ncol)
                        # the final target deviation is sqrt(var) of the block: compared through the logged call below,
                        # here it is whatever the stub was handed (recovered from the stored term's arguments)
                        row = a * nc + c
                        if bits == 8:
                            gr, gi = lift(items[row * ncol + (t * npol + p) * 2]), lift(items[row * ncol + (t * npol + p) * 2 + 1])
                        else:
                            gr = gi = None
                        key = (bi, a, p)
                        tsr, tsi = _final_stats(StubCQ.log, key, nsb_eff(be), bi, a, p, npol, nant)
                        wr, wi = Q2R(RV(a), RV(p), s1r + inr, mr, tsr), Q2I(RV(a), RV(p), s1i + ini, mi, tsi)
                        if bits == 8:
                            dis += [z3.simplify(gr - wr) != 0, z3.simplify(gi - wi) != 0]
                        else:
                            g = lift(items[row * ncol + t * npol + p])
                            dis.append(z3.simplify(g - (wr * 16 + z3.If(wi < 0, wi + 16, wi))) != 0)
    dis = [d for d in dis if not z3.is_false(d)]
    r, m = core.check(base + [z3.Or(*dis)] if dis else [z3.BoolVal(False)], timeout_ms=30000)
    if r == 'unknown':
        # the disjunction mixes UF applications with products of window coefficients; a counterexample search is
        # much easier on an instance: fix the window (sound for `sat`: any satisfying instance is a counterexample)
        sub = [(w, RV(i + 1)) for i, w in enumerate(ws)]
        for d in dis[:24]:
            r2, m2 = core.check(base + [z3.substitute(d, *sub)], timeout_ms=10000)
            if r2 == 'sat':
                r, m = 'sat', m2
                break
    recs.append(q(tag + ':output', r, by_solver=len(dis)))
    if r == 'sat':
        recs.append(cex(f"C14:output:{'partial' if Wb % max(1, -(-Wb // nsb)) else 'even'}", 'an output value is not requantise(input + synthetic scaled with the constant custom deviation)', pl, name=tag + ':output'))
    # ---- gain stationarity, directly: every stage-1 call was handed the same custom deviations
    s1 = [e for e in StubCQ.log if e[0] == 'stage1']
    dis = []
    for e in s1:
        tstd = be.digitizer[e[1]][e[2]].target_std if digitize else 1.0
        dis += [e[3] != sig_r.t * RV(tstd), e[4] != sig_i.t * RV(tstd), e[5] != 0, e[6] != 0]
    r, m = core.check(base + [z3.Or(*dis)] if dis else [z3.BoolVal(True)], timeout_ms=60000)
    recs.append(q(tag + ':stationary-gain', r, calls=len(s1)))
    if r == 'sat':
        recs.append(cex('C14:gain', 'the deviation used to scale the synthetic signal changes between sub-blocks / blocks', pl, name=tag + ':stationary-gain'))
    # final-stage target deviation: square equals the variance of the decoded block parts
    s2 = [e for e in StubCQ.log if e[0] == 'stage2']
    recs.append(q(tag + ':twin', 'sat' if s1 and s2 else 'unsat', expect='sat'))
    return recs


def job_two_recordings(first_digitize):
    """the gain of a recording does not depend on an earlier recording made with the other digitiser setting"""
    recs = []
    tag = f"C14:two-recordings:{first_digitize}"
    P, taps, Wb, npol, nant, bits, nc = 4, 2, 2, 2, 1, 8, 2
    fs = MemFS()
    block_size, inbytes, pre = make_input(fs, '/mem/in', P, taps, Wb, npol, nant, bits, nc, 2, 2, None)
    glob_stub = type('G', (), {'glob': staticmethod(lambda pat: fs.glob(pat))})
    sig_r, sig_i = Sym(z3.Real('chan_std_r')), Sym(z3.Real('chan_std_i'))
    pre += [sig_r.t > 0, sig_i.t > 0]
    logs = {}

    def run():
        ant = C02.FakeAntenna(npol)
        fb = PF.PolyphaseFilterbank(num_taps=taps, num_branches=P)
        be = B.RawVoltageBackend.from_data('/mem/in', ant, digitizer=C02.UQ(), filterbank=fb, start_chan=0, num_subblocks=1)
        for p in range(npol):
            be.digitizer[0][p].ident = (0, p)
            be.requantizer[0][p].ident = (0, p)
            be.filterbank[0][p].window = npx.sarr([Sym(z3.Real(f'w_{m}')) for m in range(taps * P)])
            be.filterbank[0][p].channelized_stds = npx.sarr([sig_r, sig_i])
        for k, dg in enumerate((first_digitize, not first_digitize)):
            StubCQ.log = []
            be.record(f'/mem/out{k}', num_blocks=2, length_mode='num_blocks', header_dict={}, digitize=dg, verbose=False, load_template=False)
            logs[k] = (dg, list(StubCQ.log), be.digitizer[0][0].target_std)
        return be
    with volt_patches(opener=fs.open, globber=glob_stub, extra=[(Q, dict(ComplexQuantizer=StubCQ))]):
        leaf = core.run_single(run, pre)
    dis = []
    for k, (dg, log, tstd) in logs.items():
        for e in [e for e in log if e[0] == 'stage1']:
            f = RV(tstd if dg else 1.0)
            dis += [e[3] != sig_r.t * f, e[4] != sig_i.t * f]
    r, m = core.check(pre + leaf.side + [z3.Or(*dis)], timeout_ms=60000)
    recs.append(q(tag, r, calls=len(dis) // 2))
    if r == 'sat':
        recs.append(cex('C14:gain:across-recordings', 'the deviation scaling the synthetic signal in a recording depends on the digitiser setting of an earlier recording on the same backend',
                        dict(fn='two', first_digitize=first_digitize), name=tag))
    return recs


class FailingAntenna(C02.FakeAntenna):
    """raises on the fail_at-th request (a user signal function failing part-way through a recording)"""
    fail_at = None

    def get_samples(self, n):
        if self.fail_at is not None and len(self.reqs) == self.fail_at:
            self.fail_at = None
            raise RuntimeError('signal source failed')
        return super().get_samples(n)


def job_retry_after_abort(fail_at, bpf, n_in):
    """a recording onto existing RAW that is aborted by an exception after some input blocks were read, then made
    again on the same backend: every output block is still built from the input block at the same position"""
    recs = []
    tag = f"C14:retry-after-abort:{(fail_at, bpf, n_in)}"
    P, taps, Wb, npol, nant, bits, nc = 4, 2, 2, 1, 1, 8, 2
    fs = MemFS()
    block_size, inbytes, pre = make_input(fs, '/mem/in', P, taps, Wb, npol, nant, bits, nc, n_in, bpf, None)
    glob_stub = type('G', (), {'glob': staticmethod(lambda pat: fs.glob(pat))})
    pl = dict(fn='retry', fail_at=fail_at, bpf=bpf, n_in=n_in)

    def mk(fail):
        ant = FailingAntenna(npol)
        ant.fail_at = fail
        fb = PF.PolyphaseFilterbank(num_taps=taps, num_branches=P)
        be = B.RawVoltageBackend.from_data('/mem/in', ant, digitizer=C02.UQ(), filterbank=fb, start_chan=0, num_subblocks=2)
        for p in range(npol):
            be.digitizer[0][p].ident = (0, p)
            be.requantizer[0][p].ident = (0, p)
            be.filterbank[0][p].window = npx.sarr([Sym(z3.Real(f'w_{m}')) for m in range(taps * P)])
            be.filterbank[0][p].channelized_stds = npx.sarr([Sym(RV(1)), Sym(RV(1))])
        return be, ant
    kw = dict(length_mode='num_blocks', header_dict={}, digitize=True, verbose=False, load_template=False)
    state = {}

    def run():
        beA, antA = mk(fail_at)
        try:
            beA.record('/mem/a1', num_blocks=n_in, **kw)
            state['aborted'] = False
        except RuntimeError:
            state['aborted'] = True
        antA.k = 0
        beA.record('/mem/a2', num_blocks=2, **kw)
        beB, antB = mk(None)
        beB.record('/mem/b2', num_blocks=2, **kw)
    with volt_patches(opener=fs.open, globber=glob_stub, extra=[(Q, dict(ComplexQuantizer=StubCQ))]):
        leaf = core.run_single(run, pre)
    if leaf.kind == 'exc':
        recs.append(q(tag, 'sat', detail=repr(leaf.value)))
        recs.append(cex('C14:retry:raise', f'recording again after an aborted recording raised {leaf.value!r}', pl, name=tag))
        return recs

    def terms(stem):
        out = []
        for nm in fs.names():
            if nm.startswith(stem + '.'):
                for w in fs.files[nm]:
                    if isinstance(w, npx.SymBytes):
                        out.append(list(w.items))
        return out
    a, b = terms('/mem/a2'), terms('/mem/b2')
    dis = []
    ok = len(a) == len(b) == 2 and all(len(x) == len(y) for x, y in zip(a, b))
    if ok:
        for x, y in zip(a, b):
            for u, v in zip(x, y):
                d = z3.simplify(lift(u) - lift(v))
                if not (z3.is_rational_value(d) and d.numerator_as_long() == 0):
                    dis.append(d != 0)
    r, m = core.check(pre + leaf.side + ([z3.Or(*dis)] if dis else [z3.BoolVal(False)]) if ok else [z3.BoolVal(True)], timeout_ms=120000)
    recs.append(q(tag, r, aborted=state.get('aborted'), by_solver=len(dis)))
    if r == 'sat':
        recs.append(cex('C14:retry:blocks', 'after an aborted recording, the next recording on the same backend is not built from the input blocks at the same positions', pl, name=tag))
    recs.append(q(tag + ':abort-reached', 'sat' if state.get('aborted') else 'unsat', expect='sat'))
    return recs


def replay_retry(p):
    import os
    import shutil
    import tempfile
    from setigen.voltage import backend as bk, polyphase_filterbank as pf, quantization as qz, antenna as an
    d = tempfile.mkdtemp(prefix='c14r_', dir='/var/tmp')
    try:
        src0 = an.Antenna(sample_rate=1024.0, num_pols=2, seed=1)
        [st.add_noise(0, 1) for st in src0.streams]
        be0 = bk.RawVoltageBackend(src0, qz.RealQuantizer(), pf.PolyphaseFilterbank(num_taps=2, num_branches=4), qz.ComplexQuantizer(), start_chan=0, num_chans=2, block_size=2 * 2 * 4 * 16, blocks_per_file=p['bpf'], num_subblocks=1)
        be0.record(os.path.join(d, 'in'), num_blocks=p['n_in'], length_mode='num_blocks', header_dict={}, verbose=False, load_template=False)
        calls = {'n': 0}

        def mk(fail):
            src = an.Antenna(sample_rate=1024.0, num_pols=2, seed=2)

            def sig(ts):
                calls['n'] += 1
                if fail and calls['n'] == 2 * p['fail_at'] + 1:
                    raise RuntimeError('signal source failed')
                return np.zeros(len(ts))
            [st.add_signal(sig) for st in src.streams]
            fb = pf.PolyphaseFilterbank(num_taps=2, num_branches=4)
            fb.channelized_stds = np.array([0.7, 0.9])
            return bk.RawVoltageBackend.from_data(os.path.join(d, 'in'), src, digitizer=qz.RealQuantizer(target_fwhm=8), filterbank=fb, start_chan=0, num_subblocks=2), src
        kw = dict(length_mode='num_blocks', header_dict={}, digitize=True, verbose=False, load_template=False)
        a, sa = mk(True)
        aborted = False
        try:
            a.record(os.path.join(d, 'a1'), num_blocks=p['n_in'], **kw)
        except RuntimeError:
            aborted = True
        sa.set_time(0)
        try:
            a.record(os.path.join(d, 'a2'), num_blocks=2, **kw)
        except Exception as e:
            return True, f"recording again after the aborted one raised {type(e).__name__}: {e}"
        b, sb = mk(False)
        b.record(os.path.join(d, 'b2'), num_blocks=2, **kw)
        ra = b''.join(open(os.path.join(d, f), 'rb').read() for f in sorted(os.listdir(d)) if f.startswith('a2.'))
        rb = b''.join(open(os.path.join(d, f), 'rb').read() for f in sorted(os.listdir(d)) if f.startswith('b2.'))
        nd = sum(1 for x, y in zip(ra, rb) if x != y) + abs(len(ra) - len(rb))
    finally:
        shutil.rmtree(d, ignore_errors=True)
    return nd > 0, f"first recording aborted={aborted}; the recording made afterwards on the same backend differs in {nd} bytes from the same recording on a fresh backend"


def nsb_eff(be):
    return be.num_subblocks


def _final_stats(log, key, nsb, bi, a, p, npol, nant):
    """target deviations handed to the final requantiser call of block bi, (a, p): first stage-2 entry of that block/ident"""
    s2 = [e for e in log if e[0] == 'stage2' and e[1] == a and e[2] == p]
    per_block = len(s2) // max(1, len({1}))  # all entries of this ident, in time order
    calls_per_block = nsb
    e = s2[bi * calls_per_block]
    return e[4], e[6]


class _X:
    def __init__(self, a, p, digitize):
        self.a, self.p, self.d = a, p, digitize

    def __getitem__(self, i):
        s = C02.SF(RV(self.a), RV(self.p), RV(i))
        return ((C02.QD(RV(self.a), RV(self.p), s) if self.d else s), RV(0))


def job_final_stats(P, taps, Wb, npol, bits):
    """the final requantiser's target statistics are mean / deviation of the decoded block (per antenna, pol, part)"""
    recs = []
    tag = f"C14:final-stats:{(P, taps, Wb, npol, bits)}"
    fs = MemFS()
    nc, nant = 1, 1
    block_size, inbytes, pre = make_input(fs, '/mem/in', P, taps, Wb, npol, nant, bits, nc, 1, 1, None)
    T, bps = taps * Wb, 2 * npol * bits // 8
    ncol = T * bps
    glob_stub = type('G', (), {'glob': staticmethod(lambda pat: fs.glob(pat))})
    StubCQ.log = []

    def run():
        ant = C02.FakeAntenna(npol)
        be = B.RawVoltageBackend.from_data('/mem/in', ant, digitizer=C02.UQ(), filterbank=PF.PolyphaseFilterbank(num_taps=taps, num_branches=P), start_chan=0, num_subblocks=1)
        be.input_file_handler = fs.open('/mem/in.0000.raw', 'rb')
        # the sample cap of the requantiser's own estimator is not the size of the block: were the target statistics
        # taken from a capped prefix of the block, a cap below the block length shows it
        for row in be.requantizer:
            for rq in row:
                rq.stats_calc_num_samples = 2
        be._read_next_block()
        return be
    with volt_patches(opener=fs.open, globber=glob_stub, extra=[(Q, dict(ComplexQuantizer=StubCQ))]):
        leaf = core.run_single(run, pre)
    be = leaf.value
    dis = []
    for p in range(npol):
        pr, pi = [], []
        for t in range(T):
            re, im = decode_spec(inbytes[0], 0, t, p, npol, bits, ncol)
            pr.append(re)
            pi.append(im)
        for parts, qz in ((pr, be.requantizer[0][p].quantizer_r), (pi, be.requantizer[0][p].quantizer_i)):
            n = len(parts)
            mu = sum(parts[1:], parts[0]) / n
            var = sum([(x - mu) * (x - mu) for x in parts[1:]], (parts[0] - mu) * (parts[0] - mu)) / n
            dis += [lift(qz.target_mean) != mu, lift(qz.target_std) * lift(qz.target_std) != var, lift(qz.target_std) < 0]
    r, m = core.check(pre + leaf.side + [z3.Or(*dis)], timeout_ms=120000)
    recs.append(q(tag, r))
    if r == 'sat':
        recs.append(cex('C14:final-stats', 'requantiser target statistics are not the mean / deviation of the decoded input block', dict(fn='inject', P=P, taps=taps, Wb=Wb, nsb=1, npol=npol, nant=1, bits=bits, nc=1, n_in=1, bpf=1, directio=None, n_req=1, digitize=True, small_stats=True), name=tag))
    return recs


def job_unit_noise(P, taps, W):
    """the unit-noise deviations by which the synthetic block is scaled are those of THIS filterbank (its own window,
    its own channeliser) applied to the unit-variance draws: real estimate_channelized_stds with a symbolic window and
    the k-th normal draw of seed s as Z(s, k)"""
    from props.C10 import GenStub, ZF
    recs = []
    tag = f"C14:unit-noise:{(P, taps, W)}"
    px = npx.NPProxy(rng_factory=lambda seed=None: GenStub(seed))
    ws = [z3.Real(f'w_{m}') for m in range(taps * P)]
    with volt_patches(proxy=px):
        fb = PF.PolyphaseFilterbank(num_taps=taps, num_branches=P, window_fn='blackman')
        fb.window = npx.sarr([Sym(w) for w in ws])
        x_before = fb.cache
        res = fb.estimate_channelized_stds(factor=W * taps, seed=9)
        kept = fb.channelized_stds
        cache_after = fb.cache
    zs = [(ZF(RV(9), RV(k)), RV(0)) for k in range(W * taps * P)]
    nspec = (W - 1) * taps
    want = []
    for part in (0, 1):
        vals = [pfb_spec(zs, ws, n, k, P, taps)[part] for n in range(nspec) for k in range(P // 2)]
        mu = sum(vals[1:], vals[0]) / len(vals)
        want.append(sum([(v - mu) * (v - mu) for v in vals[1:]], (vals[0] - mu) * (vals[0] - mu)) / len(vals))
    pl = dict(fn='unit_noise', P=P, taps=taps, W=W)
    if len(res) != 2 or kept is not res and list(kept) != list(res):
        recs.append(q(tag, 'sat'))
        recs.append(cex('C14:unit-noise', 'estimate_channelized_stds does not return / keep two deviations', pl, name=tag))
        return recs
    dis = []
    for part in (0, 1):
        e = res[part]
        rad = getattr(e, 'radicand', None)
        got = rad if rad is not None else lift(e) * lift(e)
        d = z3.simplify(got - want[part], som=True)
        if not (z3.is_rational_value(d) and d.numerator_as_long() == 0):
            dis.append(d != 0)
    t0 = time.time()
    r, m = core.check(list(core.GLOBAL_SIDE) + ([z3.Or(*dis)] if dis else [z3.BoolVal(False)]), timeout_ms=120000)
    recs.append(q(tag, r, ms=(time.time() - t0) * 1000, by_solver=len(dis)))
    if r == 'sat':
        recs.append(cex('C14:unit-noise', "the unit-noise deviations are not those of the filterbank's own window and channeliser applied to the draws", pl, name=tag))
    # twin: against the same definition with another window (first coefficient doubled) the equality must fail
    vals_t = [pfb_spec(zs, [3 * ws[0], ws[1] + 1] + ws[2:], n, k, P, taps)[0] for n in range(nspec) for k in range(P // 2)]
    mu_t = sum(vals_t[1:], vals_t[0]) / len(vals_t)
    want_t = sum([(v - mu_t) * (v - mu_t) for v in vals_t[1:]], (vals_t[0] - mu_t) * (vals_t[0] - mu_t)) / len(vals_t)
    rad0 = getattr(res[0], 'radicand', None)
    # (asked at one pinned instance of window and draws: the general non-linear query takes minutes or comes back unknown)
    pin = [w == m + 1 for m, w in enumerate(ws)] + [zr == ((k * k * 3 + 5 * k) % 11) - 4 for k, (zr, _) in enumerate(zs)]
    rt, _ = core.check(list(core.GLOBAL_SIDE) + pin + [(rad0 if rad0 is not None else lift(res[0]) * lift(res[0])) != want_t], timeout_ms=30000)
    recs.append(q(tag + ':twin', rt, expect='sat'))
    same = (x_before is None and cache_after is None)
    r0, _ = core.check([RV(int(same)) != 1])
    recs.append(q(tag + ':cache-untouched', r0, trivial=True))
    if not same:
        recs.append(cex('C14:unit-noise', 'the estimate disturbed the sample cache', pl, name=tag + ':cache-untouched'))
    return recs


def replay_unit_noise(p):
    """real code: the estimate of a filterbank with a non-default window equals the deviation of its own definition
    (window from firwin with that window function) on the same seeded draws"""
    import scipy.signal
    from setigen.voltage import polyphase_filterbank as pf
    P, taps = max(p['P'], 8), max(p['taps'], 4)
    msgs = []
    for wfn in ('blackman', 'boxcar', 'hamming'):
        fb = pf.PolyphaseFilterbank(num_taps=taps, num_branches=P, window_fn=wfn)
        got = np.asarray(fb.estimate_channelized_stds(factor=200, seed=3))
        x = np.random.default_rng(3).standard_normal(200 * P)
        w = scipy.signal.firwin(taps * P, cutoff=1.0 / P, window=wfn, scale=True) * taps * P
        nwin = len(x) // (taps * P)
        xw = x[:nwin * taps * P].reshape(-1, P)
        out = np.array([sum(w[t * P:(t + 1) * P] * xw[n + t] for t in range(taps)) for n in range((nwin - 1) * taps)])
        spec = np.fft.fft(out, axis=1)[:, :P // 2] / P ** 0.5
        want = np.array([spec.real.std(), spec.imag.std()])
        if got.shape != (2,) or not np.allclose(got, want, rtol=1e-9):
            msgs.append(f"window {wfn}: unit-noise deviations {got.tolist()}, the filterbank's own channeliser gives {want.tolist()}")
    return bool(msgs), '; '.join(msgs) or 'unit-noise deviations follow the filterbank in use'


# ------------------------------------------------------------------ concrete oracle
def replay_inject(p):
    """real files: write an input recording with known bytes, inject a zero synthetic signal and a tone, compare
    with an independent model: decode -> requantise(input + requantise0(synthetic)) with constant gain"""
    import os
    import shutil
    import tempfile
    from setigen.voltage import backend as bk, polyphase_filterbank as pf, quantization as qz, antenna as an, raw_utils as ru
    P, taps, Wb, nsb, npol, nant, bits, nc = p['P'], p['taps'], p['Wb'], p['nsb'], p['npol'], p['nant'], p['bits'], p['nc']
    n_in, bpf, directio, n_req, digitize = p['n_in'], p['bpf'], p['directio'], p['n_req'], p['digitize']
    T = taps * Wb
    bps = 2 * npol * bits // 8
    block_size = T * nant * nc * bps
    rng = np.random.default_rng(5)
    d = tempfile.mkdtemp(prefix='c14_', dir='/var/tmp')
    msgs = []
    try:
        # hand-written input
        blocks = [rng.integers(-128 if bits == 8 else -128, 128, size=(nant * nc, T * bps), dtype=np.int64).astype(np.int8) for _ in range(n_in)]
        hdr = {'NBITS': bits, 'NPOL': npol, 'OBSNCHAN': nc * nant, 'BLOCSIZE': block_size, 'SCANLEN': 1.0, 'TBIN': P / 1024.0, 'CHAN_BW': 1024.0 / P * 1e-6,
               'OBSFREQ': 1.0, 'OBSBW': 1.0, 'TELESCOP': 'GBT', 'OBSERVER': 'X', 'SRC_NAME': 'Y', 'PKTIDX': 0}
        if nant > 1:
            hdr['NANTS'] = nant
        if directio == 'aligned':
            directio = 1
            hdr['DIRECTIO'] = 1
            for i in range((-(len(hdr) + 1)) % 32):
                hdr[f'PAD{i:03d}'] = i
        elif directio is not None:
            hdr['DIRECTIO'] = directio
        for fi in range(-(-n_in // bpf)):
            with open(os.path.join(d, f'in.{fi:04d}.raw'), 'wb') as f:
                for blk in blocks[fi * bpf:(fi + 1) * bpf]:
                    n = 0
                    for k, v in hdr.items():
                        f.write(ru.format_header_line(k, v).encode())
                        n += 1
                    f.write(f"{'END':<80}".encode())
                    n += 1
                    if directio not in (None, 0):
                        f.write(bytearray(-(80 * n) % 512))
                    f.write(blk.tobytes())

        def decode(blk):
            out = np.zeros((nant * nc, T, npol), dtype=complex)
            for t in range(T):
                for pp in range(npol):
                    if bits == 8:
                        out[:, t, pp] = blk[:, (t * npol + pp) * 2] + 1j * blk[:, (t * npol + pp) * 2 + 1]
                    else:
                        b = blk[:, t * npol + pp].astype(int)
                        hi = b // 16
                        lo = b - 16 * hi
                        lo = np.where(lo >= 8, lo - 16, lo)
                        out[:, t, pp] = hi + 1j * lo
            return out
        src = an.Antenna(sample_rate=1024.0, num_pols=npol, seed=2) if nant == 1 else an.MultiAntennaArray(nant, sample_rate=1024.0, num_pols=npol, delays=[0] * nant, seed=2)
        # a constant non-zero synthetic stream so that the gain matters
        for st in (src.streams if nant == 1 else [s for a in src.antennas for s in a.streams]):
            st.add_signal(lambda ts: np.full(len(ts), 3.0))
        fb = pf.PolyphaseFilterbank(num_taps=taps, num_branches=P)
        fb.channelized_stds = np.array([0.7, 0.9])
        be = bk.RawVoltageBackend.from_data(os.path.join(d, 'in'), src, digitizer=qz.RealQuantizer(target_fwhm=8, num_bits=8), filterbank=fb, start_chan=0, num_subblocks=nsb)
        got_dec = []
        orig = be._read_next_block

        def spy():
            v = orig()
            got_dec.append(v.copy())
            return v
        be._read_next_block = spy
        be.record(os.path.join(d, 'out'), num_blocks=n_req, length_mode='num_blocks', header_dict={}, digitize=digitize, verbose=False, load_template=False)
        n_out = min(n_req, n_in)
        if be.num_blocks != n_out or ru.get_total_blocks(os.path.join(d, 'out')) != n_out:
            msgs.append(f"{ru.get_total_blocks(os.path.join(d, 'out'))} output blocks, expected min({n_req},{n_in})")
        for bi, v in enumerate(got_dec):
            want = decode(blocks[bi]).reshape(nant * nc, T * npol)
            if v.shape != want.shape or not np.array_equal(v, want):
                msgs.append(f"block {bi}: decoded samples differ from the stored bytes")
                break
        # output values with a silent antenna: out = requantise(input sub-block) with the block's own target statistics
        src0 = an.Antenna(sample_rate=1024.0, num_pols=npol, seed=2) if nant == 1 else an.MultiAntennaArray(nant, sample_rate=1024.0, num_pols=npol, delays=[0] * nant, seed=2)
        fb0 = pf.PolyphaseFilterbank(num_taps=taps, num_branches=P)
        fb0.channelized_stds = np.array([0.7, 0.9])
        be0 = bk.RawVoltageBackend.from_data(os.path.join(d, 'in'), src0, digitizer=qz.RealQuantizer(target_fwhm=8, num_bits=8), filterbank=fb0, start_chan=0, num_subblocks=nsb)
        if p.get('small_stats'):
            for row in be0.requantizer:
                for rq in row:
                    rq.stats_calc_num_samples = 2
        be0.record(os.path.join(d, 'sil'), num_blocks=n_req, length_mode='num_blocks', header_dict={}, digitize=digitize, verbose=False, load_template=False)
        Wn = int(np.ceil(T / taps / nsb)) + 1
        sT = taps * (Wn - 1)
        bounds = [(s0, min(s0 + sT, T)) for s0 in range(0, T, sT)]
        lo, hi = -2 ** (bits - 1), 2 ** (bits - 1) - 1

        def qreal(x, tm, ts):
            mu, sd = np.mean(x), np.std(x)
            f = 0 if sd == 0 else ts / sd
            return np.clip(np.around(f * (x - mu) + tm), lo, hi)
        got_blocks = []
        for fi in range(-(-n_out // bpf)):
            raw = open(os.path.join(d, f'sil.{fi:04d}.raw'), 'rb').read()
            parsed, err = C04.parse_file(list(raw))
            pos = 0
            for h in parsed or []:
                end = raw.index(b'END' + b' ' * 77, pos) + 80
                if int(h.get('DIRECTIO', 0)) != 0 and (end - pos) % 512:
                    end += 512 - (end - pos) % 512
                got_blocks.append(np.frombuffer(raw[end:end + block_size], dtype=np.int8).reshape(nant * nc, T * bps))
                pos = end + block_size
        for bi in range(min(n_out, len(got_blocks))):
            dec = decode(blocks[bi])
            got = decode(got_blocks[bi])
            for a in range(nant):
                rows = slice(a * nc, (a + 1) * nc)
                for pp in range(npol):
                    R, I = dec[rows, :, pp].real, dec[rows, :, pp].imag
                    for (s0, s1) in bounds:
                        wr = qreal(R[:, s0:s1].T, np.mean(R), np.std(R)).T
                        wi = qreal(I[:, s0:s1].T, np.mean(I), np.std(I)).T
                        if not (np.array_equal(got[rows, s0:s1, pp].real, wr) and np.array_equal(got[rows, s0:s1, pp].imag, wi)):
                            msgs.append(f"silent antenna: block {bi} antenna {a} pol {pp} time samples {s0}..{s1 - 1} are not requantise(input) of those samples")
                            break
                    if msgs:
                        break
                if msgs:
                    break
            if msgs:
                break
        # input files are only packaging: the same input blocks stored in ONE file give the same output blocks (with a
        # time-varying synthetic stream, so that a pipeline that restarts at an input-file boundary shows)
        if bpf < n_in and not msgs:
            with open(os.path.join(d, 'one.0000.raw'), 'wb') as f:
                for fi in range(-(-n_in // bpf)):
                    f.write(open(os.path.join(d, f'in.{fi:04d}.raw'), 'rb').read())

            def run_varying(stem, out):
                s_ = an.Antenna(sample_rate=1024.0, num_pols=npol, seed=2) if nant == 1 else an.MultiAntennaArray(nant, sample_rate=1024.0, num_pols=npol, delays=[0] * nant, seed=2)
                for st in (s_.streams if nant == 1 else [x for a_ in s_.antennas for x in a_.streams]):
                    st.add_signal(lambda ts: 40.0 * np.sin(997.0 * np.asarray(ts)) + 300.0 * np.asarray(ts))
                f_ = pf.PolyphaseFilterbank(num_taps=taps, num_branches=P)
                f_.channelized_stds = np.array([0.7, 0.9])      # (pinned: the calibration draws are not seeded)
                b_ = bk.RawVoltageBackend.from_data(os.path.join(d, stem), s_, digitizer=qz.RealQuantizer(target_fwhm=8, num_bits=8), filterbank=f_, start_chan=0, num_subblocks=nsb)
                b_.record(os.path.join(d, out), num_blocks=n_req, length_mode='num_blocks', header_dict={}, digitize=digitize, verbose=False, load_template=False)
                res = []
                fi = 0
                while os.path.exists(os.path.join(d, f'{out}.{fi:04d}.raw')):
                    raw = open(os.path.join(d, f'{out}.{fi:04d}.raw'), 'rb').read()
                    parsed, err = C04.parse_file(list(raw))
                    pos = 0
                    for h in parsed or []:
                        end = raw.index(b'END' + b' ' * 77, pos) + 80
                        if int(h.get('DIRECTIO', 0)) != 0 and (end - pos) % 512:
                            end += 512 - (end - pos) % 512
                        res.append(raw[end:end + block_size])
                        pos = end + block_size
                    fi += 1
                return res
            split_out, one_out = run_varying('in', 'vsplit'), run_varying('one', 'vone')
            if len(split_out) != len(one_out):
                msgs.append(f"{len(split_out)} output blocks from the input stored in files of {bpf} block(s), {len(one_out)} from the same blocks in one file")
            else:
                for bi, (x, y) in enumerate(zip(split_out, one_out)):
                    if x != y:
                        msgs.append(f"output block {bi} differs between the input stored in files of {bpf} block(s) and the same blocks stored in one file (the pipeline does not continue across input files)")
                        break
        # stationary gain: the synthetic stream is constant, so (output - requantise(input alone)) pattern must be the same in
        # every sub-block: compare the channelized_stds the backend ends up with against the value it started from
        for a in range(nant):
            for pp in range(npol):
                cs = be.filterbank[a][pp].channelized_stds
                if not np.allclose(cs, [0.7, 0.9]):
                    msgs.append(f"filterbank[{a}][{pp}].channelized_stds drifted to {cs} during the recording (gain not stationary)")
                    break
    except Exception as e:
        msgs.append(f"raised {type(e).__name__}: {e}")
    finally:
        shutil.rmtree(d, ignore_errors=True)
    return bool(msgs), '; '.join(msgs[:3]) or 'injection consistent'


def replay_two(p):
    import os
    import shutil
    import tempfile
    from setigen.voltage import backend as bk, polyphase_filterbank as pf, quantization as qz, antenna as an
    d = tempfile.mkdtemp(prefix='c14_', dir='/var/tmp')
    try:
        src0 = an.Antenna(sample_rate=1024.0, num_pols=2, seed=1)
        [st.add_noise(0, 1) for st in src0.streams]
        be0 = bk.RawVoltageBackend(src0, qz.RealQuantizer(), pf.PolyphaseFilterbank(num_taps=2, num_branches=4), qz.ComplexQuantizer(), start_chan=0, num_chans=2, block_size=2 * 2 * 4 * 16, blocks_per_file=2, num_subblocks=1)
        be0.record(os.path.join(d, 'in'), num_blocks=2, length_mode='num_blocks', header_dict={}, verbose=False, load_template=False)

        def mk():
            src = an.Antenna(sample_rate=1024.0, num_pols=2, seed=2)
            [st.add_signal(lambda ts: np.full(len(ts), 3.0)) for st in src.streams]
            fb = pf.PolyphaseFilterbank(num_taps=2, num_branches=4)
            fb.channelized_stds = np.array([0.7, 0.9])
            return bk.RawVoltageBackend.from_data(os.path.join(d, 'in'), src, digitizer=qz.RealQuantizer(target_fwhm=8), filterbank=fb, start_chan=0, num_subblocks=1), src
        a, sa = mk()
        a.record(os.path.join(d, 'a1'), num_blocks=2, length_mode='num_blocks', header_dict={}, digitize=p['first_digitize'], verbose=False, load_template=False)
        sa.set_time(0)
        a.record(os.path.join(d, 'a2'), num_blocks=2, length_mode='num_blocks', header_dict={}, digitize=not p['first_digitize'], verbose=False, load_template=False)
        b, sb = mk()
        b.record(os.path.join(d, 'b2'), num_blocks=2, length_mode='num_blocks', header_dict={}, digitize=not p['first_digitize'], verbose=False, load_template=False)
        ra, rb = open(os.path.join(d, 'a2.0000.raw'), 'rb').read(), open(os.path.join(d, 'b2.0000.raw'), 'rb').read()
        nd = sum(1 for x, y in zip(ra, rb) if x != y)
    finally:
        shutil.rmtree(d, ignore_errors=True)
    return nd > 0, f"second recording (digitize={not p['first_digitize']}) differs in {nd} bytes from the same recording on a fresh backend"


REPLAYS = {'inject': replay_inject, 'two': replay_two, 'retry': replay_retry, 'unit_noise': replay_unit_noise}


def main():
    ck = Check('C14', 'Injection onto existing RAW: exact decode, same framing, stationary gain')
    ck.functions = ['RawVoltageBackend.from_data', 'RawVoltageBackend._read_next_block', 'RawVoltageBackend.collect_data_block (input branch)', 'RawVoltageBackend.record',
                    'raw_utils.get_raw_params', 'raw_utils.read_header', 'raw_utils.get_blocks_per_file', 'raw_utils.get_total_blocks', 'raw_utils.get_blocks_in_file',
                    'RealQuantizer._set_target_stats', 'PolyphaseFilterbank.channelize']
    ck.files = ['setigen/voltage/backend.py', 'setigen/voltage/raw_utils.py', 'setigen/voltage/polyphase_filterbank.py', 'setigen/voltage/quantization.py']
    ck.stubs = ['input data bytes -> symbolic integers in [-128,127]', 'requantiser -> uninterpreted function of (value, custom deviation, target mean, target deviation) per (antenna, pol), logging each call',
                'channelized unit-noise deviations -> symbolic (sigma_r, sigma_i) > 0 (estimate_channelized_stds draws are C12/C11 territory)', 'digitiser -> uninterpreted function; antenna -> symbolic stream; exact DFT; in-memory files; glob in reverse order']
    ck.assumptions = ['exact reals; sizes in the stated set']
    jobs = []
    base = [(4, 2, 3, 2), (4, 2, 2, 1)] if not ck.thorough else [(4, 2, 3, 2), (4, 2, 2, 1), (4, 2, 4, 3), (4, 3, 3, 2), (8, 2, 3, 2)]
    for (P, taps, Wb, nsb) in base:
        for npol, nant, bits in itertools.product((1, 2), (1, 2), (8, 4)):
            if not ck.thorough and (npol, nant) == (1, 2):
                continue
            jobs.append(('job_inject', (P, taps, Wb, nsb, npol, nant, bits, 1 if nant == 2 else 2, 2, 2, None, 2, True)))
    # arrays recorded with more than one coarse channel per antenna (row = antenna * num_chans + channel, not the transpose)
    for bits_ in (8, 4):
        jobs.append(('job_inject', (4, 2, 2, 1, 2, 2, bits_, 2, 2, 2, None, 2, True)))
    P, taps, Wb = 4, 2, 3
    for nsb in (1, 2, 3, 4):
        jobs.append(('job_inject', (P, taps, Wb, nsb, 2, 1, 8, 2, 3, 2, 1, 3, True)))
    for directio in (None, 0, 1, 'aligned'):
        for (n_in, bpf, n_req) in ((3, 2, 1), (3, 2, 3), (3, 2, 5), (2, 1, 2)):
            jobs.append(('job_inject', (P, taps, 2, 2, 2, 1, 8, 1, n_in, bpf, directio, n_req, False)))
    for (npol, bits) in ((1, 8), (2, 8), (1, 4), (2, 4)):
        jobs.append(('job_final_stats', (4, 2, 2, npol, bits)))
    for (P_, taps_, W_) in ((4, 2, 2), (2, 3, 3), (8, 1, 2)):
        jobs.append(('job_unit_noise', (P_, taps_, W_)))
    for fd in (True, False):
        jobs.append(('job_two_recordings', (fd,)))
    for (fail_at, bpf, n_in) in ((1, 4, 4), (3, 4, 4), (5, 2, 4), (2, 2, 3)):
        jobs.append(('job_retry_after_abort', (fail_at, bpf, n_in)))
    ck.bounds = dict(base=base, pols='1-2', antennas='1-2', bits='8/4', num_subblocks='1..4 on 3 windows', input='2-3 blocks in files of 1-2, DIRECTIO absent/0/1', requested='shorter, equal, longer than the input')
    ck.run_jobs('props.C14', jobs, timeout_s=1500)
    ck.finish()


if __name__ == '__main__':
    main()
