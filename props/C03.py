"""C03 -- save/load through .fil/.h5 preserves data and axis registration.

The payload bytes written by sigproc / h5py and read back by blimpy are compiled I/O and cannot be encoded.  Hybrid:
 (S) symbolic chain: the real Frame._update_waterfall (data placement, flip, header refresh, container description) and the
     real Frame.__init__ load branch run on symbolic data / geometry / start time against a Waterfall stand-in; between them
     sits a transcription of what blimpy does with header and container (write: _update_header; read: f_begin/f_end, selection
     shape).  SMT decides load(save(frame)) == frame for all contents and geometries, for frames that already carry a
     Waterfall of a DIFFERENT shape (derived frames) as well.
 (H) histories on real files: every sequence of <= 3 operations from {get_waterfall, copy, save+load, slice, dedrift} before the
     final save, both containers and orientations, with an identity-coded payload (pixel value = its own row/column code):
     the header path, blimpy and HDF5/sigproc are entirely real; compared: shape, data, fs, df, dt, t_start, orientation, source
     name, blimpy's own view of every pixel's sky frequency, get_waterfall() in session.  This part is an enumeration of
     operation orders on concrete files; it also validates the transcription used in (S).
 (A) helper axes in the delta model of binary64: get_fs / get_ts have exactly nchans / n_ints entries, get_fs[j] = fch1 + j foff.
"""
import itertools
import os
import time

import numpy as np
import z3

from symx import core, npx, shadow, fp
from symx.core import Sym, lift, RV
from symx.fp import FSym
from symx.report import Check, q, cex, note
from props.frame_common import F as FR, frame_patches, geom_syms, sym_data, make_frame
import importlib
WU = importlib.import_module('setigen.waterfall_utils')


# ---------------------------------------------------------------- (S) symbolic chain
class QStub:
    """minimal stand-in for an astropy Quantity holding a symbolic value in MHz or Hz"""
    def __init__(self, v, unit):
        self.v, self.unit = v, unit

    def to(self, unit):
        name = str(unit)
        if name == str(self.unit):
            return QStub(self.v, unit)
        if str(self.unit) == 'MHz' and name == 'Hz':
            return QStub(self.v * 1e6, unit)
        if str(self.unit) == 'Hz' and name == 'MHz':
            return QStub(self.v * 1e-6, unit)
        raise core.HarnessError(f"unit conversion {self.unit}->{unit}")

    @property
    def value(self):
        return self.v


class UnitStub:
    @staticmethod
    def cast_value(value, unit):
        return QStub(value, unit)

    @staticmethod
    def get_value(value, unit=None):
        if isinstance(value, QStub):
            return value.to(unit).value if unit is not None else value.value
        from setigen import unit_utils
        return unit_utils.get_value(value, unit)


class TimeStub:
    """astropy Time for the two formats used: unix seconds <-> MJD days (linear)"""
    def __init__(self, val, format=None):
        self.unix = val if format == 'unix' else (val - 40587) * 86400
        self.mjd = val if format == 'mjd' else val / 86400 + 40587


class Container:
    pass


class WStub:
    """stand-in for blimpy.Waterfall (a full-file load: the time selection starts at integration 0)"""
    def __init__(self, filename=None, max_load=None, **kw):
        self.header = {'nbits': 32, 'nifs': 1, 'source_name': 'sample', 'rawdatafile': 'x', 'fch1': 8000.0, 'foff': -2.7939677238464355e-06,
                       'tsamp': 18.253611008, 'tstart': 59000.0, 'nchans': 1024}
        self.file_header = dict(self.header)
        self.container = Container()
        self.container.selection_shape = (16, 1, 1024)
        self.container.f_start, self.container.f_stop = 7999.9, 8000.0
        self.container.t_start, self.container.t_stop = 0, 16
        self.data = None
        self.freq_axis = 2


class SigprocStub:
    @staticmethod
    def generate_sigproc_header(w):
        return b'HEADER'


def blimpy_write_read(w, desc):
    """what blimpy does between save and load, on header / container level (transcribed):
    write: _update_header: fch1 := container.f_stop (foff<0) or f_start; nchans := selection_shape[freq_axis]; tstart from t_start
    read : f_begin/f_end from (fch1, foff, nchans); full selection; selection_shape (n_ints, nifs, round((f_stop-f_start)/|foff|))
    data : stored verbatim as (n_ints, 1, nchans) in file order"""
    h = dict(w.header)
    foff = h['foff']
    h['fch1'] = w.container.f_stop if desc else w.container.f_start
    h['nchans'] = w.container.selection_shape[2]
    h['tstart'] = w.container.t_start * h['tsamp'] / 24. / 60. / 60. + h['tstart']
    r = WStub()
    r.header = h
    r.file_header = dict(h)
    nch = h['nchans']
    if desc:
        f_end, f_begin = h['fch1'], h['fch1'] + foff * nch
    else:
        f_begin, f_end = h['fch1'], h['fch1'] + foff * nch
    r.container.f_start, r.container.f_stop = f_begin, f_end
    nints = w.data.shape[0]
    r.container.selection_shape = (nints, 1, nch)
    r.data = w.data
    return r


def job_chain(T, Fc, asc, stale):
    """stale: None, or (T', Fc') shape of a Waterfall the frame already carries (as derived frames do)"""
    recs = []
    tag = f"C03:chain:{(T, Fc, asc, stale)}"
    df, dt, fch1, pre = geom_syms()
    pre = pre + [z3.Int('stale_t0') >= 0, z3.Int('stale_t0') <= 1000, z3.Int('stale_t1') > z3.Int('stale_t0')]
    t0 = Sym(z3.Real('t_start'))
    D = sym_data(T, Fc)
    px = npx.NPProxy()

    def run():
        fr = make_frame(T, Fc, asc, df, dt, fch1, t_start=t0, source_name='SRC')
        fr.data = D.copy()
        if stale is not None:
            # a Waterfall inherited from a parent of another shape / band
            w = WStub()
            w.container.selection_shape = (stale[0], 1, stale[1])
            w.container.f_start, w.container.f_stop = Sym(z3.Real('stale_f0')), Sym(z3.Real('stale_f1'))
            # ... and a time selection that does not start at the first integration (Waterfall(fn, t_start=k))
            w.container.t_start, w.container.t_stop = Sym(z3.ToReal(z3.Int('stale_t0')), True), Sym(z3.ToReal(z3.Int('stale_t1')), True)
            w.header.update({'foff': (1 if asc else -1) * 3.0e-6, 'fch1': Sym(z3.Real('stale_fch1')), 'nchans': stale[1], 'source_name': 'SRC'})
            fr.waterfall = w
        fr._update_waterfall(filename=None)
        back = FR.Frame(waterfall=blimpy_write_read(fr.waterfall, not asc))
        sess = fr.get_waterfall()
        return fr, back, sess
    with frame_patches(proxy=px, extra=[(FR, dict(Waterfall=WStub, sigproc=SigprocStub, unit_utils=UnitStub, Time=TimeStub)), (WU, dict(Waterfall=WStub, np=px))]):
        leaves = core.explore(run, pre, cap=8)
    kap = RV(1e-6) * RV(1e6)
    for li, leaf in enumerate(leaves):
        name = f"{tag}:leaf{li}"
        if leaf.kind == 'exc':
            recs.append(q(name, 'sat', detail=repr(leaf.value)))
            recs.append(cex('C03:chain:raise', f'save/load chain raised {leaf.value!r}', dict(fn='history', ops=['save_load'], ext='fil', asc=asc, stale=stale is not None), name=name))
            continue
        fr, back, sess = leaf.value
        dis = []
        if back.shape != (T, Fc) or np.shape(back.data) != (T, Fc) or len(back.fs) != Fc:
            dis.append(z3.BoolVal(True))
        else:
            for i in range(T):
                for j in range(Fc):
                    dis.append(lift(back.data[i, j]) != lift(D[i, j]))
            # frequencies go through Hz -> MHz -> Hz: equal up to the exact factor kappa = 1e-6 * 1e6
            for j in range(Fc):
                dis.append(z3.simplify(lift(back.fs[j]) - kap * lift(fr.fs[j]), som=True) != 0)
            dis.append(z3.simplify(lift(back.df) - kap * lift(fr.df), som=True) != 0)
            dis.append(lift(back.dt) != lift(fr.dt))
            dis.append(z3.simplify(lift(back.t_start) - lift(fr.t_start), som=True) != 0)
        py = []
        if isinstance(back.ascending, core.SymB):
            dis.append(core.liftb(back.ascending) != z3.BoolVal(asc))
        elif bool(back.ascending) != asc:
            py.append('orientation')
        if back.source_name != 'SRC':
            py.append(f'source_name {back.source_name!r}')
        # file order: channel 0 of the stored payload is fch1
        w = fr.waterfall
        if w.data.shape != (T, 1, Fc):
            py.append(f'payload shape {w.data.shape}')
        else:
            for j in range(Fc):
                src = j if asc else Fc - 1 - j
                for i in range(T):
                    dis.append(lift(w.data[i, 0, j]) != lift(D[i, src]))
        r, m = core.check(pre + leaf.pc + leaf.side + [z3.Or(*dis)], timeout_ms=120000)
        recs.append(q(name, r))
        if r == 'sat' or py:
            if r != 'sat':
                recs.append(q(name + ':attrs', 'sat', detail=str(py)))
            recs.append(cex(f"C03:chain:{'stale' if stale else 'fresh'}", f"load(save(frame)) differs from the frame (symbolic chain) {py}", dict(fn='history', ops=(['slice'] if stale else []) + ['save_load'], ext='fil', asc=asc, stale=stale is not None), name=name if r == 'sat' else name + ':attrs'))
    kok = abs(1e-6 * 1e6 - 1) <= 2 ** -52
    recs.append(q(f"{tag}:scale-factor-within-1ulp", 'unsat' if kok else 'sat', trivial=True))
    return recs


def job_chain_subband(T, n, asc):
    """load branch on a frequency SELECTION of a larger file: the frame is registered at the selection, not at the
    file's first channel (header fch1 keeps the whole file's value until blimpy writes)"""
    recs = []
    tag = f"C03:chain-subband:{(T, n, asc)}"
    f0, f1, hf = Sym(z3.Real('sel_f_start')), Sym(z3.Real('sel_f_stop')), Sym(z3.Real('file_fch1'))
    adf = Sym(z3.Real('adf'))
    tsamp, tstart = Sym(z3.Real('tsamp')), Sym(z3.Real('tstart'))
    pre = [adf.t > 0, tsamp.t > 0, f1.t == f0.t + n * adf.t]
    px = npx.NPProxy()
    W = np.empty((T, 1, n), dtype=object)
    for i in range(T):
        for j in range(n):
            W[i, 0, j] = Sym(z3.Real(f'w_{i}_{j}'))

    def run():
        w = WStub()
        w.header.update({'fch1': hf, 'foff': adf if asc else -adf, 'nchans': 4 * n, 'tsamp': tsamp, 'tstart': tstart, 'source_name': 'SRC'})
        w.container.f_start, w.container.f_stop = f0, f1
        w.container.selection_shape = (T, 1, n)
        w.data = W.view(npx.SymArr)
        return FR.Frame(waterfall=w)
    with frame_patches(proxy=px, extra=[(FR, dict(Waterfall=WStub, sigproc=SigprocStub, unit_utils=UnitStub, Time=TimeStub)), (WU, dict(Waterfall=WStub, np=px))]):
        leaves = core.explore(run, pre, cap=8)
    for li, leaf in enumerate(leaves):
        name = f"{tag}:leaf{li}"
        if leaf.kind == 'exc':
            recs.append(q(name, 'sat', detail=repr(leaf.value)))
            continue
        fr = leaf.value
        dis = []
        if fr.shape != (T, n) or len(fr.fs) != n or np.shape(fr.data) != (T, n):
            dis.append(z3.BoolVal(True))
        else:
            for j in range(n):
                # in-memory column j (ascending frequency) is selection channel j (asc) or n-1-j (desc, file order is descending)
                # blimpy: asc selection covers centres f_start + k*df; desc selection covers centres f_stop - k*df
                centre = (f0.t + j * adf.t) if asc else (f1.t - (n - 1 - j) * adf.t)
                dis.append(z3.simplify(lift(fr.fs[j]) - centre * RV(1e6), som=True) != 0)
                src = j if asc else n - 1 - j
                for i in range(T):
                    dis.append(lift(fr.data[i, j]) != lift(W[i, 0, src]))
            dis.append(z3.simplify(lift(fr.df) - adf.t * RV(1e6), som=True) != 0)
            dis.append(lift(fr.dt) != tsamp.t)
        r, m = core.check(pre + leaf.pc + leaf.side + [z3.Or(*dis)], timeout_ms=60000)
        recs.append(q(name, r))
        if r == 'sat':
            recs.append(cex('C03:chain:subband', 'a frame loaded from a frequency selection is not registered at the selected channels', dict(fn='subband', asc=asc), name=name))
    return recs


# ---------------------------------------------------------------- (H) histories on real files
OPS = ('get_waterfall', 'copy', 'save_load', 'slice', 'dedrift', 'timesel_load', 'edit_inplace', 'failed_save', 'retime', 'rename')


def apply_history(stg, fr, ops, ext, tmp, tag):
    name = fr.source_name                   # the name the frame should carry at the end (derivations keep it)
    for k, op in enumerate(ops):
        if op == 'rename':
            # the source name is re-assigned (an ON / OFF label, say); derived frames and files carry the new one
            name = fr.source_name = f"{name}_{k}"
        elif op == 'get_waterfall':
            fr.get_waterfall()
        elif op == 'copy':
            fr = fr.copy()
        elif op == 'save_load':
            fn = os.path.join(tmp, f'{tag}_{k}.{ext}')
            (fr.save_fil if ext == 'fil' else fr.save_h5)(fn)
            fr = stg.Frame(waterfall=fn)
        elif op == 'failed_save':
            # a save that fails inside the writer (target directory missing); whatever it set up must not stick
            try:
                (fr.save_fil if ext == 'fil' else fr.save_h5)(os.path.join(tmp, 'no_such_dir', f'{tag}_{k}.{ext}'))
            except Exception:
                pass
        elif op == 'retime':
            # the start time is re-assigned after construction / loading (what Cadence.overwrite_times does to its frames)
            fr.t_start = fr.t_start + 3600.0
        elif op == 'edit_inplace':
            # what add_signal / add_noise do: the SAME data array is modified in place (values stay exact in float32)
            fr.data += 1024.0
            fr.data[0, 0] -= 7.0
        elif op == 'timesel_load':
            # load through a Waterfall OBJECT carrying a time selection that does not start at integration 0
            if fr.tchans >= 4:
                from blimpy import Waterfall
                fn = os.path.join(tmp, f'{tag}_{k}.{ext}')
                (fr.save_fil if ext == 'fil' else fr.save_h5)(fn)
                fr = stg.Frame(waterfall=Waterfall(fn, t_start=1, t_stop=fr.tchans))
        elif op == 'slice':
            if fr.fchans >= 5:          # blimpy's HDF5 reader cannot open files with fewer than 3 channels
                fr = fr.get_slice(1, fr.fchans - 1)
        elif op == 'dedrift':
            if fr.fchans >= 5 and fr.tchans >= 2:
                fr = stg.dedrift(fr, fr.df / (fr.tchans * fr.dt) * 1.2 * (1 if k % 2 == 0 else -1))
    fr._expected_source_name = name
    return fr


def check_roundtrip(stg, fr, ext, tmp, tag):
    """-> list of problems for the final save/load of fr"""
    from blimpy import Waterfall
    fn = os.path.join(tmp, f'{tag}_final.{ext}')
    probs = []
    try:
        (fr.save_fil if ext == 'fil' else fr.save_h5)(fn)
        g = stg.Frame(waterfall=fn)
        wf = Waterfall(fn)
    except Exception as e:
        return [f"raised {type(e).__name__}: {e}"]
    tol = fr.df * 1e-6
    if g.shape != fr.shape:
        return [f"shape {g.shape} != {fr.shape}"]
    if not np.allclose(g.data, fr.data.astype(np.float32), rtol=1e-6, atol=1e-6):
        probs.append('data')
    if not np.allclose(g.fs, fr.fs, rtol=0, atol=tol):
        probs.append(f'fs (first {g.fs[0]!r} vs {fr.fs[0]!r})')
    if abs(g.df - fr.df) > 1e-9 * fr.df or abs(g.dt - fr.dt) > 1e-9 * fr.dt or g.ascending != fr.ascending:
        probs.append('df/dt/orientation')
    if abs(g.t_start - fr.t_start) > 1e-3:
        probs.append(f't_start {g.t_start!r} vs {fr.t_start!r}')
    if g.source_name != fr.source_name:
        probs.append(f'source_name {g.source_name!r} vs {fr.source_name!r}')
    if getattr(fr, '_expected_source_name', fr.source_name) != fr.source_name:
        probs.append(f'the frame carries source name {fr.source_name!r} after its history, expected {fr._expected_source_name!r}')
    # frames built from one in-memory Waterfall object (more than once: a cadence of views, a retry) are the file's frame
    try:
        wobj = Waterfall(fn)
        for nth in ('first', 'second', 'third'):
            gw = stg.Frame(waterfall=wobj)
            if gw.shape != g.shape or not np.array_equal(gw.data, g.data) or not np.allclose(gw.fs, g.fs, rtol=0, atol=tol):
                probs.append(f'the {nth} frame built from one Waterfall object of the file differs from the frame loaded from the file')
                break
    except Exception as e:
        probs.append(f"Frame(waterfall=<Waterfall object>) raised {type(e).__name__}: {e}")
    freqs = wf.container.populate_freqs() * 1e6
    dat = wf.data[:, 0, :]
    order = np.argsort(freqs)
    if dat.shape != fr.data.shape or not np.allclose(freqs[order], fr.fs, rtol=0, atol=tol) or not np.allclose(dat[:, order], fr.data.astype(np.float32), rtol=1e-6, atol=1e-6):
        probs.append('blimpy sees pixels at other sky frequencies')
    w = fr.get_waterfall()
    fq = w.container.populate_freqs() * 1e6
    o2 = np.argsort(fq)
    if w.data.shape != (fr.tchans, 1, fr.fchans) or not np.allclose(fq[o2], fr.fs, rtol=0, atol=tol) or not np.allclose(w.data[:, 0, :][:, o2], fr.data):
        probs.append('in-session get_waterfall()')
    # helper axes on the written file
    from setigen import waterfall_utils as wu
    hfs, hts = wu.get_fs(fn), wu.get_ts(fn)
    if len(hfs) != fr.fchans or len(hts) != fr.tchans or not np.allclose(np.sort(hfs) * 1e6, fr.fs, rtol=0, atol=tol):
        probs.append(f'helper axes: len(get_fs)={len(hfs)} len(get_ts)={len(hts)}')
    if abs(wu.max_freq(fn) * 1e6 - fr.fs[-1]) > tol or abs(wu.min_freq(fn) * 1e6 - fr.fs[0]) > tol or wu.get_data(fn).shape != fr.data.shape:
        probs.append('min_freq/max_freq/get_data')
    return probs


def job_histories(asc, ext, first_op, maxlen):
    import logging
    import shutil
    import tempfile
    import setigen as stg
    logging.disable(logging.CRITICAL)
    recs = []
    tmp = tempfile.mkdtemp(prefix='c03_', dir='/var/tmp')
    bad, n = [], 0
    try:
        for L in range(0, maxlen):
            for rest in itertools.product(OPS, repeat=L):
                ops = ((first_op,) + rest) if first_op else rest
                if first_op is None and L > 0:
                    continue
                for (T, Fc, df, dt, fch1) in ((3, 8, 2.0, 1.0, 1.0e9), (4, 6, 2.7939677238464355, 18.253611008, 6.0e9)):
                    fr = stg.Frame(fchans=Fc, tchans=T, df=df, dt=dt, fch1=fch1, ascending=asc, t_start=1.7e9, source_name='SRC', seed=0)
                    fr.data = (np.arange(T)[:, None] * 64.0 + np.arange(Fc)[None, :] + 1.0)        # identity-coded payload, exact in float32
                    try:
                        fr = apply_history(stg, fr, ops, ext, tmp, f'h{n}')
                        # another synthetic frame of the session, with its own name and band, gets its Waterfall now
                        decoy = stg.Frame(fchans=Fc + 2, tchans=T, df=df * 2, dt=dt, fch1=fch1 / 2, ascending=not asc, t_start=1.6e9, source_name='OTHER', seed=1)
                        decoy.get_waterfall()
                        probs = check_roundtrip(stg, fr, ext, tmp, f'h{n}')
                    except BaseException as e:
                        probs = [f"raised {type(e).__name__}: {e}"]
                    n += 1
                    if probs:
                        bad.append((ops, (T, Fc), probs))
                    for f_ in os.listdir(tmp):
                        os.remove(os.path.join(tmp, f_))
    finally:
        shutil.rmtree(tmp, ignore_errors=True)
    r, _ = core.check([RV(len(bad)) != 0])
    recs.append(q(f"C03:histories:{(asc, ext, first_op, maxlen)}", r, trivial=True, histories=n, detail=str(bad[:2])))
    for ops, shp, probs in bad[:3]:
        kind = 'derived' if any(o in ('slice', 'dedrift') for o in ops) else 'plain'
        recs.append(cex(f"C03:history:{kind}:{'shape' if any('shape' in p for p in probs) else 'content'}", f"after {list(ops)} on a {shp} frame, {ext} round trip: {probs[:2]}",
                        dict(fn='history', ops=list(ops), ext=ext, asc=asc, stale=False), name=f"C03:histories:{(asc, ext, first_op, maxlen)}"))
    return recs


def _large_roundtrip(asc, ext, shape):
    import logging
    import shutil
    import tempfile
    import setigen as stg
    logging.disable(logging.CRITICAL)
    T, Fc = shape
    tmp = tempfile.mkdtemp(prefix='c03L_', dir='/var/tmp')
    try:
        fr = stg.Frame(fchans=Fc, tchans=T, df=2.0, dt=1.0, fch1=1.0e9, ascending=asc, t_start=1.7e9, source_name='SRC', seed=0)
        fr.data = (np.arange(T)[:, None] * 1024.0 + (np.arange(Fc)[None, :] % 1000) + 1.0)       # exact in float32, every row distinct
        return check_roundtrip(stg, fr, ext, tmp, 'L')
    except BaseException as e:
        return [f"raised {type(e).__name__}: {e}"]
    finally:
        shutil.rmtree(tmp, ignore_errors=True)


LARGE = (17, 70001)          # more than 2**20 samples, odd sizes: block- or slab-wise conversions must not lose a remainder


def job_large_frame(asc, ext):
    """one frame of more than a million samples (odd row and column counts) through the real writer and readers"""
    recs = []
    probs = _large_roundtrip(asc, ext, LARGE)
    name = f"C03:large-frame:{(asc, ext)}"
    r, _ = core.check([RV(len(probs)) != 0])
    recs.append(q(name, r, trivial=True, shape=str(LARGE), detail=str(probs[:2])))
    if probs:
        recs.append(cex('C03:large-frame', f"a {LARGE} frame, {ext} round trip: {probs[:2]}", dict(fn='large', asc=asc, ext=ext), name=name))
    return recs


def replay_large(p):
    probs = _large_roundtrip(p['asc'], p['ext'], LARGE)
    return bool(probs), f"{LARGE} frame, {p['ext']}: {probs[:2]}" if probs else 'large frame round trip ok'


def job_subband_files(asc, ext):
    """real files: load a channel window of a saved frame (by file name + f_start/f_stop and through a blimpy Waterfall),
    then save and reload it"""
    import logging
    import shutil
    import tempfile
    import setigen as stg
    from blimpy import Waterfall
    logging.disable(logging.CRITICAL)
    recs = []
    tmp = tempfile.mkdtemp(prefix='c03_', dir='/var/tmp')
    bad = []
    try:
        for (T, Fc, df, dt, fch1) in ((3, 12, 2.0, 1.0, 1.0e9), (4, 16, 2.7939677238464355, 18.253611008, 6.0e9)):      # blimpy's HDF5 reader needs >= 3 rows and channels
            fr = stg.Frame(fchans=Fc, tchans=T, df=df, dt=dt, fch1=fch1, ascending=asc, t_start=1.7e9, source_name='SRC', seed=0)
            fr.data = (np.arange(T)[:, None] * 64.0 + np.arange(Fc)[None, :] + 1.0)
            fn = os.path.join(tmp, f'full.{ext}')
            (fr.save_fil if ext == 'fil' else fr.save_h5)(fn)
            for (a, b) in ((0, 4), (3, 9), (Fc - 5, Fc)):
                # blimpy selections are half-open towards the far edge: [f_a, f_b) in ascending frequency terms
                if asc:
                    lo, hi = fr.fs[a] * 1e-6, (fr.fs[b - 1] + df) * 1e-6
                else:
                    lo, hi = (fr.fs[a] - df) * 1e-6, fr.fs[b - 1] * 1e-6
                for route in ('filename', 'waterfall'):
                    try:
                        g = stg.Frame(waterfall=fn, f_start=lo, f_stop=hi) if route == 'filename' else stg.Frame(waterfall=Waterfall(fn, f_start=lo, f_stop=hi))
                        probs = []
                        if g.shape != (T, b - a) or not np.allclose(g.data, fr.data[:, a:b]) or not np.allclose(g.fs, fr.fs[a:b], rtol=0, atol=df * 1e-6):
                            probs.append(f"sub-band [{a},{b}) loaded as shape {g.shape}, fs[0]={g.fs[0]!r} (expected {fr.fs[a]!r})")
                        else:
                            want = fr.get_slice(a, b)
                            g.t_start, g.source_name = g.t_start, g.source_name
                            probs += check_roundtrip(stg, g, ext, tmp, 'sb')
                    except BaseException as e:
                        probs = [f"raised {type(e).__name__}: {e}"]
                    if probs:
                        bad.append(((T, Fc), (a, b), route, probs[:2]))
    finally:
        shutil.rmtree(tmp, ignore_errors=True)
    r, _ = core.check([RV(len(bad)) != 0])
    recs.append(q(f"C03:subband-files:{(asc, ext)}", r, trivial=True, detail=str(bad[:2])))
    if bad:
        recs.append(cex('C03:subband', f"sub-band load: {bad[0]}", dict(fn='subband', asc=asc), name=f"C03:subband-files:{(asc, ext)}"))
    return recs


def job_tiny_files(asc):
    """single-row / single-channel frames (spectra, time series) through real .fil files (blimpy's HDF5 reader cannot
    open such files, so filterbank only)"""
    import logging
    import shutil
    import tempfile
    import setigen as stg
    logging.disable(logging.CRITICAL)
    recs = []
    tmp = tempfile.mkdtemp(prefix='c03_', dir='/var/tmp')
    bad = []
    try:
        for (T, Fc) in ((1, 6), (5, 1), (1, 1)):
            fr = stg.Frame(fchans=Fc, tchans=T, df=2.0, dt=1.0, fch1=1.0e9, ascending=asc, t_start=1.7e9, source_name='SRC', seed=0)
            fr.data = (np.arange(T)[:, None] * 64.0 + np.arange(Fc)[None, :] + 1.0)
            fn = os.path.join(tmp, 't.fil')
            try:
                fr.save_fil(fn)
                g = stg.Frame(waterfall=fn)
                from setigen import waterfall_utils as wu
                d = wu.get_data(fn)
                probs = []
                if g.shape != (T, Fc) or np.shape(g.data) != (T, Fc) or not np.allclose(g.data, fr.data) or not np.allclose(g.fs, fr.fs, rtol=0, atol=2e-6):
                    probs.append(f"reloaded as shape {g.shape} / data {np.shape(g.data)}")
                if np.shape(d) != (T, Fc) or len(wu.get_fs(fn)) != Fc or len(wu.get_ts(fn)) != T:
                    probs.append(f"helpers: get_data {np.shape(d)}, get_fs {len(wu.get_fs(fn))}, get_ts {len(wu.get_ts(fn))}")
            except BaseException as e:
                probs = [f"raised {type(e).__name__}: {e}"]
            if probs:
                bad.append(((T, Fc), probs))
    finally:
        shutil.rmtree(tmp, ignore_errors=True)
    r, _ = core.check([RV(len(bad)) != 0])
    recs.append(q(f"C03:tiny-files:{asc}", r, trivial=True, detail=str(bad[:2])))
    if bad:
        recs.append(cex('C03:tiny', f"single-row / single-channel frame: {bad[0]}", dict(fn='tiny', asc=asc), name=f"C03:tiny-files:{asc}"))
    return recs


# ---------------------------------------------------------------- (A) helper axes, delta model
class HdrWf:
    """Waterfall stand-in for the helper functions"""
    def __init__(self, fch1, foff, nchans, tsamp, nints):
        self.header = {'fch1': fch1, 'foff': foff, 'nchans': nchans, 'tsamp': tsamp}
        self.container = Container()
        self.container.selection_shape = (nints, 1, nchans)
        self.data = np.zeros((nints, 1, nchans))


def job_helper_axes(nchans, nints, desc):
    fp.reset()
    recs = []
    tag = f"C03:helpers:{(nchans, nints, desc)}"
    pre = []
    fch1 = FSym.var('fch1', 1.0, 1e5, pre)
    adf = FSym.var('adf', 1e-7, 10.0, pre)
    tsamp = FSym.var('tsamp', 1e-6, 1e3, pre)
    pre.append(fch1.t >= RV(2 * nchans) * adf.t)
    foff = -adf if desc else adf
    px = npx.NPProxy()

    def run():
        w = HdrWf(fch1, foff, nchans, tsamp, nints)
        return WU.get_fs(w), WU.get_ts(w)
    with shadow.patched_many([(WU, dict(np=px, Waterfall=HdrWf, **shadow.DEFAULT_BUILTINS))]):
        leaves = core.explore(run, pre, cap=40)
    conds = []
    for li, leaf in enumerate(leaves):
        conds.append(leaf.cond())
        base = pre + leaf.pc + leaf.side + list(fp.SIDE)
        name = f"{tag}:leaf{li}"
        if leaf.kind == 'exc':
            r, m = core.check(base)
            recs.append(q(name, r, detail=repr(leaf.value)))
            continue
        fs, ts = leaf.value
        okl = len(fs) == nchans and len(ts) == nints
        dis = [z3.BoolVal(not okl)]
        if okl:
            # values within a few ulp of the exact grid
            for j in (0, nchans - 1):
                ex = fch1.t + j * lift(foff)
                dis.append(z3.Or(lift(fs[j]) - ex > RV(4 * 2.0 ** -52) * fch1.t, ex - lift(fs[j]) > RV(4 * 2.0 ** -52) * fch1.t))
            for i in (0, nints - 1):
                ex = i * tsamp.t
                dis.append(z3.Or(lift(ts[i]) - ex > RV(4 * 2.0 ** -52) * (ex + 1), ex - lift(ts[i]) > RV(4 * 2.0 ** -52) * (ex + 1)))
        r, m = core.check(base + [z3.Or(*dis)], timeout_ms=60000)
        recs.append(q(name, r, lens=(len(fs), len(ts))))
        if r == 'sat':
            recs.append(cex('C03:helpers:length' if not okl else 'C03:helpers:values', f"get_fs / get_ts return {len(fs)} / {len(ts)} values for nchans={nchans}, n_ints={nints} in binary64 (candidate)",
                            dict(fn='helpers', nchans=nchans, nints=nints, desc=desc, fch1=core.model_float(m, fch1), adf=core.model_float(m, adf), tsamp=core.model_float(m, tsamp)), name=name))
    r, _ = core.check(pre + list(fp.SIDE) + [z3.Not(z3.Or(*conds))], timeout_ms=60000)
    recs.append(q(f"{tag}:split-complete", r, leaves=len(leaves)))
    return recs


def job_loaded_axes(T, Fc, desc):
    """binary64 (delta model): a frame built by the load branch has exactly the file's integration / channel counts on
    its own axes (ts, fs, ts_ext), i.e. the same lengths the stand-alone helpers report"""
    fp.reset()
    recs = []
    tag = f"C03:loaded-axes:{(T, Fc, desc)}"
    pre = []
    fch1 = FSym.var('fch1', 1.0, 1e5, pre)          # MHz
    adf = FSym.var('adf', 1e-7, 10.0, pre)
    tsamp = FSym.var('tsamp', 1e-6, 1e3, pre)
    pre.append(fch1.t >= RV(2 * Fc) * adf.t)
    foff = -adf if desc else adf
    px = npx.NPProxy()

    def run():
        w = WStub()
        w.header.update({'fch1': fch1, 'foff': foff, 'tsamp': tsamp, 'nchans': Fc, 'source_name': 'SRC'})
        w.container.selection_shape = (T, 1, Fc)
        if desc:
            w.container.f_stop, w.container.f_start = fch1, fch1 + foff * Fc
        else:
            w.container.f_start, w.container.f_stop = fch1, fch1 + foff * Fc
        w.data = np.zeros((T, 1, Fc))
        fr = FR.Frame(waterfall=w)
        return fr, fr.ts_ext, WU.get_ts(w), WU.get_fs(w)
    with frame_patches(proxy=px, extra=[(FR, dict(Waterfall=WStub, sigproc=SigprocStub, unit_utils=UnitStub, Time=TimeStub)), (WU, dict(Waterfall=WStub, np=px))]):
        leaves = core.explore(run, pre, cap=60)
    conds = []
    for li, leaf in enumerate(leaves):
        conds.append(leaf.cond())
        base = pre + leaf.pc + leaf.side + list(fp.SIDE)
        name = f"{tag}:leaf{li}"
        if leaf.kind == 'exc':
            r, m = core.check(base, timeout_ms=30000)
            recs.append(q(name, r, detail=repr(leaf.value)))
            if r == 'sat':
                recs.append(cex('C03:loaded-axes:raise', f"loading raises in the binary64 model: {leaf.value!r} (candidate)", dict(fn='loaded', T=T, Fc=Fc, desc=desc, tsamp=core.model_float(m, tsamp), adf=core.model_float(m, adf), fch1=core.model_float(m, fch1)), name=name))
            continue
        fr, ext, hts, hfs = leaf.value
        lens = (len(fr.ts), len(fr.fs), len(ext), len(hts), len(hfs))
        ok = lens == (T, Fc, T + 1, T, Fc) and fr.shape == (T, Fc)
        r, m = core.check(base + [z3.BoolVal(not ok)], timeout_ms=30000)
        recs.append(q(name, r, lens=lens))
        if r == 'sat':
            recs.append(cex(f'C03:loaded-axes:T{T}', f"loaded frame has axes of {lens[:3]} entries (helpers {lens[3:]}) for a file of {T} integrations x {Fc} channels in binary64 (candidate)",
                            dict(fn='loaded', T=T, Fc=Fc, desc=desc, tsamp=core.model_float(m, tsamp), adf=core.model_float(m, adf), fch1=core.model_float(m, fch1)), name=name))
    r, _ = core.check(pre + list(fp.SIDE) + [z3.Not(z3.Or(*conds))], timeout_ms=60000)
    recs.append(q(f"{tag}:split-complete", r, leaves=len(leaves)))
    return recs


def replay_loaded(p):
    """real .fil/.h5 files of T integrations; candidate tsamp plus a sweep of unlucky-looking resolutions"""
    import logging
    import shutil
    import tempfile
    import setigen as stg
    logging.disable(logging.CRITICAL)
    T, Fc = max(p['T'], 3), max(p['Fc'], 4)
    rng = np.random.default_rng(1)
    cands = [p['tsamp'], 18.253611008, 1.431655765333332, 17.986224128, 0.1, 1.0737418239999999] + [float(10 ** rng.uniform(-3, 2)) for _ in range(40)]
    tmp = tempfile.mkdtemp(prefix='c03l_', dir='/var/tmp')
    try:
        for k, dt in enumerate(cands):
            for TT in sorted({T, 3, 6, 12, 93, 97, 115, 125}):
                src = stg.Frame(fchans=Fc, tchans=TT, df=p['adf'] * 1e6 if k == 0 else 2.7939677238464355, dt=dt, fch1=6e9, ascending=not p['desc'], seed=0)
                src.data = np.arange(TT * Fc, dtype=float).reshape(TT, Fc)
                fn = os.path.join(tmp, f"f{k}_{TT}.{'fil' if k % 2 else 'h5'}")
                (src.save_fil if k % 2 else src.save_h5)(fn)
                fr = stg.Frame(waterfall=fn)
                lens = (len(fr.ts), len(fr.fs), len(fr.ts_ext), len(stg.get_ts(fn)), len(stg.get_fs(fn)))
                if lens != (TT, Fc, TT + 1, TT, Fc) or fr.shape != (TT, Fc):
                    return True, f"file of {TT} integrations (tsamp={dt!r}) x {Fc} channels loads with axes of {lens[:3]} entries (helpers {lens[3:]})"
    finally:
        shutil.rmtree(tmp, ignore_errors=True)
    return False, 'loaded frames have axes of exactly the file\'s counts on all candidates'


# ------------------------------------------------------------------ concrete oracles
def replay_history(p):
    import logging
    import shutil
    import tempfile
    import setigen as stg
    logging.disable(logging.CRITICAL)
    tmp = tempfile.mkdtemp(prefix='c03_', dir='/var/tmp')
    msgs = []
    try:
        for (T, Fc, df, dt, fch1) in ((3, 8, 2.0, 1.0, 1.0e9), (4, 6, 2.7939677238464355, 18.253611008, 6.0e9)):
            for ext in ('fil', 'h5'):
                fr = stg.Frame(fchans=Fc, tchans=T, df=df, dt=dt, fch1=fch1, ascending=p['asc'], t_start=1.7e9, source_name='SRC', seed=0)
                fr.data = (np.arange(T)[:, None] * 64.0 + np.arange(Fc)[None, :] + 1.0)
                ops = list(p['ops'])
                if p.get('stale') and 'get_waterfall' not in ops:
                    ops = ['get_waterfall'] + ops
                ops = [o for o in ops if o in OPS]
                try:
                    fr = apply_history(stg, fr, ops, ext, tmp, 'r')
                    decoy = stg.Frame(fchans=Fc + 2, tchans=T, df=df * 2, dt=dt, fch1=fch1 / 2, ascending=not p['asc'], t_start=1.6e9, source_name='OTHER', seed=1)
                    decoy.get_waterfall()
                    probs = check_roundtrip(stg, fr, ext, tmp, 'r')
                except Exception as e:
                    probs = [f"raised {type(e).__name__}: {e}"]
                if probs:
                    msgs.append(f"{ops} {ext} {(T, Fc)}: {probs[:2]}")
    finally:
        shutil.rmtree(tmp, ignore_errors=True)
    return bool(msgs), '; '.join(msgs[:3]) or 'round trips preserve data and registration'


def replay_helpers(p):
    from setigen import waterfall_utils as wu
    n, ni = p['nchans'], p['nints']
    cands = [(p['fch1'], p['adf'], p['tsamp']), (6000.0, 1e-6, 18.253611008), (8000.0, 2.7939677238464355e-06, 1.0737418239999999), (1420.0, 1e-3, 0.1), (1.0, 1e-7, 1e-6)]
    rng = np.random.default_rng(0)
    cands += [(float(rng.uniform(100, 10000)), float(10 ** rng.uniform(-7, 0)), float(10 ** rng.uniform(-3, 2))) for _ in range(300)]
    for fch1, adf, ts in cands:
        for nn in (n, 256, 1024):
            w = HdrWf(fch1, -adf if p['desc'] else adf, nn, ts, ni)
            import blimpy
            w.__class__ = type('W', (blimpy.Waterfall,), {'__init__': lambda s: None})
            w2 = w.__class__()
            w2.header, w2.container = {'fch1': fch1, 'foff': -adf if p['desc'] else adf, 'nchans': nn, 'tsamp': ts}, w.container
            w2.container.selection_shape = (ni, 1, nn)
            fs, tsx = wu.get_fs(w2), wu.get_ts(w2)
            if len(fs) != nn or len(tsx) != ni:
                return True, f"get_fs(fch1={fch1!r}, foff={-adf if p['desc'] else adf!r}, nchans={nn}) has {len(fs)} values; get_ts has {len(tsx)} for {ni} integrations"
    return False, 'helper axes have exactly nchans / n_ints entries on all candidates'


def replay_subband(p):
    msgs = []
    for ext in ('fil', 'h5'):
        recs = job_subband_files(p['asc'], ext)
        msgs += [r['what'] for r in recs if r['kind'] == 'cex']
    return bool(msgs), '; '.join(msgs[:2]) or 'sub-band loads registered correctly'


def replay_tiny(p):
    recs = job_tiny_files(p['asc'])
    bad = [r['what'] for r in recs if r['kind'] == 'cex']
    return bool(bad), bad[0] if bad else 'tiny frames round-trip'


REPLAYS = {'large': replay_large, 'history': replay_history, 'helpers': replay_helpers, 'subband': replay_subband, 'tiny': replay_tiny, 'loaded': replay_loaded}


def main():
    ck = Check('C03', 'Save/load through .fil/.h5 preserves data and axis registration')
    ck.functions = ['Frame._update_waterfall', 'Frame.__init__ (load branch)', 'Frame.get_waterfall', 'Frame.save_fil', 'Frame.save_hdf5', 'Frame.copy', 'Frame.from_data', 'slice.get_slice', 'dedrift.dedrift',
                    'waterfall_utils.get_fs', 'waterfall_utils.get_ts', 'waterfall_utils.min_freq', 'waterfall_utils.max_freq', 'waterfall_utils.get_data']
    ck.files = ['setigen/frame.py', 'setigen/waterfall_utils.py', 'setigen/slice.py', 'setigen/dedrift.py']
    ck.stubs = ['(S) blimpy.Waterfall -> stand-in; blimpy header/container handling between write and read transcribed (validated by the real-file histories of the same run); astropy Time unix<->MJD linear; unit conversion MHz<->Hz',
                '(H) nothing stubbed: real blimpy, sigproc and HDF5 on identity-coded payloads', '(A) Waterfall header stand-in; numpy.arange in the delta model']
    ck.assumptions = ['RESTRICTED claim: payload byte serialisation (sigproc / HDF5) is compiled I/O, exercised concretely with an identity-coded payload, not quantified; float32 quantisation of intensities outside',
                      'histories: operation ORDER enumerated up to length 3 (+ final save/load), two geometries, both orientations and containers; contents concrete', 'Hz<->MHz scaling accounted exactly (1e-6*1e6 within 1 ulp of 1)']
    jobs = []
    for asc in (False, True):
        for (T, Fc) in ((1, 1), (1, 3), (3, 1)):
            jobs.append(('job_chain', (T, Fc, asc, None)))
        jobs.append(('job_chain_subband', (1, 1, asc)))
        jobs.append(('job_tiny_files', (asc,)))
        for (T, Fc) in ((2, 3), (3, 4)):
            jobs.append(('job_chain', (T, Fc, asc, None)))
            jobs.append(('job_chain', (T, Fc, asc, (T + 1, Fc + 4))))
        for (T, n) in ((2, 3), (1, 4)):
            jobs.append(('job_chain_subband', (T, n, asc)))
        for ext in ('fil', 'h5'):
            jobs.append(('job_subband_files', (asc, ext)))
            jobs.append(('job_histories', (asc, ext, None, 1)))
            jobs.append(('job_large_frame', (asc, ext)))
            for op in OPS:
                jobs.append(('job_histories', (asc, ext, op, 2 if not ck.thorough else 3)))
    for (nchans, nints) in ((1, 1), (7, 3), (16, 16)) + (((64, 8),) if ck.thorough else ()):
        for desc in (True, False):
            jobs.append(('job_helper_axes', (nchans, nints, desc)))
    for (T, Fc) in ((1, 1), (3, 2), (6, 4), (16, 3)) + (((12, 8), (32, 2)) if ck.thorough else ()):
        for desc in (True, False):
            jobs.append(('job_loaded_axes', (T, Fc, desc)))
    ck.bounds = dict(chain_shapes='2x3, 3x4 (symbolic content/geometry), stale Waterfall of another shape', history_length='<= 2 ops (thorough 3) before the final save', helper_axes='nchans up to 16 (thorough 64), symbolic header values', loaded_axes='files of up to 16 integrations (thorough 32), binary64 delta model')
    ck.run_jobs('props.C03', jobs, timeout_s=2400)
    ck.finish()


if __name__ == '__main__':
    main()
