"""shared harness pieces for the Frame-based properties (C01, C05, C06, C13, C16, C17)."""
import contextlib
import numpy as np
import z3

from symx import core, npx, shadow
from symx.core import Sym, SymB, lift, UF, RV
from symx.report import use_repo

use_repo()
import setigen  # noqa: E402
from setigen import frame as F  # noqa: E402
from setigen.funcs import f_profiles, t_profiles, paths, bp_profiles, func_utils  # noqa: E402
from setigen import unit_utils  # noqa: E402


def sigma_clip_stub(data, *a, **k):
    """environment stub for astropy.stats.sigma_clip (compiled/iterative code):
    contract used: returns (a subset of) the data; here the data itself."""
    return data


class TimeStub:
    def __init__(self, now=1.0e9):
        self.now = now

    def time(self):
        return self.now


def frame_patches(proxy=None, extra=None):
    """patch set for setigen.frame and the funcs modules"""
    proxy = proxy or npx.NPProxy()
    b = dict(shadow.DEFAULT_BUILTINS)
    specs = [
        (F, dict(np=proxy, sigma_clip=sigma_clip_stub, **b)),
        (f_profiles, dict(np=proxy, **b)),
        (t_profiles, dict(np=proxy, **b)),
        (paths, dict(np=proxy, **b)),
        (func_utils, dict(np=proxy, wofz=wofz_stub, **b)),
    ]
    if extra:
        specs += extra
    return shadow.patched_many(specs)


def wofz_stub(z):
    """scipy.special.wofz as a pair of uninterpreted functions of (re, im)"""
    def one(e):
        e = core.SymC.of(e)
        return core.SymC(Sym(UF('WOFZ_RE', 2)(e.re.t, e.im.t)), Sym(UF('WOFZ_IM', 2)(e.re.t, e.im.t)))
    if isinstance(z, np.ndarray):
        return npx._map(one, z)
    return one(z)


def geom_syms(tag=''):
    df = z3.Real(f'df{tag}')
    dt = z3.Real(f'dt{tag}')
    fch1 = z3.Real(f'fch1{tag}')
    pre = [df > 0, dt > 0]
    return Sym(df), Sym(dt), Sym(fch1), pre


def make_frame(tchans, fchans, ascending, df, dt, fch1, **kw):
    """real Frame.__init__ executed under the proxy (call inside frame_patches)."""
    return F.Frame(fchans=fchans, tchans=tchans, df=df, dt=dt, fch1=fch1, ascending=ascending, **kw)


def sym_data(tchans, fchans, name='D'):
    a = np.empty((tchans, fchans), dtype=object)
    for i in range(tchans):
        for j in range(fchans):
            a[i, j] = Sym(z3.Real(f'{name}_{i}_{j}'))
    return a.view(npx.SymArr)


def uf1(name):
    f = UF(name, 1)

    def call(x):
        if isinstance(x, np.ndarray):
            return npx._map(lambda e: Sym(f(lift(e))), x)
        return Sym(f(lift(x)))
    call.uf = f
    return call


def uf2(name):
    f = UF(name, 2)

    def call(x, y):
        if isinstance(x, np.ndarray) or isinstance(y, np.ndarray):
            return npx._map2(lambda a, b: Sym(f(lift(a), lift(b))), x, y)
        return Sym(f(lift(x), lift(y)))
    call.uf = f
    return call


def terms_equal_query(pairs, pre, side=()):
    """-> assertions for: exists a pair (impl, spec) with impl != spec"""
    dis = [lift(a) != lift(b) for a, b in pairs]
    return list(pre) + list(side) + [z3.Or(*dis) if dis else z3.BoolVal(False)]


def table_fn(rows, els, arity):
    """Python callable from a z3 function table (vectorised over numpy arrays)"""
    def scalar(*args):
        for a, v in rows:
            if all(abs(float(x) - y) <= 1e-9 * max(1.0, abs(y)) for x, y in zip(args, a)):
                return v
        return els

    def f(*args):
        if any(isinstance(a, np.ndarray) for a in args):
            bs = np.broadcast_arrays(*[np.asarray(a, dtype=float) for a in args])
            out = np.empty(bs[0].shape)
            for idx in np.ndindex(bs[0].shape):
                out[idx] = scalar(*[b[idx] for b in bs])
            return out
        return scalar(*args)
    return f
