"""shared harness pieces for the Frame-based properties (C01, C05, C06, C13, C16, C17)."""
import contextlib
import numpy as np
import z3

from symx import core, npx, shadow
from symx.core import Sym, SymB, lift, UF, RV
from symx.report import use_repo

use_repo()
import setigen  # noqa: E402
from setigen import frame as F  # noqa: E402
from setigen.funcs import f_profiles, t_profiles, paths, bp_profiles, func_utils  # noqa: E402
from setigen import unit_utils  # noqa: E402


def sigma_clip_stub(data, *a, **k):
    """environment stub for astropy.stats.sigma_clip (compiled/iterative code):
    contract used: returns (a subset of) the data; here the data itself."""
    return data


class TimeStub:
    def __init__(self, now=1.0e9):
        self.now = now

    def time(self):
        return self.now


from fractions import Fraction as _Fr
UNIT_SCALE = {'Hz': ('f', _Fr(1)), 'kHz': ('f', _Fr(10 ** 3)), 'MHz': ('f', _Fr(10 ** 6)), 'GHz': ('f', _Fr(10 ** 9)), 'mHz': ('f', _Fr(1, 1000)),
              's': ('t', _Fr(1)), 'ms': ('t', _Fr(1, 1000)), 'ks': ('t', _Fr(1000)),
              'Hz / s': ('r', _Fr(1)), 'kHz / s': ('r', _Fr(1000)), 'mHz / s': ('r', _Fr(1, 1000)), 'MHz / s': ('r', _Fr(10 ** 6)), 'Hz / ms': ('r', _Fr(1000)),
              'pix': ('p', _Fr(1))}          # exact decimal factors (the binary64 rounding of astropy's factors is outside the claim)


class SQ:
    """symbolic stand-in for an astropy Quantity: a term and a unit name; converts within one dimension, keeps the
    unit through multiplication / division by plain numbers (what astropy does)"""
    def __init__(self, v, unit):
        self.v, self.unit = v, str(unit)
        if self.unit not in UNIT_SCALE:
            raise core.HarnessError(f"SQ: unit {self.unit!r} not modelled")

    def to(self, unit):
        a, b = UNIT_SCALE[self.unit], UNIT_SCALE.get(str(unit))
        if b is None or a[0] != b[0]:
            raise core.HarnessError(f"SQ: conversion {self.unit} -> {unit}")
        k = a[1] / b[1]
        return SQ(self.v if k == 1 else self.v * Sym(z3.Q(k.numerator, k.denominator)), unit)

    value = property(lambda s: s.v)

    def _k(self, o, f):
        if isinstance(o, SQ):
            raise core.HarnessError("SQ: quantity-by-quantity arithmetic not modelled")
        return SQ(f(self.v, o), self.unit)

    __mul__ = lambda s, o: s._k(o, lambda a, b: a * b)
    __rmul__ = __mul__
    __truediv__ = lambda s, o: s._k(o, lambda a, b: a / b)
    __neg__ = lambda s: SQ(-s.v, s.unit)
    __abs__ = lambda s: SQ(abs(s.v), s.unit)


class UnitStubSym:
    """setigen.unit_utils over SQ (real astropy Quantities and plain numbers go to the real module)"""
    @staticmethod
    def cast_value(value, unit):
        if isinstance(value, SQ):
            return value.to(unit)
        if core.is_num(value) or isinstance(value, Sym):
            return SQ(value, unit)
        from setigen import unit_utils
        return unit_utils.cast_value(value, unit)

    @staticmethod
    def get_value(value, unit=None):
        if isinstance(value, SQ):
            return value.to(unit).value if unit is not None else value.value
        from setigen import unit_utils
        return unit_utils.get_value(value, unit)


def frame_patches(proxy=None, extra=None, units=False):
    """patch set for setigen.frame and the funcs modules (units=True: unit handling over symbolic quantities SQ)"""
    proxy = proxy or npx.NPProxy()
    b = dict(shadow.DEFAULT_BUILTINS)
    uu = dict(unit_utils=UnitStubSym) if units else {}
    specs = [
        (F, dict(np=proxy, sigma_clip=sigma_clip_stub, **uu, **b)),
        (f_profiles, dict(np=proxy, **uu, **b)),
        (t_profiles, dict(np=proxy, **uu, **b)),
        (paths, dict(np=proxy, **uu, **b)),
        (func_utils, dict(np=proxy, wofz=wofz_stub, **b)),
    ]
    if extra:
        specs += extra
    return shadow.patched_many(specs)


def wofz_stub(z):
    """scipy.special.wofz as a pair of uninterpreted functions of (re, im)"""
    def one(e):
        e = core.SymC.of(e)
        return core.SymC(Sym(UF('WOFZ_RE', 2)(e.re.t, e.im.t)), Sym(UF('WOFZ_IM', 2)(e.re.t, e.im.t)))
    if isinstance(z, np.ndarray):
        return npx._map(one, z)
    return one(z)


def geom_syms(tag=''):
    df = z3.Real(f'df{tag}')
    dt = z3.Real(f'dt{tag}')
    fch1 = z3.Real(f'fch1{tag}')
    pre = [df > 0, dt > 0]
    return Sym(df), Sym(dt), Sym(fch1), pre


def make_frame(tchans, fchans, ascending, df, dt, fch1, **kw):
    """real Frame.__init__ executed under the proxy (call inside frame_patches)."""
    return F.Frame(fchans=fchans, tchans=tchans, df=df, dt=dt, fch1=fch1, ascending=ascending, **kw)


def sym_data(tchans, fchans, name='D'):
    a = np.empty((tchans, fchans), dtype=object)
    for i in range(tchans):
        for j in range(fchans):
            a[i, j] = Sym(z3.Real(f'{name}_{i}_{j}'))
    return a.view(npx.SymArr)


def uf1(name):
    f = UF(name, 1)

    def call(x):
        if isinstance(x, np.ndarray):
            return npx._map(lambda e: Sym(f(lift(e))), x)
        return Sym(f(lift(x)))
    call.uf = f
    return call


def uf2(name):
    f = UF(name, 2)

    def call(x, y):
        if isinstance(x, np.ndarray) or isinstance(y, np.ndarray):
            return npx._map2(lambda a, b: Sym(f(lift(a), lift(b))), x, y)
        return Sym(f(lift(x), lift(y)))
    call.uf = f
    return call


def terms_equal_query(pairs, pre, side=()):
    """-> assertions for: exists a pair (impl, spec) with impl != spec"""
    dis = [lift(a) != lift(b) for a, b in pairs]
    return list(pre) + list(side) + [z3.Or(*dis) if dis else z3.BoolVal(False)]


def table_fn(rows, els, arity):
    """Python callable from a z3 function table (vectorised over numpy arrays)"""
    def scalar(*args):
        for a, v in rows:
            if all(abs(float(x) - y) <= 1e-9 * max(1.0, abs(y)) for x, y in zip(args, a)):
                return v
        return els

    def f(*args):
        if any(isinstance(a, np.ndarray) for a in args):
            bs = np.broadcast_arrays(*[np.asarray(a, dtype=float) for a in args])
            out = np.empty(bs[0].shape)
            for idx in np.ndindex(bs[0].shape):
                out[idx] = scalar(*[b[idx] for b in bs])
            return out
        return scalar(*args)
    return f
