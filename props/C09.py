"""C09 -- quantisers: monotone affine maps into the signed b-bit range, stated refresh schedule.

E1: the real quantize_real / quantize_complex / RealQuantizer.quantize / ComplexQuantizer.quantize /
estimate_stats run on symbolic inputs.  Monotonicity is discharged as three lemmas (the monolithic
query -- symbolic scale times input under ToInt -- is `unknown`).  The refresh schedule is checked as one
inductive step from an arbitrary counter state satisfying the invariant, plus unrolled call sequences.
"""
import time

import numpy as np
import z3

from fractions import Fraction
from symx import core, npx, fp
from symx.core import Sym, SymC, lift, RV
from symx.report import Check, q, cex, note
from props.volt_common import Q, DS, volt_patches, sym_stream, cparts


core.INT64_WRAP[0] = True     # "huge ... NaN-free extremes" are in scope: model the int64 cast of out-of-range floats


def clip_rne_term(y, bits):
    lo, hi = -2 ** (bits - 1), 2 ** (bits - 1) - 1
    r = lift(core.rne(Sym(y)))
    return z3.If(r < lo, RV(lo), z3.If(r > hi, RV(hi), r))


def stats_spec(xs, k):
    """mean and variance (population) of the first k samples as terms"""
    k = min(k, len(xs))
    mu = sum(xs[1:k], xs[0]) / k
    var = sum([(x - mu) * (x - mu) for x in xs[1:k]], (xs[0] - mu) * (xs[0] - mu)) / k
    return mu, var


def job_real(n, bits, mode, nstat):
    """quantize_real on n symbolic samples. mode: 'auto' (estimate), 'given' (data_mean/std symbolic)"""
    recs = []
    tag = f"C09:real:{(n, bits, mode, nstat)}"
    tm, tsd = Sym(z3.Real('target_mean')), Sym(z3.Real('target_std'))
    pre = [tsd.t >= 0]
    x = sym_stream('x', n)
    xs = [lift(e) for e in x]
    dm, dsd = Sym(z3.Real('data_mean')), Sym(z3.Real('data_std'))
    if mode == 'given':
        pre.append(dsd.t >= 0)

    def run():
        if mode == 'auto':
            return with_stats_stub(lambda: Q.quantize_real(x, target_mean=tm, target_std=tsd, num_bits=bits, stats_calc_num_samples=nstat))
        return Q.quantize_real(x, target_mean=tm, target_std=tsd, num_bits=bits, data_mean=dm, data_std=dsd, stats_calc_num_samples=nstat), None
    with volt_patches():
        leaves = core.explore(run, pre, cap=50)
    lo, hi = -2 ** (bits - 1), 2 ** (bits - 1) - 1
    conds = []
    for li, leaf in enumerate(leaves):
        conds.append(leaf.cond())
        base = pre + leaf.pc + leaf.side
        name = f"{tag}:leaf{li}"
        if leaf.kind == 'exc':
            r, m = core.check(base)
            recs.append(q(name + ':noexc', r, detail=repr(leaf.value)))
            if r == 'sat':
                recs.append(cex('C09:raise', f'quantize_real raised {leaf.value!r}', payload(m, x, tm, tsd, bits, mode, dm, dsd, nstat), name=name + ':noexc'))
            continue
        out, st = leaf.value
        if out.shape != (n,):
            recs.append(q(name + ':shape', 'sat'))
            continue
        qs = [lift(e) for e in out]
        # statistics the scale must be built from
        stat = []
        if mode == 'auto':
            # exactly one estimate, of this very array with the configured prefix length
            okcall = len(st.calls) == 1 and len(st.calls[0][0]) == n and st.calls[0][1] == nstat and all(a is b for a, b in zip(st.calls[0][0], list(x)))
            r0, _ = core.check([RV(int(okcall)) != 1])
            recs.append(q(name + ':estimates-from-own-prefix', r0, trivial=True))
            if not okcall:
                recs.append(cex('C09:stats-call', 'statistics are not taken once from the leading samples of the input', payload_nomodel(n, bits, mode, nstat), name=name + ':estimates-from-own-prefix'))
                continue
            mu, sd = st.calls[0][2].t, st.calls[0][3].t
        else:
            mu, sd = dm.t, dsd.t
        y = [z3.If(sd == 0, tm.t, (tsd.t / sd) * (xv - mu) + tm.t) for xv in xs]
        spec = [clip_rne_term(yv, bits) for yv in y]
        # (a) range and integrality: by composition of (b) with the single-variable lemma
        #     "clip(rne(y)) is an integer within [lo, hi] for every real y" (job_monotone_lemmas);
        #     here the cheap direct part: bounds of the executed terms
        r, m = core.check(base + [z3.Or(*[z3.Or(v < lo, v > hi) for v in qs])], timeout_ms=60000)
        recs.append(q(name + ':range', r))
        if r == 'sat':
            recs.append(cex('C09:range', 'quantised value outside the signed range', payload(m, x, tm, tsd, bits, mode, dm, dsd, nstat), name=name + ':range'))
        # (b) value == clip(rne(affine)) with the stated statistics
        r, m = core.check(base + stat + [z3.Or(*[a != b for a, b in zip(qs, spec)])], timeout_ms=120000)
        recs.append(q(name + ':value', r))
        if r == 'sat':
            recs.append(cex('C09:value', 'quantised value differs from clip(round((target_std/data_std)*(x-data_mean)+target_mean))', payload(m, x, tm, tsd, bits, mode, dm, dsd, nstat), name=name + ':value'))
    r, _ = core.check(pre + [z3.Not(z3.Or(*conds))])
    recs.append(q(f"{tag}:split-complete", r, leaves=len(leaves)))
    return recs


def job_monotone_lemmas(bits):
    """(ii) f >= 0 and x1 <= x2  =>  y1 <= y2 ;  (iii) y1 <= y2  =>  clip(rne(y1)) <= clip(rne(y2))"""
    recs = []
    f, x1, x2, mu, m0 = z3.Reals('f x1 x2 mu m0')
    r, _ = core.check([f >= 0, x1 <= x2, f * (x1 - mu) + m0 > f * (x2 - mu) + m0], timeout_ms=60000)
    recs.append(q(f"C09:monotone:{bits}:affine", r))
    y1, y2 = z3.Reals('y1 y2')
    # rne is monotone: stated through floor variables with the difference as its own integer
    k1, k2, dk = z3.Ints('k1 k2 dk')
    fl1, fl2 = z3.ToReal(k1), z3.ToReal(k1) + z3.ToReal(dk)
    half = RV(0.5)

    def rne_k(y, fl, k):
        d = y - fl
        return z3.If(d < half, fl, z3.If(d > half, fl + 1, z3.If(k % 2 == 0, fl, fl + 1)))
    lo, hi = -2 ** (bits - 1), 2 ** (bits - 1) - 1
    clip = lambda v: z3.If(v < lo, RV(lo), z3.If(v > hi, RV(hi), v))
    r, _ = core.check([fl1 <= y1, y1 < fl1 + 1, fl2 <= y2, y2 < fl2 + 1, k2 == k1 + dk, y1 <= y2,
                       clip(rne_k(y1, fl1, k1)) > clip(rne_k(y2, fl2, k2))], timeout_ms=60000)
    recs.append(q(f"C09:monotone:{bits}:round-clip", r))
    # the floor-variable form is the same function as the executor's rne (single variable: decidable directly)
    y = z3.Real('y')
    ky = z3.ToInt(y)
    r, _ = core.check([lift(core.rne(Sym(y))) != rne_k(y, z3.ToReal(ky), ky)], timeout_ms=60000)
    recs.append(q(f"C09:monotone:{bits}:rne-encoding-equivalence", r))
    # range/integrality lemma for every real y
    cy = clip_rne_term(y, bits)
    fy = z3.ToReal(ky)
    r, _ = core.check([z3.Or(cy < lo, cy > hi, z3.And(cy != fy, cy != fy + 1, cy != lo, cy != hi))], timeout_ms=60000)
    recs.append(q(f"C09:range-lemma:{bits}", r))
    # twin: strict monotonicity is NOT claimed and must be refutable
    r, _ = core.check([fl1 <= y1, y1 < fl1 + 1, fl2 <= y2, y2 < fl2 + 1, k2 == k1 + dk, y1 < y2,
                       clip(rne_k(y1, fl1, k1)) >= clip(rne_k(y2, fl2, k2))], timeout_ms=60000)
    recs.append(q(f"C09:monotone:{bits}:twin", r, expect='sat'))
    return recs


def job_monotone_exec(n, bits):
    """the executed term is monotone per element given the lemmas: q_i = clip(rne(y_i)), and two elements of one
    call share f, mean and target (so x_i <= x_j => q_i <= q_j).  Decided directly on small bit widths."""
    recs = []
    tag = f"C09:monotone-exec:{(n, bits)}"
    tm, tsd, dm, dsd = (Sym(z3.Real(nm)) for nm in ('target_mean', 'target_std', 'data_mean', 'data_std'))
    pre = [tsd.t >= 0, dsd.t >= 0]
    x = sym_stream('x', n)

    def run():
        return Q.quantize_real(x, target_mean=tm, target_std=tsd, num_bits=bits, data_mean=dm, data_std=dsd)
    with volt_patches():
        leaves = core.explore(run, pre, cap=10)
    for li, leaf in enumerate(leaves):
        out = leaf.value
        base = pre + leaf.pc + leaf.side
        # shared-scale structure: q_i == clip(rne(F*(x_i - MU) + M)) for *some* F >= 0, MU, M common to all i
        Fv, MU, M = z3.Reals('F MU M')
        fdef = z3.If(dsd.t == 0, RV(0), tsd.t / dsd.t)
        r, m = core.check(base + [Fv == fdef, MU == dm.t, M == tm.t, z3.Or(*[lift(out[i]) != clip_rne_term(Fv * (lift(x[i]) - MU) + M, bits) for i in range(n)])], timeout_ms=60000)
        recs.append(q(f"{tag}:leaf{li}:shared-scale", r))
        r, m = core.check(base + [Fv == fdef, Fv < 0], timeout_ms=60000)
        recs.append(q(f"{tag}:leaf{li}:scale-nonneg", r))
        if r == 'sat':
            recs.append(cex('C09:monotone', 'scale factor can be negative', payload(m, x, tm, tsd, bits, 'given', dm, dsd, 10000), name=f"{tag}:leaf{li}:scale-nonneg"))
    return recs


class StatsStub:
    """stands in for data_stream.estimate_stats inside value queries: returns fresh symbols (MU_k, SD_k >= 0)
    and records what it was asked about; the real estimate_stats is checked on its own in job_stats"""

    def __init__(self):
        self.calls = []

    def __call__(self, voltages, stats_calc_num_samples=10000, **kw):
        k = len(self.calls)
        mu, sd = Sym(z3.Real(f'MU_{k}')), Sym(z3.Real(f'SD_{k}'))
        core.side(sd.t >= 0)
        self.calls.append((list(voltages), stats_calc_num_samples, mu, sd))
        if any(v is False for v in kw.values()):
            return mu, None             # an option that skips part of the estimate: that part is simply absent
        return mu, sd


def with_stats_stub(fn):
    st = StatsStub()
    old = DS.estimate_stats
    DS.estimate_stats = st
    try:
        return fn(), st
    finally:
        DS.estimate_stats = old


def job_stats(n, k):
    """the real estimate_stats: mean and (population) deviation of the first min(k, n) samples"""
    recs = []
    x = sym_stream('x', n)
    with volt_patches():
        leaf = core.run_single(lambda: DS.estimate_stats(x, k), [])
    mu, sd = leaf.value
    smu, svar = stats_spec([lift(e) for e in x], k)
    r, m = core.check(leaf.side + [z3.Or(lift(mu) != smu, lift(sd) * lift(sd) != svar, lift(sd) < 0)], timeout_ms=60000)
    recs.append(q(f"C09:stats:{(n, k)}", r))
    if r == 'sat':
        recs.append(cex('C09:stats', 'estimate_stats is not mean/std of the first min(k, n) samples', dict(fn='stats', n=n, k=k), name=f"C09:stats:{(n, k)}"))
    return recs


PEDESTAL = 2 ** 20        # |mean| <= PEDESTAL * deviation: the inputs the rounded-arithmetic claim is made for
STATS_TOL = Fraction(1, 2 ** 30)


def job_stats_rounded(n, k):
    """the real estimate_stats in the rounded-real model of binary64 (every + - * / carries its own relative error
    |d| <= 2^-53): for samples riding on a pedestal of up to 2^20 deviations, the variance under the returned deviation
    is within 2^-30 (relative) of the exact variance of the leading samples, the mean within 2^-50.
    (Exact-real equality cannot see an algebraically equal but numerically unstable estimator; this can.)"""
    recs = []
    tag = f"C09:stats-rounded:{(n, k)}"
    fp.reset()
    x = npx.sarr([fp.FSym(z3.Real(f'x{i}')) for i in range(n)])
    with volt_patches():
        leaf = core.run_single(lambda: DS.estimate_stats(x, k), [])
    mu, sd = leaf.value
    xs = [z3.Real(f'x{i}') for i in range(n)]
    smu, svar = stats_spec(xs, k)
    var_c = getattr(sd, 'radicand', None)
    if var_c is None:
        var_c = lift(sd) * lift(sd)
    pre = [svar > 0, smu * smu <= PEDESTAL * PEDESTAL * svar]
    tol = RV(STATS_TOL)
    pl = dict(fn='stats_rounded', n=n, k=k)
    t0 = time.time()
    r, m = core.check(pre + leaf.side + list(fp.SIDE) + [z3.Or(var_c - svar > tol * svar, svar - var_c > tol * svar, lift(sd) < 0)], timeout_ms=300000)
    recs.append(q(tag + ':deviation', r, ms=(time.time() - t0) * 1000, deltas=len(fp.SIDE)))
    if r == 'sat':
        recs.append(cex('C09:stats-rounded', 'in binary64 the returned deviation can be off by more than 2^-30 (relative, in variance) for samples on a pedestal of <= 2^20 deviations', pl, name=tag + ':deviation'))
    tolm = RV(Fraction(1, 2 ** 50))
    r, m = core.check(pre + leaf.side + list(fp.SIDE) + [z3.Or(lift(mu) - smu > tolm * z3.If(smu >= 0, smu, -smu), smu - lift(mu) > tolm * z3.If(smu >= 0, smu, -smu))], timeout_ms=300000)
    recs.append(q(tag + ':mean', r))
    if r == 'sat':
        recs.append(cex('C09:stats-rounded', 'in binary64 the returned mean can be off by more than 2^-50 (relative)', pl, name=tag + ':mean'))
    # twin: without the pedestal bound the claim is not expected to hold (the bound is what makes it true)
    r, _ = core.check([svar > 0] + leaf.side + list(fp.SIDE) + [var_c - svar > tol * svar], timeout_ms=60000)
    recs.append(q(tag + ':twin-unbounded-pedestal', r, expect='sat'))
    return recs


def replay_stats_rounded(p):
    from setigen.voltage import data_stream as ds
    rng = np.random.default_rng(11)
    msgs = []
    k = min(p['k'], p['n'])
    for off, amp in ((1e5, 1.0), (-3e5, 1.0), (1e3, 1e-2), (0.0, 1.0), (7e4, 0.5)):
        for trial in range(3):
            x = off + amp * rng.standard_normal(max(p['n'], 64))
            x = x[:max(p['n'], 2)] if trial == 0 else x
            kk = k if trial == 0 else min(p['k'] if p['k'] > p['n'] else 40, len(x))
            mu, sd = ds.estimate_stats(x, kk)
            fx = [Fraction(float(v)) for v in x[:kk]]
            em = sum(fx) / len(fx)
            ev = sum((v - em) ** 2 for v in fx) / len(fx)
            if ev == 0 or em * em > PEDESTAL ** 2 * ev:
                continue
            gv = Fraction(float(sd)) ** 2
            # sqrt and its squaring add a few ulp: far below the 2^-30 tolerance
            if abs(gv - ev) > STATS_TOL * ev or sd < 0:
                msgs.append(f"pedestal {off:g}, spread {amp:g}, {kk} samples: deviation {float(sd)!r}, exact {float(ev) ** 0.5!r} (relative error in variance {float(abs(gv - ev) / ev):.3g})")
            if abs(Fraction(float(mu)) - em) > Fraction(1, 2 ** 45) * abs(em):
                msgs.append(f"pedestal {off:g}: mean {float(mu)!r}, exact {float(em)!r}")
    return bool(msgs), '; '.join(msgs[:3]) or 'estimate_stats is accurate on pedestal inputs'


class Counter:
    def __init__(self, fn):
        self.fn, self.calls = fn, 0
        self.impl = fn

    def __call__(self, *a, **k):
        self.calls += 1
        return self.impl(*a, **k)


def job_refresh_step(sign):
    """one quantize() call from an arbitrary counter state satisfying the invariant"""
    recs = []
    tag = f"C09:refresh-step:{sign}"
    p = z3.Int('p')
    idx = z3.Int('idx')
    P, I = Sym(z3.ToReal(p), True), Sym(z3.ToReal(idx), True)
    if sign == 'pos':
        pre = [p > 0, idx >= 0, idx < p]
    else:
        pre = [p <= 0, idx >= 1]
    x = sym_stream('x', 3)
    old_mu, old_sd = Sym(z3.Real('old_mu')), Sym(z3.Real('old_sd'))

    def run():
        cnt = Counter(DS.estimate_stats)
        DS.estimate_stats = cnt
        try:
            qz = Q.RealQuantizer(num_bits=8, stats_calc_period=P, stats_calc_num_samples=2)
            qz.stats_calc_indices = I
            qz.stats_cache = [old_mu, old_sd]
            out = qz.quantize(x)
            return qz.stats_calc_indices, cnt.calls, qz.stats_cache, out
        finally:
            DS.estimate_stats = cnt.fn
    with volt_patches():
        leaves = core.explore(run, pre, cap=50)
    conds = []
    for li, leaf in enumerate(leaves):
        conds.append(leaf.cond())
        base = pre + leaf.pc + leaf.side
        if leaf.kind == 'exc':
            r, _ = core.check(base)
            recs.append(q(f"{tag}:leaf{li}:noexc", r, detail=repr(leaf.value)))
            continue
        idx2, calls, cache, out = leaf.value
        i2 = lift(idx2)
        refreshed = calls > 0
        if sign == 'pos':
            want = z3.If(idx + 1 == p, 0, idx + 1)
            claims = [i2 != z3.ToReal(want), z3.Not(z3.And(i2 >= 0, i2 < z3.ToReal(p))), z3.BoolVal(refreshed) != (idx == 0)]
        else:
            claims = [i2 != z3.ToReal(idx + 1), i2 < 1, z3.BoolVal(refreshed)]
        r, m = core.check(base + [z3.Or(*claims)], timeout_ms=60000)
        recs.append(q(f"{tag}:leaf{li}", r, refreshed=refreshed))
        if r == 'sat':
            recs.append(cex(f'C09:refresh:{sign}', 'refresh schedule: counter step / refresh decision differs from "calls 0,p,2p,... (p>0), first call only (p<=0)"',
                            dict(fn='refresh', p=int(str(m.eval(p, model_completion=True))), idx=int(str(m.eval(idx, model_completion=True)))), name=f"{tag}:leaf{li}"))
        # when not refreshed the cached statistics are the old ones
        if not refreshed:
            r, _ = core.check(base + [z3.Or(lift(cache[0]) != old_mu.t, lift(cache[1]) != old_sd.t)])
            recs.append(q(f"{tag}:leaf{li}:cache-kept", r))
    r, _ = core.check(pre + [z3.Not(z3.Or(*conds))])
    recs.append(q(f"{tag}:split-complete", r, leaves=len(leaves)))
    return recs


def job_refresh_unrolled(ncalls):
    """call sequence from a fresh quantiser with symbolic period: refresh exactly on calls 0,p,2p,.. / only call 0"""
    recs = []
    tag = f"C09:refresh-unrolled:{ncalls}"
    p = z3.Int('p')
    P = Sym(z3.ToReal(p), True)
    pre = [p >= -3, p <= ncalls + 2]

    def run():
        cnt = Counter(DS.estimate_stats)
        DS.estimate_stats = cnt
        try:
            qz = Q.RealQuantizer(num_bits=4, stats_calc_period=P, stats_calc_num_samples=2)
            log = []
            for c in range(ncalls):
                before = cnt.calls
                qz.quantize(sym_stream(f'x{c}', 2))
                log.append(cnt.calls > before)
            return log
        finally:
            DS.estimate_stats = cnt.fn
    with volt_patches():
        leaves = core.explore(run, pre, cap=400)
    conds = []
    for li, leaf in enumerate(leaves):
        conds.append(leaf.cond())
        log = leaf.value
        want = [z3.If(p > 0, c % p == 0, c == 0) for c in range(ncalls)]
        r, m = core.check(pre + leaf.pc + [z3.Or(*[z3.BoolVal(bool(a)) != w for a, w in zip(log, want)])], timeout_ms=60000)
        recs.append(q(f"{tag}:leaf{li}", r, log=''.join('R' if a else '.' for a in log)))
        if r == 'sat':
            recs.append(cex('C09:refresh:sequence', f"refresh pattern {''.join('R' if a else '.' for a in log)} for period {m.eval(p, model_completion=True)}",
                            dict(fn='refresh_seq', p=int(str(m.eval(p, model_completion=True))), ncalls=ncalls), name=f"{tag}:leaf{li}"))
    r, _ = core.check(pre + [z3.Not(z3.Or(*conds))])
    recs.append(q(f"{tag}:split-complete", r, leaves=len(leaves)))
    return recs


def job_object(n, bits, custom, rebits=False):
    """RealQuantizer.quantize and ComplexQuantizer.quantize: value = clip(rne(..)) with cached prefix statistics
    (or the custom deviation); complex = two independent real quantisers with separate statistics.
    rebits: the quantiser is constructed with the default 8 bits and the bit depth is then assigned on it and on its two
    parts -- exactly what RawVoltageBackend.from_data does for a 4-bit input; the output range follows the assignment"""
    recs = []
    tag = f"C09:object:{(n, bits, custom)}" + (':bits-reassigned' if rebits else '')
    xr, xi = sym_stream('xr', n), sym_stream('xi', n)
    z = npx.sarr([SymC(a, b) for a, b in zip(xr, xi)])
    cs = {'none': None, 'scalar': Sym(z3.Real('cs')), 'pair': [Sym(z3.Real('cs_r')), Sym(z3.Real('cs_i'))]}[custom]
    pre = []
    if custom == 'scalar':
        pre = [cs.t > 0]
    elif custom == 'pair':
        pre = [cs[0].t > 0, cs[1].t > 0]
    nstat = 2

    def run():
        def body():
            if rebits:
                cq = Q.ComplexQuantizer(target_fwhm=32, stats_calc_num_samples=nstat)
                cq.num_bits = cq.quantizer_r.num_bits = cq.quantizer_i.num_bits = bits
            else:
                cq = Q.ComplexQuantizer(target_fwhm=32, num_bits=bits, stats_calc_num_samples=nstat)
            out = cq.quantize(z, custom_stds=cs)
            return out, cq
        (out, cq), st = with_stats_stub(body)
        return out, cq, st
    with volt_patches():
        leaves = core.explore(run, pre, cap=60)
    conds = []
    tstd = 32 / (2 * np.sqrt(2 * np.log(2)))
    for li, leaf in enumerate(leaves):
        conds.append(leaf.cond())
        base = pre + leaf.pc + leaf.side
        if leaf.kind == 'exc':
            r, _ = core.check(base)
            recs.append(q(f"{tag}:leaf{li}:noexc", r, detail=repr(leaf.value)))
            if r == 'sat':
                recs.append(cex('C09:object:raise', f'quantize raised {leaf.value!r}', dict(fn='object', n=n, bits=bits, custom=custom, rebits=rebits), name=f"{tag}:leaf{li}:noexc"))
            continue
        out, cq, st = leaf.value
        # two estimates: one of the real parts, one of the imaginary parts, each of its own prefix
        okcall = (len(st.calls) == 2 and all(a is b for a, b in zip(st.calls[0][0], list(xr))) and all(a is b for a, b in zip(st.calls[1][0], list(xi)))
                  and st.calls[0][1] == nstat and st.calls[1][1] == nstat and len(st.calls[0][0]) == n and len(st.calls[1][0]) == n)
        r0, _ = core.check([RV(int(okcall)) != 1])
        recs.append(q(f"{tag}:leaf{li}:separate-estimates", r0, trivial=True))
        if not okcall:
            recs.append(cex('C09:object:stats', 'real/imaginary statistics are not estimated separately from their own parts', dict(fn='object', n=n, bits=bits, custom=custom, rebits=rebits), name=f"{tag}:leaf{li}:separate-estimates"))
            continue
        for part, xs_, sel in (('re', xr, 0), ('im', xi, 1)):
            xs = [lift(e) for e in xs_]
            mu, sd = st.calls[sel][2].t, st.calls[sel][3].t
            if custom == 'none':
                div = sd
            elif custom == 'scalar':
                div = cs.t
            else:
                div = cs[sel].t
            spec = [clip_rne_term(z3.If(div == 0, RV(0), (RV(tstd) / div) * (xv - mu) + RV(0)), bits) for xv in xs]
            got = [cparts(out[i])[sel] for i in range(n)]
            r, m = core.check(base + [z3.Or(*[a != b for a, b in zip(got, spec)])], timeout_ms=120000)
            recs.append(q(f"{tag}:leaf{li}:{part}", r))
            if r == 'sat':
                recs.append(cex(f'C09:object:{part}', f'{part} part of ComplexQuantizer output is not the real quantiser of that part alone', dict(fn='object', n=n, bits=bits, custom=custom, rebits=rebits), name=f"{tag}:leaf{li}:{part}"))
        # cached statistics exposed by the complex quantiser are the two separate estimates
        cached = [cq.stats_cache_r[0], cq.stats_cache_r[1], cq.stats_cache_i[0], cq.stats_cache_i[1]]
        if any(c is None for c in cached):
            cl = [z3.BoolVal(True)]          # a refresh must leave both estimates of both parts in the cache
        else:
            cl = [lift(cached[0]) != st.calls[0][2].t, lift(cached[1]) != st.calls[0][3].t,
                  lift(cached[2]) != st.calls[1][2].t, lift(cached[3]) != st.calls[1][3].t]
        r, _ = core.check(base + [z3.Or(*cl)], timeout_ms=60000)
        recs.append(q(f"{tag}:leaf{li}:separate-stats", r))
        if r == 'sat':
            recs.append(cex('C09:object:cache', 'the cached statistics of the real and the imaginary quantiser are not the two separate estimates', dict(fn='object', n=n, bits=bits, custom=custom, rebits=rebits), name=f"{tag}:leaf{li}:separate-stats"))
    r, _ = core.check(pre + [z3.Not(z3.Or(*conds))])
    recs.append(q(f"{tag}:split-complete", r, leaves=len(leaves)))
    return recs


def job_complex_sequence(period, ncalls, bits, customs=None, kinds=None):
    """several calls of one ComplexQuantizer: between refreshes each part is scaled with ITS OWN cached estimates.
    customs: per call, 'c' = a custom deviation pair is supplied on that call, 'n' = none
    kinds: per call, 'z' = complex-typed input, 'r' = a real-typed array (its imaginary part is the zero array: a legal
    zero-variance input that is quantised and counted like any other)"""
    recs = []
    customs = customs or 'n' * ncalls
    kinds = kinds or 'z' * ncalls
    tag = f"C09:complex-seq:{(period, ncalls, bits, customs)}" + (f":{kinds}" if 'r' in kinds else '')
    n, nstat = 2, 2
    ins = [(sym_stream(f'xr{c}', n), sym_stream(f'xi{c}', n) if kinds[c] == 'z' else [0.0] * n) for c in range(ncalls)]
    cst = [[Sym(z3.Real(f'cs{c}_r')), Sym(z3.Real(f'cs{c}_i'))] if customs[c] == 'c' else None for c in range(ncalls)]
    pre_c = [v.t > 0 for pr in cst if pr for v in pr]

    def run():
        def body():
            cq = Q.ComplexQuantizer(target_fwhm=32, num_bits=bits, stats_calc_period=period, stats_calc_num_samples=nstat)
            return [cq.quantize(npx.sarr([SymC(a, b) for a, b in zip(xr, xi)]) if kinds[c] == 'z' else npx.sarr(list(xr)), custom_stds=cst[c]) for c, (xr, xi) in enumerate(ins)], cq
        (outs, cq), st = with_stats_stub(body)
        return outs, cq, st
    with volt_patches():
        leaves = core.explore(run, pre_c, cap=4000)
    tstd = 32 / (2 * np.sqrt(2 * np.log(2)))
    conds = []
    for li, leaf in enumerate(leaves):
        conds.append(leaf.cond())
        base = pre_c + leaf.pc + leaf.side
        name = f"{tag}:leaf{li}"
        pl = dict(fn='object', n=3, bits=bits, custom='none', customs=customs, period=period, kinds=kinds)
        if leaf.kind == 'exc':
            r, _ = core.check(base)
            recs.append(q(name + ':noexc', r, detail=repr(leaf.value)))
            if r == 'sat':
                recs.append(cex('C09:complex-seq:raise', f'quantize raised {leaf.value!r}', pl, name=name + ':noexc'))
            continue
        outs, cq, st = leaf.value
        refresh = [c for c in range(ncalls) if (period > 0 and c % period == 0) or c == 0]
        # estimates are taken on the refresh calls only, one of each part, from that call's own samples
        okcalls = len(st.calls) == 2 * len(refresh) and all(
            all(a is b for a, b in zip(st.calls[2 * k][0], list(ins[c][0]))) and
            (all(a is b for a, b in zip(st.calls[2 * k + 1][0], list(ins[c][1]))) if kinds[c] == 'z' else all(core.const_value(lift(a)) == 0 for a in st.calls[2 * k + 1][0]))
            for k, c in enumerate(refresh))
        r0, _ = core.check([RV(int(okcalls)) != 1])
        recs.append(q(name + ':estimates', r0, trivial=True, detail=f"{len(st.calls)} estimates for refresh calls {refresh}"))
        if not okcalls:
            recs.append(cex('C09:complex-seq:estimates', f'statistics are not taken separately per part on calls {refresh} (period {period})', pl, name=name + ':estimates'))
            continue
        dis = []
        for c in range(ncalls):
            k = max(i for i, rc in enumerate(refresh) if rc <= c)
            for sel in (0, 1):
                mu, sd = st.calls[2 * k + sel][2].t, st.calls[2 * k + sel][3].t
                if cst[c] is not None:
                    sd = cst[c][sel].t
                for j in range(n):
                    xv = lift(ins[c][sel][j])
                    spec = clip_rne_term(z3.If(sd == 0, RV(0), (RV(tstd) / sd) * (xv - mu) + RV(0)), bits)
                    dis.append(cparts(outs[c][j])[sel] != spec)
        r, m = core.check(base + [z3.Or(*dis)], timeout_ms=120000)
        recs.append(q(name, r, calls=ncalls))
        if r == 'sat':
            recs.append(cex('C09:complex-seq:values', f'period {period}: a part of the complex quantiser is not scaled with its own estimates of the last refresh', pl, name=name))
    r, _ = core.check(pre_c + [z3.Not(z3.Or(*conds))] if conds else [])
    recs.append(q(f"{tag}:split-complete", r, leaves=len(leaves)))
    return recs


def job_real_sequence(period, ncalls, bits):
    """several same-sized calls of one RealQuantizer, all results kept by the caller and judged at the end: each is
    still the quantisation of its own input with the estimates of the last refresh (results do not share storage)"""
    recs = []
    tag = f"C09:real-seq:{(period, ncalls, bits)}"
    n, nstat = 2, 2
    ins = [sym_stream(f'x{c}', n) for c in range(ncalls)]

    def run():
        def body():
            qz = Q.RealQuantizer(target_fwhm=32, num_bits=bits, stats_calc_period=period, stats_calc_num_samples=nstat)
            return [qz.quantize(x) for x in ins]
        outs, st = with_stats_stub(body)
        return outs, st
    with volt_patches():
        leaves = core.explore(run, [], cap=300)
    tstd = 32 / (2 * np.sqrt(2 * np.log(2)))
    conds = []
    pl = dict(fn='real_seq', period=period, ncalls=ncalls, bits=bits)
    for li, leaf in enumerate(leaves):
        conds.append(leaf.cond())
        base = leaf.pc + leaf.side
        name = f"{tag}:leaf{li}"
        if leaf.kind == 'exc':
            r, _ = core.check(base)
            recs.append(q(name + ':noexc', r, detail=repr(leaf.value)))
            if r == 'sat':
                recs.append(cex('C09:real-seq:raise', f'quantize raised {leaf.value!r}', pl, name=name + ':noexc'))
            continue
        outs, st = leaf.value
        refresh = [c for c in range(ncalls) if (period > 0 and c % period == 0) or c == 0]
        if len(st.calls) != len(refresh):
            recs.append(q(name + ':estimates', 'sat', detail=f"{len(st.calls)} estimates for refresh calls {refresh}"))
            recs.append(cex('C09:real-seq:estimates', f'period {period}: statistics taken {len(st.calls)} times over {ncalls} calls', pl, name=name + ':estimates'))
            continue
        dis = []
        shared = any(outs[a] is outs[b] for a in range(ncalls) for b in range(a))
        for c in range(ncalls):
            k = max(i for i, rc in enumerate(refresh) if rc <= c)
            mu, sd = st.calls[k][2].t, st.calls[k][3].t
            for j in range(n):
                spec = clip_rne_term(z3.If(sd == 0, RV(0), (RV(tstd) / sd) * (lift(ins[c][j]) - mu) + RV(0)), bits)
                dis.append(lift(outs[c][j]) != spec)
        r, m = core.check(base + [z3.Or(z3.BoolVal(shared), *dis)], timeout_ms=120000)
        recs.append(q(name, r, calls=ncalls, shared=shared))
        if r == 'sat':
            recs.append(cex('C09:real-seq:values', f'period {period}: a result kept from an earlier call is no longer the quantisation of its own input (results share storage: {shared})', pl, name=name))
    r, _ = core.check([z3.Not(z3.Or(*conds))] if conds else [])
    recs.append(q(f"{tag}:split-complete", r, leaves=len(leaves)))
    return recs


def replay_real_seq(p):
    from setigen.voltage import quantization as qz
    rng = np.random.default_rng(3)
    bits, period = p['bits'], p['period']
    z = qz.RealQuantizer(target_fwhm=32, num_bits=bits, stats_calc_period=period, stats_calc_num_samples=8)
    tstd = 32 / (2 * np.sqrt(2 * np.log(2)))
    xs = [rng.normal(c, 2 + c, 64) for c in range(4)]
    outs, est, want = [], None, []
    for c, x in enumerate(xs):
        outs.append(z.quantize(x))
        if (period > 0 and c % period == 0) or c == 0:
            est = (np.mean(x[:8]), np.std(x[:8]))
        want.append(ref_q(x, 0.0, tstd, bits, est[0], est[1]))
    bad = [f"result of call {c} no longer equals the quantisation of its input ({int(np.sum(np.asarray(o).astype(int) != w))} of 64 samples)" for c, (o, w) in enumerate(zip(outs, want)) if not np.array_equal(np.asarray(o).astype(int), w)]
    if any(np.shares_memory(outs[a], outs[b]) for a in range(4) for b in range(a)):
        bad.append('results of different calls share memory')
    return bool(bad), '; '.join(bad[:3]) or 'kept results stay valid'


def job_reset_cache(kind, before, after, pc=None):
    """_reset_cache() puts a quantiser back into its initial refresh state whatever calls came before
    (period symbolic for the real quantiser, concrete pc for the complex one)"""
    recs = []
    tag = f"C09:reset-cache:{(kind, before, after, pc)}"
    p = z3.Int('p')
    P = Sym(z3.ToReal(p), True) if pc is None else pc
    pre = [p >= -2, p <= before + after + 1] if pc is None else [p == pc]

    def run():
        real_est = DS.estimate_stats
        cnt = Counter(real_est)
        cnt.impl = lambda v, n=10000, **kw: (0.0, 1.0)          # only the refresh schedule matters here
        DS.estimate_stats = cnt
        try:
            if kind == 'real':
                qz = Q.RealQuantizer(num_bits=4, stats_calc_period=P, stats_calc_num_samples=2)
                call = lambda c: qz.quantize(sym_stream(f'x{c}', 2))
            else:
                qz = Q.ComplexQuantizer(num_bits=4, stats_calc_period=P, stats_calc_num_samples=2)
                call = lambda c: qz.quantize(npx.sarr([SymC(a, b) for a, b in zip(sym_stream(f'xr{c}', 2), sym_stream(f'xi{c}', 2))]))
            for c in range(before):
                call(c)
            qz._reset_cache()
            caches = [qz.stats_cache] if kind == 'real' else [qz.stats_cache_r, qz.stats_cache_i, qz.quantizer_r.stats_cache, qz.quantizer_i.stats_cache]
            cleared = all(list(cc) == [None, None] for cc in caches)
            log = []
            for c in range(after):
                b = cnt.calls
                call(before + c)
                log.append(cnt.calls - b)
            return cleared, log
        finally:
            DS.estimate_stats = cnt.fn
    with volt_patches(extra=[(Q, dict(quantize_real=lambda x, **k: x))]):
        leaves = core.explore(run, pre, cap=600)
    per = 1 if kind == 'real' else 2
    conds = []
    for li, leaf in enumerate(leaves):
        conds.append(leaf.cond())
        name = f"{tag}:leaf{li}"
        if leaf.kind == 'exc':
            r, m = core.check(pre + leaf.pc)
            recs.append(q(name + ':noexc', r, detail=repr(leaf.value)))
            continue
        cleared, log = leaf.value
        want = [z3.If(z3.If(p > 0, c % p == 0, c == 0), per, 0) for c in range(after)]
        r, m = core.check(pre + leaf.pc + [z3.Or(z3.BoolVal(not cleared), *[z3.IntVal(a) != w for a, w in zip(log, want)])], timeout_ms=60000)
        recs.append(q(name, r, log=str(log)))
        if r == 'sat':
            recs.append(cex(f'C09:reset-cache:{kind}', f"after {before} calls and _reset_cache() the statistics were taken {log} times on the next calls (caches cleared: {cleared}); a fresh quantiser refreshes on calls 0, p, 2p, ...",
                            dict(fn='reset', kind=kind, before=before, after=after, p=int(str(m.eval(p, model_completion=True)))), name=name))
    r, _ = core.check(pre + [z3.Not(z3.Or(*conds))])
    recs.append(q(f"{tag}:split-complete", r, leaves=len(leaves)))
    return recs


def replay_reset(p):
    from setigen.voltage import quantization as qz, data_stream as ds
    cnt = Counter(ds.estimate_stats)
    ds.estimate_stats = cnt
    rng = np.random.default_rng(1)
    try:
        z = qz.RealQuantizer(num_bits=4, stats_calc_period=p['p'], stats_calc_num_samples=2) if p['kind'] == 'real' else qz.ComplexQuantizer(num_bits=4, stats_calc_period=p['p'], stats_calc_num_samples=2)
        mk = (lambda: rng.normal(size=4)) if p['kind'] == 'real' else (lambda: rng.normal(size=4) + 1j * rng.normal(size=4))
        for c in range(p['before']):
            z.quantize(mk())
        z._reset_cache()
        log = []
        for c in range(p['after']):
            b = cnt.calls
            z.quantize(mk())
            log.append(cnt.calls - b)
    finally:
        ds.estimate_stats = cnt.fn
    per = 1 if p['kind'] == 'real' else 2
    want = [per if ((c % p['p'] == 0) if p['p'] > 0 else (c == 0)) else 0 for c in range(p['after'])]
    return log != want, f"{p['kind']} quantiser, period {p['p']}: after {p['before']} calls and _reset_cache() statistics were taken {log} times per call, a fresh quantiser takes {want}"


def job_qcomplex(n, bits):
    """module-level quantize_complex: two independent quantize_real calls with their own statistics"""
    recs = []
    tag = f"C09:quantize_complex:{(n, bits)}"
    xr, xi = sym_stream('xr', n), sym_stream('xi', n)
    z = npx.sarr([SymC(a, b) for a, b in zip(xr, xi)])
    tm, tsd = Sym(z3.Real('target_mean')), Sym(z3.Real('target_std'))
    pre = [tsd.t >= 0]

    def run():
        return with_stats_stub(lambda: Q.quantize_complex(z, target_mean=tm, target_std=tsd, num_bits=bits, stats_calc_num_samples=2))
    with volt_patches():
        leaves = core.explore(run, pre, cap=60)
    conds = []
    for li, leaf in enumerate(leaves):
        conds.append(leaf.cond())
        base = pre + leaf.pc + leaf.side
        if leaf.kind == 'exc':
            r, _ = core.check(base)
            recs.append(q(f"{tag}:leaf{li}:noexc", r, detail=repr(leaf.value)))
            continue
        out, st = leaf.value
        ok = len(st.calls) == 2 and all(a is b for a, b in zip(st.calls[0][0], list(xr))) and all(a is b for a, b in zip(st.calls[1][0], list(xi)))
        r0, _ = core.check([RV(int(ok)) != 1])
        recs.append(q(f"{tag}:leaf{li}:separate-estimates", r0, trivial=True))
        if not ok:
            recs.append(cex('C09:object:stats', 'quantize_complex statistics not separate', dict(fn='object', n=n, bits=bits, custom='none'), name=f"{tag}:leaf{li}:separate-estimates"))
            continue
        dis = []
        for sel, xs_ in ((0, xr), (1, xi)):
            mu, sd = st.calls[sel][2].t, st.calls[sel][3].t
            for i in range(n):
                y = z3.If(sd == 0, tm.t, (tsd.t / sd) * (lift(xs_[i]) - mu) + tm.t)
                dis.append(cparts(out[i])[sel] != clip_rne_term(y, bits))
        r, m = core.check(base + [z3.Or(*dis)], timeout_ms=120000)
        recs.append(q(f"{tag}:leaf{li}", r))
        if r == 'sat':
            recs.append(cex('C09:quantize_complex', 'quantize_complex is not two independent real quantisations', dict(fn='object', n=n, bits=bits, custom='none'), name=f"{tag}:leaf{li}"))
    r, _ = core.check(pre + [z3.Not(z3.Or(*conds))])
    recs.append(q(f"{tag}:split-complete", r, leaves=len(leaves)))
    return recs


def job_zero_variance(bits):
    """constant input: every element maps to clip(rne(target_mean)); no division is executed"""
    recs = []
    c, tm = Sym(z3.Real('c')), Sym(z3.Real('target_mean'))
    x = npx.sarr([c, c, c])

    def run():
        return Q.quantize_real(x, target_mean=tm, target_std=RV_(13.0), num_bits=bits, stats_calc_num_samples=10)
    with volt_patches():
        leaves = core.explore(run, [], cap=10)
    for li, leaf in enumerate(leaves):
        base = leaf.pc + leaf.side
        feas, _ = core.check(base)
        if feas != 'sat':
            recs.append(q(f"C09:zero-variance:{bits}:leaf{li}:infeasible", feas, trivial=True))
            continue
        if leaf.kind == 'exc':
            recs.append(q(f"C09:zero-variance:{bits}:leaf{li}", 'sat', detail=repr(leaf.value)))
            recs.append(cex('C09:zero-variance', f'constant input raises {leaf.value!r}', dict(fn='zero', bits=bits), name=f"C09:zero-variance:{bits}:leaf{li}"))
            continue
        out = leaf.value
        r, m = core.check(base + [z3.Or(*[lift(e) != clip_rne_term(tm.t, bits) for e in out])], timeout_ms=60000)
        recs.append(q(f"C09:zero-variance:{bits}:leaf{li}", r))
        if r == 'sat':
            recs.append(cex('C09:zero-variance', 'constant input does not map to the target mean', dict(fn='zero', bits=bits), name=f"C09:zero-variance:{bits}:leaf{li}"))
    return recs


def RV_(v):
    return Sym(RV(v))


def payload_nomodel(n, bits, mode, nstat):
    rng = np.random.default_rng(3)
    return dict(fn='real', x=list(rng.normal(5, 20, n)), target_mean=1.0, target_std=13.0, bits=bits, mode=mode, data_mean=0.0, data_std=1.0, nstat=nstat)


def payload(m, x, tm, tsd, bits, mode, dm, dsd, nstat):
    mf = lambda t: core.model_float(m, t)
    return dict(fn='real', x=[mf(e) for e in x], target_mean=mf(tm), target_std=mf(tsd), bits=bits, mode=mode,
                data_mean=mf(dm), data_std=mf(dsd), nstat=nstat)


# ------------------------------------------------------------------ concrete oracles
def ref_q(x, tm, tsd, bits, mu, sd):
    y = np.full(len(x), float(tm)) if sd == 0 else (tsd / sd) * (np.asarray(x, float) - mu) + tm
    return np.clip(np.round(y), -2 ** (bits - 1), 2 ** (bits - 1) - 1).astype(int)


def replay_real(p):
    from setigen.voltage import quantization as qz
    x = np.array(p['x'], dtype=float)
    if p['mode'] == 'auto':
        k = min(p['nstat'], len(x))
        mu, sd = np.mean(x[:k]), np.std(x[:k])
        try:
            out = qz.quantize_real(x, target_mean=p['target_mean'], target_std=p['target_std'], num_bits=p['bits'], stats_calc_num_samples=p['nstat'])
        except Exception as e:
            return True, f"raised {e!r}"
    else:
        mu, sd = p['data_mean'], p['data_std']
        try:
            out = qz.quantize_real(x, target_mean=p['target_mean'], target_std=p['target_std'], num_bits=p['bits'], data_mean=mu, data_std=sd)
        except Exception as e:
            return True, f"raised {e!r}"
    want = ref_q(x, p['target_mean'], p['target_std'], p['bits'], mu, sd)
    # values whose pre-rounding value sits within 1e-6 of a tie are skipped (rounded reals vs binary64)
    y = np.full(len(x), float(p['target_mean'])) if sd == 0 else (p['target_std'] / sd) * (x - mu) + p['target_mean']
    near_tie = np.abs((y - np.floor(y)) - 0.5) < 1e-6
    bad = (np.asarray(out) != want) & ~near_tie
    rng_bad = (np.asarray(out) < -2 ** (p['bits'] - 1)) | (np.asarray(out) > 2 ** (p['bits'] - 1) - 1)
    return bool(bad.any() or rng_bad.any()), f"quantize_real -> {out!r}, specification {want!r}"


def replay_refresh(p):
    from setigen.voltage import quantization as qz, data_stream as ds
    cnt = Counter(ds.estimate_stats)
    ds.estimate_stats = cnt
    try:
        z = qz.RealQuantizer(num_bits=8, stats_calc_period=p['p'], stats_calc_num_samples=2)
        z.stats_calc_indices = p['idx']
        z.stats_cache = [0.0, 1.0]
        z.quantize(np.array([1.0, 2.0, 4.0]))
        idx2, refreshed = z.stats_calc_indices, cnt.calls > 0
    finally:
        ds.estimate_stats = cnt.fn
    if p['p'] > 0:
        ok = idx2 == (p['idx'] + 1) % p['p'] and refreshed == (p['idx'] == 0)
    else:
        ok = idx2 == p['idx'] + 1 and not refreshed
    return (not ok), f"period {p['p']}, counter {p['idx']} -> {idx2}, refreshed={refreshed}"


def replay_refresh_seq(p):
    from setigen.voltage import quantization as qz, data_stream as ds
    cnt = Counter(ds.estimate_stats)
    ds.estimate_stats = cnt
    try:
        z = qz.RealQuantizer(num_bits=4, stats_calc_period=p['p'], stats_calc_num_samples=2)
        log = []
        for c in range(p['ncalls']):
            b = cnt.calls
            z.quantize(np.array([1.0 + c, 2.0 * c]))
            log.append(cnt.calls > b)
    finally:
        ds.estimate_stats = cnt.fn
    want = [(c % p['p'] == 0) if p['p'] > 0 else (c == 0) for c in range(p['ncalls'])]
    return log != want, f"period {p['p']}: refreshed on calls {[i for i, a in enumerate(log) if a]}, expected {[i for i, a in enumerate(want) if a]}"


def replay_object(p):
    from setigen.voltage import quantization as qz
    rng = np.random.default_rng(5)
    n, bits = p['n'], p['bits']
    xr, xi = rng.normal(0, 3, n), rng.normal(1, 7, n)
    cs = {'none': None, 'scalar': 2.5, 'pair': [2.5, 0.5]}[p['custom']]
    if p.get('rebits'):
        # strong input, so that the narrower range matters
        xr, xi = xr * 4, xi * 4
        cq = qz.ComplexQuantizer(target_fwhm=32, stats_calc_num_samples=2)
        cq.num_bits = cq.quantizer_r.num_bits = cq.quantizer_i.num_bits = bits
    else:
        cq = qz.ComplexQuantizer(target_fwhm=32, num_bits=bits, stats_calc_num_samples=2)
    try:
        out = cq.quantize(xr + 1j * xi, custom_stds=cs)
    except Exception as e:
        return True, f"raised {e!r}"
    tstd = 32 / (2 * np.sqrt(2 * np.log(2)))
    bad = []
    for part, x, sel in (('re', xr, 0), ('im', xi, 1)):
        mu, sd = np.mean(x[:2]), np.std(x[:2])
        div = sd if cs is None else (cs if not isinstance(cs, list) else cs[sel])
        want = ref_q(x, 0.0, tstd, bits, mu, div)
        got = np.real(out) if sel == 0 else np.imag(out)
        if not np.array_equal(got.astype(int), want):
            bad.append(f"{part}: {got} != {want}")
    for part, x, cache in (('re', xr, cq.stats_cache_r), ('im', xi, cq.stats_cache_i)):
        if cache[0] is None or cache[1] is None or not np.allclose([float(cache[0]), float(cache[1])], [np.mean(x[:2]), np.std(x[:2])]):
            bad.append(f"cached statistics of the {part} part are {list(cache)}, its own estimate is {[np.mean(x[:2]), np.std(x[:2])]}")
    # several calls, with and without a custom deviation: between refreshes each part keeps using ITS OWN estimates
    patterns = sorted({'nnnn', 'cccc', 'cnnn', 'ncnc', (p.get('customs') or 'nnnn').ljust(4, 'n')[:4]})
    kind_pats = sorted({'zzzz', 'rzzr', 'zrzz', (p.get('kinds') or 'zzzz').ljust(4, 'z')[:4]})
    for period in sorted({1, 3, 0, -1, p.get('period', 1)}):
        for pat, kp in [(a_, b_) for a_ in patterns for b_ in (kind_pats if a_ == 'nnnn' else ['zzzz'])]:
            cq = qz.ComplexQuantizer(target_fwhm=32, num_bits=bits, stats_calc_period=period, stats_calc_num_samples=2)
            est = {}
            for call in range(4):
                xr_, xi_ = rng.normal(call, 3 + call, n), rng.normal(-2 * call, 1 + call, n)
                if kp[call] == 'r':
                    xi_ = np.zeros(n)                  # a real-typed array: its imaginary part is the zero array
                cs_ = [2.5, 0.5] if pat[call] == 'c' else None
                out = cq.quantize(xr_ + 1j * xi_ if kp[call] == 'z' else xr_, custom_stds=cs_)
                if (period > 0 and call % period == 0) or call == 0:
                    est = {0: (np.mean(xr_[:2]), np.std(xr_[:2])), 1: (np.mean(xi_[:2]), np.std(xi_[:2]))}
                for part, x, sel in (('re', xr_, 0), ('im', xi_, 1)):
                    mu, sd = est[sel]
                    want = ref_q(x, 0.0, tstd, bits, mu, sd if cs_ is None else cs_[sel])
                    got = (np.real(out) if sel == 0 else np.imag(out)).astype(int)
                    if not np.array_equal(got, want):
                        bad.append(f"period {period}, custom deviations on calls {[i for i, ch in enumerate(pat) if ch == 'c']}, real-typed input on calls {[i for i, ch in enumerate(kp) if ch == 'r']}, call {call}, {part}: {got} != {want} (its own estimates of the last refresh)")
                        break
    return bool(bad), '; '.join(bad[:3]) or 'complex quantiser agrees'


def replay_zero(p):
    from setigen.voltage import quantization as qz
    import warnings
    with warnings.catch_warnings():
        warnings.simplefilter('error')
        try:
            out = qz.quantize_real(np.full(5, 3.25), target_mean=2.0, target_std=13.0, num_bits=p['bits'])
        except Exception as e:
            return True, f"constant input: {e!r}"
    want = int(np.clip(2, -2 ** (p['bits'] - 1), 2 ** (p['bits'] - 1) - 1))
    return bool(np.any(out != want)), f"constant input -> {out}"


def replay_stats(p):
    from setigen.voltage import data_stream as ds
    x = np.random.default_rng(2).normal(3, 5, p['n'])
    mu, sd = ds.estimate_stats(x, p['k'])
    k = min(p['k'], p['n'])
    ok = np.isclose(mu, np.mean(x[:k])) and np.isclose(sd, np.std(x[:k]))
    return (not ok), f'estimate_stats -> {mu}, {sd}; expected {np.mean(x[:k])}, {np.std(x[:k])}'


REPLAYS = {'stats_rounded': replay_stats_rounded, 'real_seq': replay_real_seq, 'reset': replay_reset, 'stats': replay_stats, 'real': replay_real, 'refresh': replay_refresh, 'refresh_seq': replay_refresh_seq, 'object': replay_object, 'zero': replay_zero}


def main():
    ck = Check('C09', 'Quantisers: monotone affine maps into the signed b-bit range, stated refresh')
    ck.functions = ['quantization.quantize_real', 'quantization.quantize_complex', 'RealQuantizer.quantize', 'RealQuantizer._reset_cache',
                    'ComplexQuantizer.quantize', 'data_stream.estimate_stats']
    ck.files = ['setigen/voltage/quantization.py', 'setigen/voltage/data_stream.py']
    ck.stubs = ['np.around -> round-half-even via ToInt', 'np.clip -> nested If', 'np.std -> fresh s >= 0 with s*s == variance', 'astype(int) -> identity on integral terms']
    ck.assumptions = ['exact reals (a value whose pre-rounding image is within 1e-6 of a tie may round either way in binary64: skipped by the replayer)',
                      'inputs NaN/inf-free; n <= 4 elements', 'monotonicity by three lemmas: executed term is clip(rne(F*(x-MU)+M)) with common F>=0; affine part monotone; round-clip monotone']
    bitss = (2, 3, 4, 8) if not ck.thorough else (2, 3, 4, 5, 6, 7, 8)          # an odd width in every run: (-2)**(b-1) is not -2**(b-1) there
    ns = (1, 3) if not ck.thorough else (1, 2, 3, 4, 6)
    ck.bounds = dict(bits=bitss, n=ns, stats_calc_num_samples='1, 2, n+5', period='symbolic integer (inductive step); -3..ncalls+2 unrolled for 6 (quick) / 8 calls')
    jobs = []
    for bits in bitss:
        jobs.append(('job_monotone_lemmas', (bits,)))
        jobs.append(('job_zero_variance', (bits,)))
        jobs.append(('job_qcomplex', (2, bits)))
        for n in ns:
            for mode in ('auto', 'given'):
                for nstat in ((2, n + 5) if mode == 'auto' else (10000,)):
                    jobs.append(('job_real', (n, bits, mode, nstat)))
            jobs.append(('job_monotone_exec', (max(n, 2), bits)))
        for custom in ('none', 'scalar', 'pair'):
            jobs.append(('job_object', (3, bits, custom)))
        if bits != 8:
            jobs.append(('job_object', (3, bits, 'none', True)))
    for period in (1, 2, 3, 0, -1):
        jobs.append(('job_complex_sequence', (period, 3 if not ck.thorough else 4, 2)))
        for customs in ('cnn', 'ncn', 'cnc'):
            jobs.append(('job_complex_sequence', (period, 3, 2, customs)))
        for kinds in ('rzz', 'zrz'):
            jobs.append(('job_complex_sequence', (period, 3, 2, None, kinds)))
    for period in (1, 2, 0, -1):
        jobs.append(('job_real_sequence', (period, 3, 2)))
    for before in (1, 2, 3):
        jobs.append(('job_reset_cache', ('real', before, 3)))
        for pc in (-1, 0, 1, 2, 3, 4):
            jobs.append(('job_reset_cache', ('complex', before, 3, pc)))
    for n_, k_ in ((1, 1), (3, 2), (3, 7), (4, 4), (4, 1)):
        jobs.append(('job_stats', (n_, k_)))
    jobs.append(('job_stats_rounded', (2, 2)))
    jobs.append(('job_stats_rounded', (3, 2)))
    jobs.append(('job_refresh_step', ('pos',)))
    jobs.append(('job_refresh_step', ('nonpos',)))
    jobs.append(('job_refresh_unrolled', (8 if ck.thorough else 6,)))
    ck.run_jobs('props.C09', jobs, timeout_s=1200)
    ck.finish()


if __name__ == '__main__':
    main()
