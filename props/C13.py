"""C13 -- the constant-signal helper injects the same signal as general injection.

The real Frame.add_constant_signal and (reference side) the real Frame.add_signal
without bounding range are executed in one symbolic run with f_start, drift_rate,
level, width as unconstrained reals (ranges only).  The executor forks on
drift sign, on the clipped box indices and on the smearing sub-step count; the
case split is proven complete.
"""
import time

import numpy as np
import z3

from symx import core, npx
from symx.core import Sym, lift, UF, RV
from symx.report import Check, q, cex, note
from props import inject
from props.frame_common import (F, frame_patches, make_frame, sym_data, paths, t_profiles, f_profiles, bp_profiles)

PROFILES = ('box', 'sinc2', 'gaussian', 'lorentzian', 'voigt')
COMPACT = ('box', 'sinc2')
# half of the FWHM in units of the width argument (Voigt(w, w): 0.5346 w + sqrt(0.2166 w^2 + w^2) = 1.637 w)
HALF_FWHM = dict(gaussian=RV(0.5), lorentzian=RV(0.5), voigt=RV(0.8185))


def profile_fn(kind, width):
    return dict(box=lambda: f_profiles.box_f_profile(width), sinc2=lambda: f_profiles.sinc2_f_profile(width),
                gaussian=lambda: f_profiles.gaussian_f_profile(width), lorentzian=lambda: f_profiles.lorentzian_f_profile(width),
                voigt=lambda: f_profiles.voigt_f_profile(width, width))[kind]()


def job(T, Fc, asc, kind, smear, geom, tier, dsign, dfsign=1, reach=2):
    """dsign: -1 / 0 / +1 restricts the drift sign (splits the work)
    dfsign=-1: the frame is constructed with a NEGATIVE df (filterbank style; accepted and stored as |df|)
    reach: how many channels outside the band the signal may start (a fast signal starting far outside sweeps in)"""
    g = inject.GEOMS[geom]
    if dfsign < 0:
        g = dict(g, df_arg=-g['df'])
    df, dt, fch1 = g['df'], g['dt'], g['fch1']
    unit = df / dt
    f0, d, lvl, w = (Sym(z3.Real(n)) for n in ('f_start', 'drift', 'level', 'width'))
    fmin = fch1 if asc else fch1 - (Fc - 1) * df
    fmax = fmin + (Fc - 1) * df
    pre = [w.t >= RV(0.05 * df), w.t <= RV(10 * df), f0.t >= RV(fmin - reach * df), f0.t <= RV(fmax + reach * df),
           d.t >= RV(-4 * unit), d.t <= RV(4 * unit)]
    if dsign < 0:
        pre.append(d.t < 0)
    elif dsign > 0:
        pre.append(d.t > 0)
    else:
        pre.append(d.t == 0)
    recs = []

    def run():
        fr = make_frame(T, Fc, asc, Sym(RV(dfsign * df)), Sym(RV(dt)), Sym(RV(fch1)))
        # the helper's frame has been part of a cadence before: its time axis was shifted, read (also the extended
        # axis, as a smeared injection does) and put back -- none of which may leave a trace
        saved_ts = fr.ts
        fr.ts = fr.ts + Sym(RV(1000 * dt))
        _ = (fr.ts_ext, fr.t_stop, fr.obs_length)
        fr.ts = saved_ts
        h = fr.add_constant_signal(f0, d, lvl, w, f_profile_type=kind, doppler_smearing=smear)
        fr2 = make_frame(T, Fc, asc, Sym(RV(dfsign * df)), Sym(RV(dt)), Sym(RV(fch1)))
        # sub-step count from the geometry itself (|df| / dt), not from an attribute of the frame under test
        n = core.smax(1, core.ceil(abs(d) / RV(unit)))
        gsig = fr2.add_signal(paths.constant_path(f0, d), t_profiles.constant_t_profile(lvl), profile_fn(kind, w),
                              bp_profiles.constant_bp_profile(level=1), doppler_smearing=smear,
                              smearing_subsamples=n)
        return fr, h, gsig, n

    t0 = time.time()
    with frame_patches():
        leaves = core.explore(run, pre, cap=3000)
    texp = time.time() - t0
    tag = f"C13:{(T, Fc, asc, kind, smear, geom, dsign)}" + (':negative-df' if dfsign < 0 else '') + (f':reach{reach}' if reach != 2 else '')
    conds = []
    ncex = 0
    for li, leaf in enumerate(leaves):
        conds.append(leaf.cond())
        name = f"{tag}:leaf{li}"
        base = pre + leaf.pc + leaf.side
        if leaf.kind == 'exc':
            r, m = core.check(base, timeout_ms=30000)
            recs.append(q(name + ':noexc', 'sat' if r == 'sat' else r, detail=f"{type(leaf.value).__name__}: {leaf.value}"))
            if r == 'sat':
                recs.append(cex(f"C13:raise:{type(leaf.value).__name__}:{kind}:smear{int(smear)}", f"helper or general injection raises {leaf.value!r}",
                                payload(m, T, Fc, asc, kind, smear, g, f0, d, lvl, w), name=name + ':noexc'))
            continue
        fr, h, gsig, n = leaf.value
        dis = []
        fs, ts = [lift(x) for x in fr.fs], [lift(x) for x in fr.ts]
        for i in range(T):
            c0 = f0.t + d.t * ts[i]
            c1 = f0.t + d.t * (ts[i] + RV(dt))
            for j in range(Fc):
                hv, gv = lift(h[i, j]), lift(gsig[i, j])
                diff = z3.simplify(hv - gv, som=True)
                if z3.is_rational_value(diff) and diff.numerator_as_long() == 0:
                    continue
                if kind in COMPACT:
                    dis.append(diff != 0)
                else:
                    # inside the FWHM of (any centre on) the signal's track in this row the values agree;
                    # elsewhere the helper is either the general value or zero
                    if smear:
                        lo = z3.If(c0 <= c1, c0, c1)
                        hi = z3.If(c0 <= c1, c1, c0)
                        dist = z3.If(fs[j] < lo, lo - fs[j], z3.If(fs[j] > hi, fs[j] - hi, RV(0)))
                    else:
                        dist = z3.If(fs[j] >= c0, fs[j] - c0, c0 - fs[j])
                    dis.append(z3.And(dist <= w.t * HALF_FWHM[kind], diff != 0))
                    dis.append(z3.And(diff != 0, hv != 0))
        if not dis:
            recs.append(q(name, 'unsat', trivial=True, detail='all pixels identical after rewriting'))
            continue
        ts0 = time.time()
        r, m = core.check(base + [z3.Or(*dis)], timeout_ms=60000)
        recs.append(q(name, r, ms=(time.time() - ts0) * 1000))
        if r == 'sat' and ncex < 6:
            ncex += 1
            p = payload(m, T, Fc, asc, kind, smear, g, f0, d, lvl, w)
            key = classify(p)
            recs.append(cex(key, f"add_constant_signal differs from general injection ({kind}, smearing={smear})", p, name=name))
        elif r == 'sat':
            recs.append(cex('C13:more', 'further counterexamples of the same job', payload(m, T, Fc, asc, kind, smear, g, f0, d, lvl, w), name=name))
    r, _ = core.check(pre + [z3.Not(z3.Or(*conds))] if conds else pre, timeout_ms=60000)
    recs.append(q(f"{tag}:split-complete", r, leaves=len(leaves), explore_s=round(texp, 1)))
    # vacuity twin: helper output is not identically zero on some path
    tw = 'unsat'
    for leaf in leaves:
        if leaf.kind == 'ok':
            fr, h, gsig, n = leaf.value
            r, _ = core.check(pre + leaf.pc + leaf.side + [z3.Or(*[lift(h[i, j]) != 0 for i in range(T) for j in range(Fc)])], timeout_ms=20000)
            if r == 'sat':
                tw = 'sat'
                break
    recs.append(q(f"{tag}:twin", tw, expect='sat'))
    return recs


def payload(m, T, Fc, asc, kind, smear, g, f0, d, lvl, w):
    mf = lambda t: core.model_float(m, t)
    return dict(fn='const', T=T, Fc=Fc, asc=asc, kind=kind, smear=smear, df=g.get('df_arg', g['df']), dt=g['dt'], fch1=g['fch1'],
                f_start=mf(f0), drift=mf(d), level=mf(lvl), width=mf(w))


def classify(p):
    unit = abs(p['df']) / p['dt']
    sgn = 'neg' if p['drift'] < 0 else ('zero' if p['drift'] == 0 else 'pos')
    narrow = 'narrow' if 2 * p['width'] / abs(p['df']) < 1 else 'wide'
    return f"C13:{'smear' if p['smear'] else 'plain'}:{sgn}:{narrow}:{p['kind'] if p['kind'] in COMPACT else 'tailed'}"


def replay_const(p):
    import setigen as stg
    T, Fc = p['T'], p['Fc']
    mk = lambda: stg.Frame(fchans=Fc, tchans=T, df=p['df'], dt=p['dt'], fch1=p['fch1'], ascending=p['asc'], seed=0)
    fr, fr2 = mk(), mk()
    saved_ts = fr.ts.copy()             # earlier use inside a cadence: time axis shifted, read, put back
    fr.ts = fr.ts + 1000 * p['dt']
    _ = (fr.ts_ext, fr.t_stop, fr.obs_length)
    fr.ts = saved_ts
    try:
        h = fr.add_constant_signal(p['f_start'], p['drift'], p['level'], p['width'], f_profile_type=p['kind'], doppler_smearing=p['smear'])
    except Exception as e:
        return True, f"add_constant_signal raised {type(e).__name__}: {e}"
    n = max(1, int(np.ceil(abs(p['drift']) / (abs(p['df']) / p['dt']))))
    prof = dict(box=lambda: stg.box_f_profile(p['width']), sinc2=lambda: stg.sinc2_f_profile(p['width']),
                gaussian=lambda: stg.gaussian_f_profile(p['width']), lorentzian=lambda: stg.lorentzian_f_profile(p['width']),
                voigt=lambda: stg.voigt_f_profile(p['width'], p['width']))[p['kind']]()
    gsig = fr2.add_signal(stg.constant_path(p['f_start'], p['drift']), stg.constant_t_profile(p['level']), prof,
                          stg.constant_bp_profile(1), doppler_smearing=p['smear'], smearing_subsamples=n)
    tol = 1e-9 * max(1.0, abs(p['level']))
    bad = []
    for i in range(T):
        c0 = p['f_start'] + p['drift'] * fr.ts[i]
        c1 = p['f_start'] + p['drift'] * (fr.ts[i] + fr.dt)
        lo, hi = (min(c0, c1), max(c0, c1)) if p['smear'] else (c0, c0)
        for j in range(Fc):
            f = fr.fs[j]
            differs = abs(h[i, j] - gsig[i, j]) > tol
            if p['kind'] in COMPACT:
                if differs:
                    bad.append((i, j, h[i, j], gsig[i, j]))
            else:
                dist = lo - f if f < lo else (f - hi if f > hi else 0.0)
                if differs and (dist <= p['width'] * (0.8185 if p['kind'] == 'voigt' else 0.5) * (1 - 1e-9) or abs(h[i, j]) > tol):
                    bad.append((i, j, h[i, j], gsig[i, j]))
    if bad:
        i, j, a, b = bad[0]
        return True, (f"helper[{i},{j}]={a!r} but general injection (n={n} sub-steps) gives {b!r}; "
                      f"f_start={p['f_start']!r} drift={p['drift']!r} width={p['width']!r} kind={p['kind']} smear={p['smear']} ({len(bad)} pixels)")
    return False, "helper agrees with general injection"


def job_two_frames(kind, smear, order):
    """two frames of different resolution used one after the other in one session, each with the same width in channels:
    the helper on the second still equals general injection on the second (nothing carries over between frames)"""
    recs = []
    tag = f"C13:two-frames:{(kind, smear, order)}"
    ga, gb = (inject.GEOMS[g] for g in (('g1', 'g2') if order == 0 else ('g2', 'g1')))
    T, Fc, wch = 2, 6, 2.0
    f0, d, lvl = (Sym(z3.Real(n)) for n in ('f_start', 'drift', 'level'))
    fmin = gb['fch1'] - (Fc - 1) * gb['df']
    pre = [f0.t >= RV(fmin), f0.t <= RV(gb['fch1']), d.t >= RV(-2 * gb['df'] / gb['dt']), d.t <= RV(2 * gb['df'] / gb['dt'])]

    def run():
        fa = make_frame(T, Fc, False, Sym(RV(ga['df'])), Sym(RV(ga['dt'])), Sym(RV(ga['fch1'])))
        fa.add_constant_signal(ga['fch1'] - 2 * ga['df'], 0.0, 1.0, wch * ga['df'], f_profile_type=kind, doppler_smearing=smear)
        fb = make_frame(T, Fc, False, Sym(RV(gb['df'])), Sym(RV(gb['dt'])), Sym(RV(gb['fch1'])))
        h = fb.add_constant_signal(f0, d, lvl, wch * gb['df'], f_profile_type=kind, doppler_smearing=smear)
        fc = make_frame(T, Fc, False, Sym(RV(gb['df'])), Sym(RV(gb['dt'])), Sym(RV(gb['fch1'])))
        n = core.smax(1, core.ceil(abs(d) / fc.unit_drift_rate))
        g = fc.add_signal(paths.constant_path(f0, d), t_profiles.constant_t_profile(lvl), profile_fn(kind, wch * gb['df']),
                          bp_profiles.constant_bp_profile(level=1), doppler_smearing=smear, smearing_subsamples=n)
        return h, g, fb
    with frame_patches():
        leaves = core.explore(run, pre, cap=2000)
    conds, ncex = [], 0
    for li, leaf in enumerate(leaves):
        conds.append(leaf.cond())
        name = f"{tag}:leaf{li}"
        base = pre + leaf.pc + leaf.side
        pl = lambda m: dict(fn='two_frames', kind=kind, smear=smear, order=order, f_start=core.model_float(m, f0), drift=core.model_float(m, d), level=core.model_float(m, lvl))
        if leaf.kind == 'exc':
            r, m = core.check(base, timeout_ms=30000)
            recs.append(q(name + ':noexc', r, detail=repr(leaf.value)))
            if r == 'sat' and ncex < 2:
                ncex += 1
                recs.append(cex('C13:two-frames:raise', f'helper / general injection raised {leaf.value!r}', pl(m), name=name + ':noexc'))
            continue
        h, g, fb = leaf.value
        dis = []
        fs, ts = [lift(x) for x in fb.fs], [lift(x) for x in fb.ts]
        for i in range(T):
            c0 = f0.t + d.t * ts[i]
            c1 = f0.t + d.t * (ts[i] + RV(gb['dt']))
            for j in range(Fc):
                diff = z3.simplify(lift(h[i, j]) - lift(g[i, j]), som=True)
                if z3.is_rational_value(diff) and diff.numerator_as_long() == 0:
                    continue
                if kind in COMPACT:
                    dis.append(diff != 0)
                else:
                    lo = z3.If(c0 <= c1, c0, c1) if smear else c0
                    hi = z3.If(c0 <= c1, c1, c0) if smear else c0
                    dist = z3.If(fs[j] < lo, lo - fs[j], z3.If(fs[j] > hi, fs[j] - hi, RV(0)))
                    dis.append(z3.And(dist <= RV(wch * gb['df']) * HALF_FWHM[kind], diff != 0))
        if not dis:
            recs.append(q(name, 'unsat', trivial=True))
            continue
        r, m = core.check(base + [z3.Or(*dis)], timeout_ms=60000)
        recs.append(q(name, r))
        if r == 'sat' and ncex < 2:
            ncex += 1
            recs.append(cex('C13:two-frames', f'after the helper was used on a frame of another resolution, helper and general injection differ on this frame ({kind}, smearing={smear})', pl(m), name=name))
    r, _ = core.check(pre + [z3.Not(z3.Or(*conds))], timeout_ms=60000)
    recs.append(q(f"{tag}:split-complete", r, leaves=len(leaves)))
    return recs


def replay_two_frames(p):
    import setigen as stg
    ga, gb = (inject.GEOMS[g] for g in (('g1', 'g2') if p['order'] == 0 else ('g2', 'g1')))
    kind, smear, wch = p['kind'], p['smear'], 2.0
    fa = stg.Frame(fchans=12, tchans=3, df=ga['df'], dt=ga['dt'], fch1=ga['fch1'], seed=0)
    fa.add_constant_signal(ga['fch1'] - 2 * ga['df'], 0.0, 1.0, wch * ga['df'], f_profile_type=kind, doppler_smearing=smear)
    pb = dict(T=3, Fc=12, df=gb['df'], dt=gb['dt'], fch1=gb['fch1'], asc=False, kind=kind, smear=smear, level=p.get('level') or 1.5, width=wch * gb['df'])
    msgs = []
    for (f0, d) in [(p['f_start'], p['drift'])] + [(gb['fch1'] - 5 * gb['df'], s_ * 1.5 * gb['df'] / gb['dt']) for s_ in (0, 1, -1)]:
        bad, msg = replay_const(dict(pb, f_start=f0, drift=d))
        if bad:
            msgs.append(msg)
    return bool(msgs), (msgs[0] if msgs else 'helper agrees with general injection on the second frame')


def job_units(T, Fc, asc, kind, smear, dsign):
    """the helper called with unit-carrying arguments (MHz, kHz / s, kHz) returns what it returns for the same values in
    SI numbers (that those equal the general injection is the subject of the other jobs)"""
    from props.frame_common import SQ
    recs = []
    tag = f"C13:units:{(T, Fc, asc, kind, smear, dsign)}"
    g = inject.GEOMS['g1']
    df, dt, fch1 = g['df'], g['dt'], g['fch1']
    unit = df / dt
    fM, dk, lvl, wk = (Sym(z3.Real(n)) for n in ('f_start_MHz', 'drift_kHz_s', 'level', 'width_kHz'))
    f0, d, w = fM * 1000000, dk * 1000, wk * 1000
    fmin = fch1 if asc else fch1 - (Fc - 1) * df
    pre = [w.t >= RV(0.05 * df), w.t <= RV(6 * df), f0.t >= RV(fmin - df), f0.t <= RV(fmin + Fc * df), d.t >= RV(-3 * unit), d.t <= RV(3 * unit)]
    pre.append(d.t < 0 if dsign < 0 else (d.t > 0 if dsign > 0 else d.t == 0))

    def run():
        a = make_frame(T, Fc, asc, Sym(RV(df)), Sym(RV(dt)), Sym(RV(fch1)))
        b = make_frame(T, Fc, asc, Sym(RV(df)), Sym(RV(dt)), Sym(RV(fch1)))
        ha = a.add_constant_signal(SQ(fM, 'MHz'), SQ(dk, 'kHz / s'), lvl, SQ(wk, 'kHz'), f_profile_type=kind, doppler_smearing=smear)
        hb = b.add_constant_signal(f0, d, lvl, w, f_profile_type=kind, doppler_smearing=smear)
        return ha, hb
    with frame_patches(units=True):
        leaves = core.explore(run, pre, cap=3000)
    conds, ncex = [], 0
    for li, leaf in enumerate(leaves):
        conds.append(leaf.cond())
        name = f"{tag}:leaf{li}"
        base = pre + leaf.pc + leaf.side
        if leaf.kind == 'exc':
            r, m = core.check(base, timeout_ms=30000)
            recs.append(q(name + ':noexc', r, detail=repr(leaf.value)))
            if r == 'sat' and ncex < 3:
                ncex += 1
                recs.append(cex('C13:units:raise', f'helper with unit-carrying arguments raises {leaf.value!r}', dict(fn='units', kind=kind, smear=smear, asc=asc, drift=core.model_float(m, d), width=core.model_float(m, w), f_start=core.model_float(m, f0)), name=name + ':noexc'))
            continue
        ha, hb = leaf.value
        dis = []
        for x, y in zip(ha.flat, hb.flat):
            dd = z3.simplify(lift(x) - lift(y), som=True)
            if not (z3.is_rational_value(dd) and dd.numerator_as_long() == 0):
                dis.append(dd != 0)
        if not dis:
            recs.append(q(name, 'unsat', trivial=True))
            continue
        r, m = core.check(base + [z3.Or(*dis)], timeout_ms=60000)
        recs.append(q(name, r))
        if r == 'sat' and ncex < 3:
            ncex += 1
            recs.append(cex('C13:units', f'helper with unit-carrying arguments differs from the helper with the same values in Hz, Hz/s ({kind}, smearing={smear})',
                            dict(fn='units', kind=kind, smear=smear, asc=asc, drift=core.model_float(m, d), width=core.model_float(m, w), f_start=core.model_float(m, f0)), name=name))
    r, _ = core.check(pre + [z3.Not(z3.Or(*conds))], timeout_ms=60000)
    recs.append(q(f"{tag}:split-complete", r, leaves=len(leaves)))
    return recs


def replay_units(p):
    import astropy.units as u
    import setigen as stg
    g = inject.GEOMS['g1']
    msgs = []
    cands = [(p['f_start'], p['drift'], p['width'])] + [(g['fch1'] - 3 * g['df'] * (1 if not p['asc'] else -1), s_ * 2.5 * g['df'] / g['dt'], w_ * g['df']) for s_ in (1, -1, 0) for w_ in (0.5, 3.0)]
    for (f0, d, w) in cands:
        outs = []
        for args in ((f0 * 1e-6 * u.MHz, d * 1e-3 * u.kHz / u.s, 1.5, w * 1e-3 * u.kHz), (f0, d, 1.5, w), (f0 * u.Hz, d * 1e3 * u.mHz / u.s, 1.5, w * u.Hz)):
            fr = stg.Frame(fchans=12, tchans=4, df=g['df'], dt=g['dt'], fch1=g['fch1'], ascending=p['asc'], seed=0)
            try:
                outs.append(fr.add_constant_signal(*args, f_profile_type=p['kind'], doppler_smearing=p['smear']))
            except Exception as e:
                return True, f"helper with arguments {args} raised {type(e).__name__}: {e}"
        for k in (0, 2):
            if not np.allclose(outs[k], outs[1], rtol=1e-9, atol=1e-12):
                ij = np.unravel_index(np.argmax(np.abs(outs[k] - outs[1])), outs[1].shape)
                msgs.append(f"f_start={f0}, drift={d}, width={w} ({p['kind']}, smearing={p['smear']}): pixel {ij} is {outs[k][ij]!r} with unit-carrying arguments and {outs[1][ij]!r} with plain SI numbers")
                break
    return bool(msgs), '; '.join(msgs[:2]) or 'unit-carrying arguments agree with plain numbers'


REPLAYS = {'const': replay_const, 'units': replay_units, 'two_frames': replay_two_frames}


def main():
    ck = Check('C13', 'Constant-signal helper injects the same signal as general injection')
    ck.functions = ['setigen.frame.Frame.add_constant_signal', 'Frame.add_signal', 'Frame.get_index', 'Frame.get_frequency',
                    'funcs.paths.constant_path', 'funcs.t_profiles.constant_t_profile', 'funcs.f_profiles.{box,sinc2,gaussian,lorentzian,voigt}_f_profile',
                    'funcs.bp_profiles.constant_bp_profile']
    ck.files = ['setigen/frame.py', 'setigen/funcs/f_profiles.py', 'setigen/funcs/paths.py', 'setigen/funcs/t_profiles.py', 'setigen/funcs/func_utils.py']
    ck.stubs = ['exp / sinc / wofz -> uninterpreted functions (equal arguments on both sides)', 'astropy sigma_clip -> identity']
    ck.assumptions = ['concrete dyadic geometries (exact binary64), f_start within 2 channels of the band, |drift| <= 4 channels/step, 0.05 <= width/df <= 10',
                      'tailed profiles compared inside the FWHM of the signal track; helper must be general-or-zero elsewhere',
                      'exact real arithmetic']
    if ck.thorough:
        shapes, geoms = [(1, 5), (2, 6), (3, 8), (4, 10)], ['g1', 'g2']
    else:
        shapes, geoms = [(2, 6), (3, 7)], ['g1']
    ck.bounds = dict(shapes=shapes + ([(1, 5)] if not ck.thorough else []), geometries=[inject.GEOMS[g] for g in geoms], profiles=PROFILES, drift='[-4,4] channels/step incl. 0', width='[0.05,10] channels')
    jobs = []
    for (T, Fc) in shapes:
        for geom in geoms:
            for asc in (False, True):
                for kind in PROFILES:
                    if not ck.thorough and asc and kind in ('lorentzian', 'voigt'):
                        continue
                    for smear in (False, True):
                        for dsign in (-1, 0, 1):
                            jobs.append(('job', (T, Fc, asc, kind, smear, geom, ck.tier, dsign)))
    # frames constructed with a negative df (stored as |df|): the unit drift rate is |df| / dt all the same
    for kind in ('box', 'gaussian'):
        for dsign in (-1, 1):
            jobs.append(('job', (2, 6, False, kind, True, 'g1', ck.tier, dsign, -1)))
    # a band narrower than the total drift, the signal starting well outside it and sweeping in
    for smear in (False, True):
        for dsign in (-1, 1):
            jobs.append(('job', (3, 3, False, 'box', smear, 'g1', ck.tier, dsign, 1, 8)))
    # a single frequency channel (a time series): the band has no extent between first and last channel centre
    for smear in (False, True):
        jobs.append(('job', (2, 1, False, 'box', smear, 'g1', ck.tier, 1)))
    if not ck.thorough:
        # a single integration: every quantity with a factor (tchans - 1) vanishes
        for kind in ('box', 'gaussian'):
            for smear in (False, True):
                for dsign in (-1, 1):
                    jobs.append(('job', (1, 5, False, kind, smear, 'g1', ck.tier, dsign)))
    for kind in PROFILES:
        for order in (0, 1):
            jobs.append(('job_two_frames', (kind, kind in ('box', 'gaussian'), order)))
    for kind in (('box', 'gaussian') if not ck.thorough else PROFILES):
        for smear in (False, True):
            for dsign in (-1, 0, 1):
                jobs.append(('job_units', (2, 5, smear, kind, smear, dsign)))
    ck.run_jobs('props.C13', jobs, timeout_s=3000 if ck.thorough else 900)
    ck.finish()


if __name__ == '__main__':
    main()
