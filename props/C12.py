"""C12 -- determinism from seeds, history independence, copy isolation.

"Same seed => same bits" for NumPy's compiled generator is trusted.  Decided here, with every randomness source
replaced by a deterministic stub (k-th draw of a generator seeded s is a term D(kind, s, k); an unseeded generator
draws from a FREE symbol):
  (a) no hidden input: outputs of fully seeded scenarios do not depend on any free entropy symbol / wall clock
  (b) history independence of record(): a recording after earlier recordings equals the same recording on a fresh,
      identically built backend (real quantisers with refresh periods; header dictionaries; array then single)
  (c) copy / pickle: equal field by field and fully independent (aliasing is checked on the object graph)
  (d) different seeds / polarisations / antennas read from distinct draw streams
"""
import copy
import itertools
import os
import time

import numpy as np
import z3

from symx import core, npx, shadow
from symx.core import Sym, SymC, lift, RV, UF
from symx.report import Check, q, cex, note
from props.volt_common import B, PF, Q, A, DS, RU, volt_patches, MemFS, MemFile, cparts
from props.frame_common import F as FR, frame_patches, sigma_clip_stub, paths, t_profiles
from props import C02, C04
import setigen
from setigen import distributions as DIST, sample_from_obs as SFO

RS = z3.RealSort()
DRAW = z3.Function('DRAW', RS, RS, RS, RS)      # (kind, seed, k)
KINDS = dict(normal=1, chisq=2, uniform=3, integers=4, choice=5)
ENTROPY = []


class Gen:
    """deterministic generator stub; unseeded => seed is a fresh free symbol (recorded in ENTROPY)"""

    def __init__(self, seed=None):
        if isinstance(seed, Gen):
            raise core.HarnessError("Gen(Gen)")
        if seed is None:
            v = z3.Real(f'entropy_{len(ENTROPY)}')
            ENTROPY.append(v)
            seed = v
        self.seed = lift(seed)
        self.k = 0

    def _d(self, kind, size=None):
        def one():
            t = DRAW(RV(KINDS[kind]), self.seed, RV(self.k))
            self.k += 1
            return Sym(t)
        if size is None:
            return one()
        shape = (size,) if isinstance(size, (int, np.integer)) else tuple(size)
        a = np.empty(shape, dtype=object)
        for idx in np.ndindex(shape):
            a[idx] = one()
        return a.view(npx.SymArr)

    def standard_normal(self, size=None):
        return self._d('normal', size)

    def normal(self, loc=0.0, scale=1.0, size=None):
        return loc + scale * self._d('normal', size)

    def chisquare(self, df=1, size=None):
        return self._d('chisq', size)

    def uniform(self, lo=0.0, hi=1.0, size=None):
        return lo + (hi - lo) * self._d('uniform', size)

    def integers(self, low, high=None, *a, **k):
        # numpy.random.Generator.integers(low, high=None): [0, low) or [low, high); an empty range is an error
        lo, hi = (0, low) if high is None else (low, high)
        clo, chi = core.const_value(lift(lo)), core.const_value(lift(hi))
        if clo is not None and chi is not None and chi <= clo:
            raise ValueError('low >= high')
        v = self._d('integers')
        v.is_int = True
        core.side(z3.And(v.t >= lift(lo), v.t < lift(hi), v.t == z3.ToReal(z3.ToInt(v.t))))
        return v

    def choice(self, arr):
        i = self.integers(len(arr))
        return arr[core.concretize_int(i)]

    @property
    def bit_generator(self):
        return self


def factory(seed=None):
    return seed if isinstance(seed, Gen) else Gen(seed)


def proxy():
    return npx.NPProxy(rng_factory=factory)


def depends_on_entropy(terms, pre=()):
    """can the outputs change when only the free entropy symbols change?  -> (verdict, model)"""
    if not ENTROPY:
        return 'unsat', None
    sub = [(e, z3.Real(str(e) + "'")) for e in ENTROPY]
    dis = []
    for t in terms:
        t2 = z3.substitute(t, *sub)
        if not t.eq(t2):
            dis.append(t != t2)
    if not dis:
        return 'unsat', None
    return core.check(list(pre) + [z3.Or(*dis)], timeout_ms=60000)


def flat_terms(x):
    out = []
    if isinstance(x, np.ndarray):
        for e in x.flat:
            out += flat_terms(e)
    elif isinstance(x, (list, tuple)):
        for e in x:
            out += flat_terms(e)
    elif isinstance(x, SymC):
        out += [x.re.t, x.im.t]
    elif isinstance(x, (Sym, core.SymB)):
        out.append(lift(x))
    return out


# ---------------------------------------------------------------- (a) no hidden input
SEED_OVERRIDE = [None]         # when set, every top-level seed of the scenario is this value (0 and NumPy zeros are seeds too)


def _sd(default):
    return default if SEED_OVERRIDE[0] is None else SEED_OVERRIDE[0]


def frame_by_route(F_, route, seed, fchans=3, tchans=2, zeros=np.zeros):
    """the same seeded 2 x fchans frame (df=2, dt=4) through each construction route that takes a seed"""
    bk = dict(obs_length=4.0 * tchans, sample_rate=8.0, num_branches=4, fftlength=1, int_factor=8, fch1=4096.0, ascending=False)
    if route == 'from_data':
        return F_.from_data(2.0, 4.0, 4096.0, False, zeros((tchans, fchans)), seed=seed)
    if route == 'shape':
        return F_(shape=(tchans, fchans), df=2.0, dt=4.0, fch1=4096.0, seed=seed)
    if route == 'backend_fchans':
        return F_.from_backend_params(fchans=fchans, seed=seed, **bk)
    if route == 'backend_data':
        return F_.from_backend_params(data=zeros((tchans, fchans)), seed=seed, **bk)
    return F_(fchans=fchans, tchans=tchans, df=2.0, dt=4.0, fch1=4096.0, seed=seed)


ROUTES = ('from_data', 'shape', 'backend_fchans', 'backend_data')


def scen_frame(kind):
    kind, _, route = kind.partition('@')
    fr = frame_by_route(FR.Frame, route, _sd(11), zeros=lambda shp: npx.sarr(np.zeros(shp).astype(object)))
    if kind == 'chi2':
        return [fr.add_noise(Sym(z3.Real('x_mean'))), fr.data]
    if kind == 'gaussian':
        return [fr.add_noise(Sym(z3.Real('x_mean')), Sym(z3.Real('x_std')), noise_type='gaussian'), fr.data]
    if kind == 'truncated':
        return [fr.add_noise(Sym(z3.Real('x_mean')), Sym(z3.Real('x_std')), Sym(z3.Real('x_min')), noise_type='normal'), fr.data]
    if kind.startswith('obs'):
        arrs = [np.array([1.0, 2.0]), np.array([0.1, 0.2]), np.array([0.0, 0.5])]
        share = kind.endswith('share')
        nt = 'chi2' if 'chi2' in kind else 'gaussian'
        return [fr.add_noise_from_obs(arrs[0], arrs[1], arrs[2] if 'min' in kind else None, share_index=share, noise_type=nt), fr.data]
    if kind == 'rfi_path':
        p = paths.simple_rfi_path(Sym(z3.Real('f0')), Sym(z3.Real('d')), Sym(z3.Real('spread')), spread_type='normal', rfi_type='random_walk', seed=_sd(5))
        return [p(npx.sarr([Sym(z3.Real('t0')), Sym(z3.Real('t1'))]))]
    if kind == 'pulse_profile':
        prof = t_profiles.periodic_gaussian_t_profile(Sym(z3.Real('pw')), 10.0, phase=Sym(RV(1.0)), pulse_offset_width=Sym(z3.Real('ow')), pnum=2, seed=_sd(3))
        return [prof(np.array([0.0, 7.5]))]
    raise KeyError(kind)


def scen_voltage(kind):
    if kind == 'stream':
        s = DS.DataStream(sample_rate=Sym(z3.Real('sr')), seed=_sd(21))
        s.add_noise(0, 1)
        return [s.get_samples(2), s.get_samples(1)]
    if kind == 'antenna':
        a = A.Antenna(sample_rate=Sym(z3.Real('sr')), num_pols=2, seed=_sd(22))
        for st in a.streams:
            st.add_noise(0, 1)
        return [a.get_samples(2)]
    if kind == 'array':
        arr = A.MultiAntennaArray(2, sample_rate=Sym(z3.Real('sr')), num_pols=2, delays=[0, 1], seed=_sd(23))
        for ant in arr.antennas:
            for st in ant.streams:
                st.add_noise(0, 1)
        for bg in arr.bg_streams:
            bg.add_noise(0, 1)
        return [arr.get_samples(3)]
    if kind == 'channelized_stds':
        fb = PF.PolyphaseFilterbank(num_taps=1, num_branches=2)
        px = proxy()

        class SmallFactor:
            pass
        out = fb.estimate_channelized_stds(factor=3, seed=_sd(31))
        return [out[0] * out[0], out[1] * out[1]]
    raise KeyError(kind)


FRAME_SCEN = ('chi2', 'gaussian', 'truncated', 'obs_chi2_share', 'obs_gauss_share', 'obs_gauss_noshare', 'obs_gauss_min_share', 'obs_gauss_min_noshare', 'rfi_path', 'pulse_profile')
VOLT_SCEN = ('stream', 'antenna', 'array', 'channelized_stds')


def job_no_hidden_input(group, kind, seed=None):
    """seed: None (the scenario's own non-zero seeds), 0 or 'np0' (numpy.int64(0)) for every top-level seed"""
    recs = []
    tag = f"C12:seeded:{group}:{kind}" + ('' if seed is None else f":seed={seed}")
    SEED_OVERRIDE[0] = None if seed is None else (0 if seed == 0 else np.int64(0))
    del ENTROPY[:]
    px = proxy()

    class Clock:
        n = 0

        @staticmethod
        def time():
            v = z3.Real(f'entropy_clock_{Clock.n}')
            Clock.n += 1
            ENTROPY.append(v)
            return Sym(v)

    def run():
        del ENTROPY[:]
        Clock.n = 0
        return (scen_frame if group == 'frame' else scen_voltage)(kind)
    pre = [z3.Real('x_std') >= 0, z3.Real('sr') > 0, z3.Real('pw') > 0]
    if group == 'frame':
        ctxm = frame_patches(proxy=px, extra=[(DIST, dict(np=px)), (SFO, dict(np=px, **shadow.DEFAULT_BUILTINS)), (FR, dict(time=Clock))])
    else:
        ctxm = volt_patches(proxy=px)
    with ctxm:
        leaves = core.explore(run, pre, cap=64)
    for li, leaf in enumerate(leaves):
        if leaf.kind == 'exc':
            recs.append(q(f"{tag}:leaf{li}", 'sat', detail=repr(leaf.value)))
            recs.append(cex('C12:seeded:raise', f'{kind}: raised {leaf.value!r}', dict(fn='seeded', group=group, kind=kind, seed=seed), name=f"{tag}:leaf{li}"))
            continue
        terms = flat_terms(leaf.value)
        r, m = depends_on_entropy(terms, pre + leaf.pc + leaf.side)
        recs.append(q(f"{tag}:leaf{li}", r, terms=len(terms)))
        if r == 'sat':
            recs.append(cex(f'C12:hidden-entropy:{kind}', f'{kind}: a fully seeded scenario (seed {seed if seed is not None else "non-zero"}) draws from an unseeded generator / the wall clock', dict(fn='seeded', group=group, kind=kind, seed=seed), name=f"{tag}:leaf{li}"))
    # twin: an UNSEEDED frame does depend on entropy (the detector works)
    if kind == 'chi2':
        del ENTROPY[:]
        with frame_patches(proxy=px, extra=[(DIST, dict(np=px))]):
            fr = FR.Frame(fchans=2, tchans=1, df=2.0, dt=4.0, fch1=4096.0)
            n = fr.add_noise(1.0)
        r, _ = depends_on_entropy(flat_terms(n))
        recs.append(q(f"{tag}:twin", r, expect='sat'))
    return recs


# ---------------------------------------------------------------- (b) history independence of record()
SMU = z3.Function('STAT_MU', RS, RS, RS)
SSD = z3.Function('STAT_SD', RS, RS, RS)


def stats_stub(voltages, stats_calc_num_samples=10000):
    """estimate_stats as a deterministic function of its input (first element and length)"""
    v = voltages
    first = v.flat[0] if isinstance(v, np.ndarray) else v[0]
    fr, fi = cparts(first)
    n = RV(int(np.size(v)))
    sd = Sym(SSD(fr, n))
    core.side(sd.t > 0)
    return Sym(SMU(fr, n)), sd


QREAL = z3.Function('QREAL', RS, RS, RS, RS)


def quantize_real_stub(x, target_mean=0, target_std=1, num_bits=8, data_mean=None, data_std=None, stats_calc_num_samples=10000):
    """quantize_real as an element-wise uninterpreted function of (value, data_mean, data_std): its internals are C09;
    what matters for history independence is WHICH statistics each call is handed"""
    if data_std is None:
        data_mean, data_std = stats_stub(x, stats_calc_num_samples)
    return npx._map(lambda e: Sym(QREAL(lift(e), lift(data_mean), lift(data_std))), x)


GEOM = dict(Wb=2, nsb=2)          # windows per block / num_subblocks of build_real (a job may set another geometry)


def build_real(npol, nant, period, bpf=2, nsb=None):
    """backend with REAL quantisers (refresh period `period`) on a symbolic stream"""
    nsb = GEOM['nsb'] if nsb is None else nsb
    ant = C02.FakeAntenna(npol) if nant == 1 else C02.FakeArray(nant, npol)
    fb = PF.PolyphaseFilterbank(num_taps=2, num_branches=4)
    be = B.RawVoltageBackend(ant, Q.RealQuantizer(num_bits=8, stats_calc_period=period, stats_calc_num_samples=4), fb,
                             Q.ComplexQuantizer(num_bits=8, stats_calc_period=period, stats_calc_num_samples=4), start_chan=0, num_chans=2,
                             block_size=2 * GEOM['Wb'] * nant * 2 * (2 * npol), blocks_per_file=bpf, num_subblocks=nsb)
    return be, ant


def file_terms(fs, stem):
    out = []
    for nm in fs.names():
        if nm.startswith(stem + '.'):
            out.append((nm[len(stem):], MemFile(fs.files, nm, 'rb')._flat()))
    return out


def job_history(period, first_blocks, hdr_mode, nant, geom=None):
    """recording #2 after recording #1 == recording #2 on a fresh backend whose antenna is in the same state.
    geom=(Wb, nsb): windows per block and num_subblocks (5 windows in 2 sub-blocks: a partition that does not divide, so
    that a partition re-derived from block to block could drift)"""
    recs = []
    tag = f"C12:history:{(period, first_blocks, hdr_mode, nant)}" + (f":geom{geom}" if geom else '')
    pl = dict(fn='history', period=period, first_blocks=first_blocks, hdr_mode=hdr_mode, nant=nant, geom=list(geom) if geom else None)
    GEOM.update(dict(Wb=geom[0], nsb=geom[1]) if geom else dict(Wb=2, nsb=2))
    fs = MemFS()
    user = {'HELLO': 'x', 'PKTIDX': 500}
    # 'explicit_twin': the earlier recording carried numerically EQUAL values of another type under the same keys
    # (180 / 180.0, 0.0 / 0); what the later recording writes is the text of ITS values
    user_first = dict(user, RA=180, STT_OFFS=0.0, NUM=7.0) if hdr_mode == 'explicit_twin' else user
    if hdr_mode == 'explicit_twin':
        user = dict(user, RA=180.0, STT_OFFS=0, NUM=7)
    with volt_patches(opener=fs.open, extra=[(DS, dict(estimate_stats=stats_stub)), (Q, dict(quantize_real=quantize_real_stub))]):
        def kw(d):
            k = dict(num_blocks=None, length_mode='num_blocks', digitize=True, verbose=False, load_template=False)
            if hdr_mode in ('explicit', 'explicit_twin'):
                k['header_dict'] = d
            return k

        def run():
            beA, antA = build_real(2, nant, period)
            dA = dict(user_first)
            k1 = kw(dA)
            k1['num_blocks'] = first_blocks
            beA.record('/mem/a1', **k1)
            kmid = antA.k
            dA2 = dict(user)
            k2 = kw(dA2 if hdr_mode in ('explicit', 'explicit_twin') else None)
            k2['num_blocks'] = 2
            beA.record('/mem/a2', **k2)
            beB, antB = build_real(2, nant, period)
            antB.k = kmid
            dB = dict(user)
            k3 = kw(dB)
            k3['num_blocks'] = 2
            beB.record('/mem/b2', **k3)
            return dA, dA2, dB
        leaf = core.run_single(run, [])
    dA, dA2, dB = leaf.value
    fa, fb_ = file_terms(fs, '/mem/a2'), file_terms(fs, '/mem/b2')
    problems, dis = [], []
    if [n for n, _ in fa] != [n for n, _ in fb_]:
        problems.append(f"files {[n for n, _ in fa]} vs {[n for n, _ in fb_]}")
    else:
        for (n1, a), (n2, b) in zip(fa, fb_):
            if len(a) != len(b):
                problems.append(f"{n1}: length {len(a)} vs {len(b)}")
                continue
            hdr_a = bytes(x for x in a if isinstance(x, int))
            hdr_b = bytes(x for x in b if isinstance(x, int))
            if hdr_mode == 'explicit_twin':
                cards = {hdr_a[i:i + 8].decode().strip(): hdr_a[i + 9:i + 80].decode().strip().strip("'").strip() for i in range(0, len(hdr_a), 80)}
                for key in ('RA', 'STT_OFFS', 'NUM'):
                    if cards.get(key) != str(user[key]):
                        problems.append(f"{n1}: card {key} reads {cards.get(key)!r}, the value handed to this recording is {user[key]!r} (the earlier recording carried {user_first[key]!r})")
            if hdr_a != hdr_b:
                la = [hdr_a[i:i + 80] for i in range(0, len(hdr_a), 80)]
                lb = [hdr_b[i:i + 80] for i in range(0, len(hdr_b), 80)]
                diff = [(x.decode(errors='replace').strip(), y.decode(errors='replace').strip()) for x, y in zip(la, lb) if x != y][:2]
                problems.append(f"{n1}: header bytes differ: {diff}")
            for x, y in zip(a, b):
                if isinstance(x, int) != isinstance(y, int):
                    problems.append(f"{n1}: framing differs")
                    break
                if not isinstance(x, int):
                    d = z3.simplify(lift(x) - lift(y))
                    if not (z3.is_rational_value(d) and d.numerator_as_long() == 0):
                        dis.append(d != 0)
    if hdr_mode in ('explicit', 'explicit_twin') and dA2 != user:
        problems.append(f"caller's header dictionary was modified: {sorted(set(dA2.items()) ^ set(user.items()))[:3]}")
    r0, _ = core.check([RV(int(not problems)) != 1])
    recs.append(q(tag + ':headers/framing/caller-dict', r0, trivial=True, detail='; '.join(problems[:2])))
    if problems:
        recs.append(cex(f"C12:history:{'caller-dict' if 'caller' in problems[0] else 'header'}", '; '.join(problems[:2]), pl, name=tag + ':headers/framing/caller-dict'))
    r, m = core.check(leaf.side + ([z3.Or(*dis)] if dis else [z3.BoolVal(False)]), timeout_ms=120000)
    recs.append(q(tag + ':bytes', r, by_solver=len(dis)))
    if r == 'sat':
        recs.append(cex('C12:history:bytes', 'a recording made after an earlier recording differs from the same recording on a fresh backend', pl, name=tag + ':bytes'))
    return recs


def job_history_array(delays, first_blocks, npol, source):
    """a real antenna source (MultiAntennaArray with delays, or Antenna) carrying time-dependent tones, noise free:
    the recording made after an earlier one equals the recording of a fresh, identical source started at the same instant"""
    from props import C02
    from props.C10 import proxy as gen_proxy
    recs = []
    tag = f"C12:history-source:{(tuple(delays), first_blocks, npol, source)}"
    pl = dict(fn='history_source', delays=list(delays), first_blocks=first_blocks, npol=npol, source=source)
    fs = MemFS()
    with volt_patches(opener=fs.open, proxy=gen_proxy()):
        def mk(t_start):
            be, arr, ws, _, _ = C02.build_array(4, 2, 3, 2, npol, delays, noise=False, tone=True, t_start=t_start)
            if source == 'antenna':
                ant = A.Antenna(sample_rate=1024.0, fch1=4096.0, ascending=True, num_pols=npol, t_start=t_start, seed=5)
                for pi, st in enumerate(ant.streams):
                    st.add_constant_signal(4096.0 + 100.0 + 7.0 * pi, 0.0, 1.0)
                be2 = B.RawVoltageBackend(ant, C02.UQ(), PF.PolyphaseFilterbank(num_taps=2, num_branches=4), C02.UCQ(num_bits=8), start_chan=0, num_chans=2,
                                          block_size=6 * 2 * 2 * npol, blocks_per_file=2, num_subblocks=2)
                for p in range(npol):
                    be2.digitizer[0][p].ident = (0, p)
                    be2.requantizer[0][p].ident = (0, p)
                    be2.filterbank[0][p].window = be.filterbank[0][0].window
                return be2, ant
            return be, arr
        beA, srcA = mk(0.25)
        kw = dict(length_mode='num_blocks', header_dict={}, digitize=True, verbose=False, load_template=False)
        beA.record('/mem/a1', num_blocks=first_blocks, **kw)
        tmid = srcA.t_start
        beA.record('/mem/a2', num_blocks=2, **kw)
        beB, srcB = mk(tmid)
        beB.record('/mem/b2', num_blocks=2, **kw)
    fa, fb_ = file_terms(fs, '/mem/a2'), file_terms(fs, '/mem/b2')
    dis, ok = [], [n for n, _ in fa] == [n for n, _ in fb_] and all(len(a) == len(b) for (_, a), (_, b) in zip(fa, fb_))
    if ok:
        for (_, a), (_, b) in zip(fa, fb_):
            for x, y in zip(a, b):
                if isinstance(x, int) or isinstance(y, int):
                    continue
                d = z3.simplify(lift(x) - lift(y))
                if not (z3.is_rational_value(d) and d.numerator_as_long() == 0):
                    dis.append(d != 0)
    r, m = core.check(([z3.Or(*dis)] if dis else [z3.BoolVal(False)]) if ok else [z3.BoolVal(True)], timeout_ms=120000)
    recs.append(q(tag, r, by_solver=len(dis), t_mid=str(tmid)))
    if r == 'sat':
        recs.append(cex('C12:history:source-clock', f"{source}: the recording made after an earlier recording differs from the same recording of a fresh source started at the same instant", pl, name=tag))
    # twin: the second recording is not the first one again (time moved on)
    f1 = file_terms(fs, '/mem/a1')
    d1 = [z3.simplify(lift(x) - lift(y)) for x, y in zip(f1[0][1], fa[0][1]) if not isinstance(x, int)]
    moved = any(not (z3.is_rational_value(d) and d.numerator_as_long() == 0) for d in d1)
    recs.append(q(tag + ':twin', 'sat' if moved else 'unsat', expect='sat'))
    return recs


def replay_history_source(p):
    import shutil
    import tempfile
    from setigen.voltage import backend as bk, polyphase_filterbank as pf, quantization as qz, antenna as an
    d = tempfile.mkdtemp(prefix='c12s_', dir='/var/tmp')
    npol, delays = p['npol'], p['delays']

    class FQ(qz.RealQuantizer):
        def quantize(s, v, custom_std=None):
            return np.clip(np.around(v * 20), -128, 127)

    class FCQ(qz.ComplexQuantizer):
        def quantize(s, v, custom_stds=None):
            return np.clip(np.around(np.real(v) * 2), -128, 127) + 1j * np.clip(np.around(np.imag(v) * 2), -128, 127)

    def mk(t_start):
        if p['source'] == 'antenna':
            src = an.Antenna(sample_rate=1024.0, fch1=4096.0, ascending=True, num_pols=npol, t_start=t_start, seed=5)
            streams, nant = src.streams, 1
        else:
            src = an.MultiAntennaArray(num_antennas=len(delays), sample_rate=1024.0, fch1=4096.0, ascending=True, num_pols=npol, delays=list(delays), t_start=t_start, seed=5)
            streams, nant = [s_ for a in src.antennas for s_ in a.streams], len(delays)
            for pi, bg in enumerate(src.bg_streams):
                bg.add_constant_signal(4096.0 + 200.0 + 5.0 * pi, 0.0, 2.0)
        for k, st in enumerate(streams):
            st.add_constant_signal(4096.0 + 100.0 + 7.0 * k, 0.0, 1.0)
        be = bk.RawVoltageBackend(src, FQ(), pf.PolyphaseFilterbank(num_taps=2, num_branches=4), FCQ(num_bits=8), start_chan=0, num_chans=2,
                                  block_size=6 * nant * 2 * 2 * npol, blocks_per_file=2, num_subblocks=2)
        return be, src
    try:
        kw = dict(length_mode='num_blocks', header_dict={}, digitize=True, verbose=False, load_template=False)
        beA, srcA = mk(0.25)
        beA.record(os.path.join(d, 'a1'), num_blocks=p['first_blocks'], **kw)
        tmid = srcA.t_start
        beA.record(os.path.join(d, 'a2'), num_blocks=2, **kw)
        beB, srcB = mk(tmid)
        beB.record(os.path.join(d, 'b2'), num_blocks=2, **kw)
        ra, rb = open(os.path.join(d, 'a2.0000.raw'), 'rb').read(), open(os.path.join(d, 'b2.0000.raw'), 'rb').read()
        nd = sum(1 for x, y in zip(ra, rb) if x != y) + abs(len(ra) - len(rb))
        return nd > 0, f"{p['source']} with delays {delays}: second recording differs from a fresh source started at t={tmid!r} in {nd} of {len(ra)} bytes"
    finally:
        shutil.rmtree(d, ignore_errors=True)


def job_clone_keeps_estimate(nant, npol):
    """a template filterbank whose unit-noise deviations were estimated WITH a seed is cloned per antenna and
    polarisation by the backend: every clone carries that estimate (so nothing asks for an unseeded one later)"""
    recs = []
    tag = f"C12:clone-keeps-estimate:{(nant, npol)}"
    del ENTROPY[:]
    px = proxy()
    with volt_patches(proxy=px):
        fb = PF.PolyphaseFilterbank(num_taps=1, num_branches=2)
        tmpl = fb.estimate_channelized_stds(factor=3, seed=31)
        ant = C02.FakeAntenna(npol) if nant == 1 else C02.FakeArray(nant, npol)
        be = B.RawVoltageBackend(ant, C02.UQ(), fb, C02.UCQ(num_bits=8), start_chan=0, num_chans=1, block_size=2 * nant * 2 * npol, blocks_per_file=2, num_subblocks=1)
        clones = [be.filterbank[a][p] for a in range(nant) for p in range(npol)]
        got = [c.channelized_stds for c in clones]
    missing = [i for i, g in enumerate(got) if g is None]
    dis = []
    if not missing:
        for g in got:
            dis += [lift(g[0]) * lift(g[0]) != lift(tmpl[0]) * lift(tmpl[0]), lift(g[1]) * lift(g[1]) != lift(tmpl[1]) * lift(tmpl[1])]
    r, _ = core.check([z3.Or(z3.BoolVal(bool(missing)), *dis)], timeout_ms=60000)
    recs.append(q(tag, r, missing=missing))
    if r == 'sat':
        recs.append(cex('C12:clone-keeps-estimate', f"the backend's per-antenna/polarisation filterbanks do not carry the seeded unit-noise estimate of the template (missing on {missing})", dict(fn='clone_estimate', nant=nant, npol=npol), name=tag))
    ent = [lift(tmpl[0]) * lift(tmpl[0])]
    r, _ = depends_on_entropy(ent, [])
    recs.append(q(tag + ':seeded-estimate-has-no-entropy', r))
    return recs


def job_estimate_after_stream(taps, P):
    """a seeded unit-noise estimate made on a filterbank that already streamed data (a recording leaves its tail in the
    cache) equals the estimate of a fresh filterbank with the same seed: the earlier stream is no input to it"""
    recs = []
    tag = f"C12:estimate-after-stream:{(taps, P)}"
    px = proxy()
    with volt_patches(proxy=px):
        used, fresh = PF.PolyphaseFilterbank(num_taps=taps, num_branches=P), PF.PolyphaseFilterbank(num_taps=taps, num_branches=P)
        w = npx.sarr([Sym(z3.Real(f'w_{m}')) for m in range(taps * P)])
        used.window, fresh.window = w, w
        used.channelize(npx.sarr([Sym(z3.Real(f'earlier_{k}')) for k in range(2 * taps * P)]), cache=True)
        a = used.estimate_channelized_stds(factor=2 * taps, seed=31)
        b = fresh.estimate_channelized_stds(factor=2 * taps, seed=31)
    dis = []
    for x, y in zip(a, b):
        rx, ry = getattr(x, 'radicand', None), getattr(y, 'radicand', None)
        tx, ty = (rx if rx is not None else lift(x) * lift(x)), (ry if ry is not None else lift(y) * lift(y))
        d = z3.simplify(tx - ty, som=True)
        if not (z3.is_rational_value(d) and d.numerator_as_long() == 0):
            dis.append(d != 0)
    r, _ = core.check(list(core.GLOBAL_SIDE) + ([z3.Or(*dis)] if dis else [z3.BoolVal(False)]), timeout_ms=60000)
    recs.append(q(tag, r, by_solver=len(dis)))
    if r == 'sat':
        recs.append(cex('C12:estimate-after-stream', 'a seeded unit-noise estimate depends on what the filterbank streamed before', dict(fn='estimate_after_stream', taps=taps, P=P), name=tag))
    return recs


def replay_estimate_after_stream(p):
    from setigen.voltage import polyphase_filterbank as pf
    used, fresh = (pf.PolyphaseFilterbank(num_taps=4, num_branches=8) for _ in range(2))
    used.channelize(100.0 * np.random.default_rng(1).standard_normal(64 * 8), cache=True)
    a, b = np.asarray(used.estimate_channelized_stds(factor=50, seed=31)), np.asarray(fresh.estimate_channelized_stds(factor=50, seed=31))
    return (not np.array_equal(a, b)), f"seeded estimate after streaming {a.tolist()}, on a fresh filterbank {b.tolist()}"


def replay_clone_estimate(p):
    from setigen.voltage import backend as bk, polyphase_filterbank as pf, quantization as qz, antenna as an
    nant, npol = p['nant'], p['npol']
    fb = pf.PolyphaseFilterbank(num_taps=2, num_branches=8)
    tmpl = np.array(fb.estimate_channelized_stds(factor=200, seed=7))
    src = an.Antenna(sample_rate=1024.0, num_pols=npol, seed=1) if nant == 1 else an.MultiAntennaArray(nant, sample_rate=1024.0, num_pols=npol, delays=[0] * nant, seed=1)
    be = bk.RawVoltageBackend(src, qz.RealQuantizer(), fb, qz.ComplexQuantizer(), start_chan=0, num_chans=2, block_size=4 * nant * 2 * 2 * npol, blocks_per_file=2, num_subblocks=1)
    bad = []
    for a in range(nant):
        for q_ in range(npol):
            g = be.filterbank[a][q_].channelized_stds
            if g is None or not np.array_equal(np.array(g), tmpl):
                bad.append(f"filterbank[{a}][{q_}].channelized_stds = {g!r}")
    return bool(bad), (f"template estimate {tmpl} (seed 7) not carried by the backend's clones: " + '; '.join(bad[:2])) if bad else 'clones carry the seeded estimate'


def job_history_cross(order):
    """array recording then single-antenna recording (or vice versa) in one process vs the second one alone"""
    recs = []
    tag = f"C12:history-cross:{order}"
    fs = MemFS()
    with volt_patches(opener=fs.open, extra=[(DS, dict(estimate_stats=stats_stub)), (Q, dict(quantize_real=quantize_real_stub))]):
        def run():
            n1, n2 = (2, 1) if order == 'array-then-single' else (1, 2)
            be1, _ = build_real(2, n1, 1)
            be1.record('/mem/first', num_blocks=1, length_mode='num_blocks', verbose=False, load_template=True)
            be2, _ = build_real(2, n2, 1)
            be2.record('/mem/second', num_blocks=1, length_mode='num_blocks', verbose=False, load_template=True)
            be3, _ = build_real(2, n2, 1)
            be3.record('/mem/alone', num_blocks=1, length_mode='num_blocks', verbose=False, load_template=True)
        leaf = core.run_single(run, [])
    a, b = file_terms(fs, '/mem/second'), file_terms(fs, '/mem/alone')
    ha = [bytes(x for x in f if isinstance(x, int)) for _, f in a]
    hb = [bytes(x for x in f if isinstance(x, int)) for _, f in b]
    same = ha == hb and [len(f) for _, f in a] == [len(f) for _, f in b]
    detail = ''
    if not same and ha and hb:
        la = [ha[0][i:i + 80] for i in range(0, len(ha[0]), 80)]
        lb = [hb[0][i:i + 80] for i in range(0, len(hb[0]), 80)]
        detail = str([(x.decode().strip(), y.decode().strip()) for x, y in zip(la, lb) if x != y][:2]) + f" cards {len(la)} vs {len(lb)}"
    r, _ = core.check([RV(int(same)) != 1])
    recs.append(q(tag, r, trivial=True, detail=detail))
    if not same:
        recs.append(cex('C12:history:cross', f'{order}: header of the second recording depends on the first: {detail}', dict(fn='cross', order=order), name=tag))
    return recs


# ---------------------------------------------------------------- (c) copy / pickle
def frame_routes(tmp):
    import setigen as stg
    rng = np.random.default_rng(0)
    fr = stg.Frame(fchans=8, tchans=4, df=2.0, dt=4.0, fch1=4096.0, seed=1, t_start=1.5e9, source_name='S')
    fr.add_noise(5.0)
    fr.add_metadata({'k': [1, 2]})
    out = {'sizes': fr, 'from_data': stg.Frame.from_data(2.0, 4.0, 4096.0, True, rng.normal(size=(3, 5)), metadata={'a': 1})}
    w = fr.copy()
    w.get_waterfall()
    out['with_waterfall'] = w
    for ext in ('fil', 'h5'):
        fn = os.path.join(tmp, f'x.{ext}')
        (fr.save_fil if ext == 'fil' else fr.save_h5)(fn)
        out[f'loaded_{ext}'] = stg.Frame(waterfall=fn)
    out['slice'] = fr.get_slice(1, 5)
    # frames whose axes are not the defaults computed from the parameters
    a, b = (stg.Frame(fchans=8, tchans=3, df=2.0, dt=4.0, fch1=4096.0, seed=s_, t_start=1.5e9 + 100.0 * s_) for s_ in (1, 2))
    for f_ in (a, b):
        f_.add_noise(5.0)
    out['consolidated'] = stg.Cadence([a, b]).consolidate()
    sh = fr.copy()
    sh.ts = sh.ts + 1234.5
    out['shifted_ts'] = sh
    dd = stg.dedrift(fr, 0.4)
    out['dedrifted'] = dd
    return out


def frames_equal(a, b):
    bad = []
    for k in ('shape', 'df', 'dt', 'fch1', 'ascending', 't_start', 'source_name', 'tchans', 'fchans', 'noise_mean', 'noise_std', 'fmin', 'fmax'):
        if getattr(a, k) != getattr(b, k):
            bad.append(k)
    for k in ('data', 'fs', 'ts'):
        if not np.array_equal(getattr(a, k), getattr(b, k)):
            bad.append(k)
    if repr(a.metadata) != repr(b.metadata):
        bad.append('metadata')
    if (a.waterfall is None) != (b.waterfall is None):
        bad.append('waterfall presence')
    elif a.waterfall is not None:
        if not np.array_equal(a.waterfall.data, b.waterfall.data) or {k: repr(v) for k, v in a.waterfall.header.items()} != {k: repr(v) for k, v in b.waterfall.header.items()}:
            bad.append('waterfall content')
    if str(a.rng.bit_generator.state) != str(b.rng.bit_generator.state):
        bad.append('rng state')
    return bad


def isolation(a, b):
    """mutate b in every mutable field; a must not change"""
    snap = copy.deepcopy((a.data, a.fs, a.ts, a.metadata, a.waterfall.data if a.waterfall is not None else None))
    b.data[0, 0] += 17.0
    b.fs[0] += 1.0
    b.ts[0] += 1.0
    b.metadata['new'] = 1
    for v in b.metadata.values():
        if isinstance(v, list):
            v.append(99)
    if b.waterfall is not None:
        b.waterfall.data[0, 0, 0] += 5.0
        b.waterfall.header['source_name'] = 'changed'
    b.rng.standard_normal(3)
    bad = []
    if not np.array_equal(a.data, snap[0]) or not np.array_equal(a.fs, snap[1]) or not np.array_equal(a.ts, snap[2]):
        bad.append('arrays shared')
    if repr(a.metadata) != repr(snap[3]):
        bad.append('metadata shared')
    if a.waterfall is not None and (not np.array_equal(a.waterfall.data, snap[4]) or a.waterfall.header.get('source_name') == 'changed'):
        bad.append('waterfall shared')
    return bad


def job_copy():
    import shutil
    import tempfile
    import setigen as stg
    recs = []
    tmp = tempfile.mkdtemp(prefix='c12_', dir='/var/tmp')
    try:
        for name, fr in frame_routes(tmp).items():
            fr._update_waterfall() if fr.waterfall is not None else None
            problems = []
            c = fr.copy()
            problems += [f'copy: {b}' for b in frames_equal(fr, c)]
            st0 = str(fr.rng.bit_generator.state)
            problems += [f'copy: {b}' for b in isolation(fr, c)]
            if str(fr.rng.bit_generator.state) != st0:
                problems.append('copy: generator shared')
            fn = os.path.join(tmp, 'p.pickle')
            fr.save_pickle(fn)
            u = stg.Frame.load_pickle(fn)
            eq = [b for b in frames_equal(fr, u) if not b.startswith('waterfall')]     # the Waterfall is documented as not pickled
            problems += [f'pickle: {b}' for b in eq]
            problems += [f'pickle: {b}' for b in isolation(fr, u)]
            r, _ = core.check([RV(int(not problems)) != 1])
            recs.append(q(f"C12:copy:{name}", r, trivial=True, detail='; '.join(problems[:3])))
            if problems:
                recs.append(cex(f"C12:copy:{'isolation' if any('shared' in p for p in problems) else 'equality'}", f'{name}: ' + '; '.join(problems[:3]), dict(fn='copy'), name=f"C12:copy:{name}"))
    finally:
        shutil.rmtree(tmp, ignore_errors=True)
    return recs


# ---------------------------------------------------------------- (d) distinct streams
def job_distinct():
    recs = []
    px = proxy()
    del ENTROPY[:]
    with volt_patches(proxy=px):
        a = A.Antenna(sample_rate=1.0, num_pols=2, seed=3)
        arr = A.MultiAntennaArray(2, sample_rate=1.0, num_pols=2, delays=[0, 0], seed=4)
        seeds = [a.x.rng.seed, a.y.rng.seed] + [st.rng.seed for an in arr.antennas for st in an.streams] + [bg.rng.seed for bg in arr.bg_streams]
    dis = [z3.simplify(seeds[i] - seeds[j]) for i in range(len(seeds)) for j in range(i + 1, len(seeds))]
    # child seeds are distinct draws: none of the differences is identically zero (syntactic) and the streams can differ
    same = [d for d in dis if z3.is_rational_value(d) and d.numerator_as_long() == 0]
    r, _ = core.check([RV(len(same)) != 0])
    recs.append(q("C12:distinct:pol/antenna/background seeds are distinct draws", r, trivial=True))
    if same:
        recs.append(cex('C12:distinct', 'two polarisations / antennas share a generator seed', dict(fn='distinct'), name="C12:distinct:pol/antenna/background seeds are distinct draws"))
    with frame_patches(proxy=px, extra=[(DIST, dict(np=px))]):
        f1 = FR.Frame(fchans=2, tchans=1, df=2.0, dt=4.0, fch1=4096.0, seed=1)
        f2 = FR.Frame(fchans=2, tchans=1, df=2.0, dt=4.0, fch1=4096.0, seed=2)
        f3 = FR.Frame(fchans=2, tchans=1, df=2.0, dt=4.0, fch1=4096.0, seed=1)
        n1, n2, n3 = f1.add_noise(1.0), f2.add_noise(1.0), f3.add_noise(1.0)
    r, _ = core.check([lift(n1[0, 0]) != lift(n2[0, 0])])
    recs.append(q("C12:distinct:frames with different seeds can differ", r, expect='sat'))
    r, _ = core.check([z3.Or(*[lift(a_) != lift(b_) for a_, b_ in zip(n1.flat, n3.flat)])])
    recs.append(q("C12:distinct:frames with the same seed agree", r))
    return recs


# ------------------------------------------------------------------ concrete oracles
def replay_history(p):
    import hashlib
    import shutil
    import tempfile
    from setigen.voltage import backend as bk, polyphase_filterbank as pf, quantization as qz, antenna as an
    d = tempfile.mkdtemp(prefix='c12_', dir='/var/tmp')
    msgs = []
    try:
        def mk():
            src = an.Antenna(sample_rate=1024.0, num_pols=2, seed=5) if p['nant'] == 1 else an.MultiAntennaArray(p['nant'], sample_rate=1024.0, num_pols=2, delays=[0] * p['nant'], seed=5)
            for st in (src.streams if p['nant'] == 1 else [s for a in src.antennas for s in a.streams]):
                st.add_noise(0, 1)
                st.add_signal(lambda ts: 0.5 * np.sin(40 * ts) * (1 + ts * 20))
            be = bk.RawVoltageBackend(src, qz.RealQuantizer(num_bits=8, stats_calc_period=p['period'], stats_calc_num_samples=50), pf.PolyphaseFilterbank(num_taps=2, num_branches=4),
                                      qz.ComplexQuantizer(num_bits=8, stats_calc_period=p['period'], stats_calc_num_samples=50), start_chan=0, num_chans=2,
                                      block_size=2 * (p['geom'][0] if p.get('geom') else 16) * p['nant'] * 2 * 4, blocks_per_file=2, num_subblocks=(p['geom'][1] if p.get('geom') else 3))
            return be, src
        user = {'HELLO': 'x', 'PKTIDX': 500}
        twin = p['hdr_mode'] == 'explicit_twin'
        user_first = dict(user, RA=180, STT_OFFS=0.0, NUM=7.0) if twin else user
        if twin:
            user = dict(user, RA=180.0, STT_OFFS=0, NUM=7)
        kw = lambda dct: (dict(header_dict=dct) if p['hdr_mode'] in ('explicit', 'explicit_twin') else {})
        beA, srcA = mk()
        beA.record(os.path.join(d, 'a1'), num_blocks=p['first_blocks'], length_mode='num_blocks', verbose=False, load_template=False, **kw(dict(user_first)))
        srcA.set_time(0)
        dA2 = dict(user)
        beA.record(os.path.join(d, 'a2'), num_blocks=2, length_mode='num_blocks', verbose=False, load_template=False, **kw(dA2))
        # fresh process state: same seeds; replay the first recording's generator consumption by repeating it on a scratch backend? no --
        # the antenna is rewound (set_time) and noise draws continue, so the fresh twin must consume the same draws: run recording #1 on a throw-away backend sharing the twin's antenna
        beT, srcB = mk()
        beT.record(os.path.join(d, 't1'), num_blocks=p['first_blocks'], length_mode='num_blocks', verbose=False, load_template=False, **kw(dict(user)))
        srcB.set_time(0)
        beB = bk.RawVoltageBackend(srcB, qz.RealQuantizer(num_bits=8, stats_calc_period=p['period'], stats_calc_num_samples=50), pf.PolyphaseFilterbank(num_taps=2, num_branches=4),
                                   qz.ComplexQuantizer(num_bits=8, stats_calc_period=p['period'], stats_calc_num_samples=50), start_chan=0, num_chans=2,
                                   block_size=2 * (p['geom'][0] if p.get('geom') else 16) * p['nant'] * 2 * 4, blocks_per_file=2, num_subblocks=(p['geom'][1] if p.get('geom') else 3))
        beB.record(os.path.join(d, 'b2'), num_blocks=2, length_mode='num_blocks', verbose=False, load_template=False, **kw(dict(user)))
        if twin:
            from setigen.voltage import raw_utils as ru_
            h2 = ru_.read_header(os.path.join(d, 'a2.0000.raw'))
            for key in ('RA', 'STT_OFFS', 'NUM'):
                if str(h2.get(key)).strip() != str(user[key]):
                    msgs.append(f"card {key} of the later recording reads {h2.get(key)!r}; it was given {user[key]!r} (the earlier recording carried {user_first[key]!r})")
        ha = hashlib.sha256(open(os.path.join(d, 'a2.0000.raw'), 'rb').read()).hexdigest()
        hb = hashlib.sha256(open(os.path.join(d, 'b2.0000.raw'), 'rb').read()).hexdigest()
        if ha != hb:
            ra, rb = open(os.path.join(d, 'a2.0000.raw'), 'rb').read(), open(os.path.join(d, 'b2.0000.raw'), 'rb').read()
            nd = sum(1 for x, y in zip(ra, rb) if x != y)
            msgs.append(f"second recording differs from the same recording on a fresh backend ({nd} of {len(ra)} bytes)")
        if p['hdr_mode'] in ('explicit', 'explicit_twin') and dA2 != user:
            msgs.append(f"caller dictionary modified: {dA2}")
    except Exception as e:
        msgs.append(f"raised {type(e).__name__}: {e}")
    finally:
        shutil.rmtree(d, ignore_errors=True)
    return bool(msgs), '; '.join(msgs) or 'recordings are history independent'


def replay_concrete_job(jobfn):
    def f(p):
        recs = jobfn() if not p.get('order') else jobfn(p['order'])
        bad = [r for r in recs if r['kind'] == 'cex']
        return bool(bad), bad[0]['what'] if bad else 'ok'
    return f


def replay_seeded(p):
    """run the scenario twice in fresh generators with the same seeds on the real code: outputs must be identical"""
    import setigen as stg
    outs = []
    sv = p.get('seed')
    sd = (lambda d: d) if sv is None else ((lambda d: 0) if sv == 0 else (lambda d: np.int64(0)))
    for rep in range(2):
        np.random.seed(rep)      # perturb the legacy global state between repetitions
        if p['group'] == 'frame':
            k, _, route = p['kind'].partition('@')
            fr = frame_by_route(stg.Frame, route, sd(11), fchans=8, tchans=4)
            arrs = [np.array([1.0, 2.0, 3.0]), np.array([0.1, 0.2, 0.3]), np.array([0.0, 0.5, 0.7])]
            if k == 'chi2':
                o = fr.add_noise(3.0)
            elif k == 'gaussian':
                o = fr.add_noise(3.0, 1.0, noise_type='gaussian')
            elif k == 'truncated':
                o = fr.add_noise(3.0, 1.0, 2.5, noise_type='normal')
            elif k.startswith('obs'):
                o = fr.add_noise_from_obs(arrs[0], arrs[1], arrs[2] if 'min' in k else None, share_index=k.endswith('share') and 'noshare' not in k, noise_type='chi2' if 'chi2' in k else 'gaussian')
            elif k == 'rfi_path':
                o = stg.simple_rfi_path(4090.0, 0.1, 5.0, spread_type='normal', rfi_type='random_walk', seed=sd(5))(fr.ts)
            else:
                o = stg.periodic_gaussian_t_profile(2.0, 10.0, phase=1.0, pulse_offset_width=1.0, pnum=2, seed=sd(3))(fr.ts)
        else:
            from setigen.voltage import antenna as an, data_stream as ds, polyphase_filterbank as pf
            k = p['kind']
            if k == 'stream':
                s = ds.DataStream(sample_rate=10.0, seed=sd(21))
                s.add_noise(0, 1)
                o = np.concatenate([s.get_samples(5), s.get_samples(3)])
            elif k == 'antenna':
                a = an.Antenna(sample_rate=10.0, num_pols=2, seed=sd(22))
                [st.add_noise(0, 1) for st in a.streams]
                o = a.get_samples(6)
            elif k == 'array':
                a = an.MultiAntennaArray(2, sample_rate=10.0, num_pols=2, delays=[0, 1], seed=sd(23))
                [st.add_noise(0, 1) for t in a.antennas for st in t.streams]
                [bg.add_noise(0, 1) for bg in a.bg_streams]
                o = a.get_samples(6)
            else:
                o = pf.PolyphaseFilterbank(num_taps=2, num_branches=4).estimate_channelized_stds(factor=50, seed=sd(31))
        outs.append(np.array(o, dtype=float if not np.iscomplexobj(o) else complex))
    return (not np.array_equal(outs[0], outs[1])), f"{p['kind']}: two runs with identical seeds differ (max abs diff {np.max(np.abs(outs[0] - outs[1])) if outs[0].shape == outs[1].shape else 'shape'})"


REPLAYS = {'estimate_after_stream': replay_estimate_after_stream, 'clone_estimate': replay_clone_estimate, 'history': replay_history, 'history_source': replay_history_source, 'seeded': replay_seeded, 'copy': replay_concrete_job(job_copy), 'cross': replay_concrete_job(job_history_cross), 'distinct': replay_concrete_job(job_distinct)}


def main():
    ck = Check('C12', 'Determinism from seeds, history independence, copy isolation')
    ck.functions = ['Frame.__init__', 'Frame.add_noise', 'Frame.add_noise_from_obs', 'distributions.chi2/gaussian/truncated_gaussian', 'sample_from_obs.sample_gaussian_params',
                    'funcs.paths.simple_rfi_path', 'funcs.t_profiles.periodic_gaussian_t_profile', 'DataStream.__init__/add_noise/get_samples', 'Antenna.__init__', 'MultiAntennaArray.__init__',
                    'PolyphaseFilterbank.estimate_channelized_stds', 'RawVoltageBackend.record', 'RawVoltageBackend._header_*', 'RealQuantizer.quantize/_reset_cache', 'ComplexQuantizer.quantize/_reset_cache',
                    'Frame.copy', 'Frame.__getstate__', 'Frame.save_pickle', 'Frame.load_pickle']
    ck.files = ['setigen/frame.py', 'setigen/voltage/backend.py', 'setigen/voltage/antenna.py', 'setigen/voltage/data_stream.py', 'setigen/voltage/polyphase_filterbank.py',
                'setigen/voltage/quantization.py', 'setigen/funcs/paths.py', 'setigen/funcs/t_profiles.py', 'setigen/distributions.py', 'setigen/sample_from_obs.py']
    ck.stubs = ['numpy default_rng(seed) -> deterministic draw terms DRAW(kind, seed, k); default_rng(None) and time.time() -> FREE symbols', 'estimate_stats -> deterministic function of its input (history job)',
                'antenna -> symbolic stream, exact DFT, in-memory files (history job)']
    ck.assumptions = ['RESTRICTED claim: NumPy Generator bit-reproducibility is trusted; decided are absence of hidden entropy, history independence of record(), copy/pickle equality and aliasing, distinctness of seed streams',
                      'copy / pickle isolation is an aliasing property of the object graph and is checked on concrete frames from every construction route (incl. real .fil/.h5 files)']
    jobs = []
    for k in FRAME_SCEN:
        jobs.append(('job_no_hidden_input', ('frame', k)))
    for route in ROUTES:
        jobs.append(('job_no_hidden_input', ('frame', f'chi2@{route}')))
    for sv in (0, 'np0'):
        for k in ('chi2', 'obs_gauss_share', 'rfi_path', 'pulse_profile'):
            jobs.append(('job_no_hidden_input', ('frame', k, sv)))
        for k in VOLT_SCEN:
            jobs.append(('job_no_hidden_input', ('voltage', k, sv)))
    for k in VOLT_SCEN:
        jobs.append(('job_no_hidden_input', ('voltage', k)))
    for period in (1, 2, 4, -1):
        for first_blocks in (1, 2):
            for hdr_mode in ('default', 'explicit'):
                jobs.append(('job_history', (period, first_blocks, hdr_mode, 1)))
    jobs.append(('job_history', (3, 1, 'explicit', 2)))
    jobs.append(('job_history', (1, 1, 'explicit_twin', 1)))
    jobs.append(('job_history', (1, 1, 'default', 1, (5, 2))))
    for (delays, fb_, npol, source) in (((0, 3), 1, 1, 'array'), ((2, 0), 2, 2, 'array'), ((0, 0), 1, 1, 'array'), ((0,), 1, 2, 'antenna'), ((0,), 2, 1, 'antenna')):
        jobs.append(('job_history_array', (delays, fb_, npol, source)))
    for (na_, np_) in ((1, 2), (2, 1)):
        jobs.append(('job_clone_keeps_estimate', (na_, np_)))
    for (t_, P_) in ((1, 2), (2, 4)):
        jobs.append(('job_estimate_after_stream', (t_, P_)))
    for order in ('array-then-single', 'single-then-array'):
        jobs.append(('job_history_cross', (order,)))
    jobs.append(('job_copy', ()))
    jobs.append(('job_distinct', ()))
    ck.bounds = dict(scenarios=FRAME_SCEN + VOLT_SCEN, refresh_periods='1,2,4,-1 (3 for the array)', first_recording_blocks='1,2', sub_blocks=2, header_dicts='default / explicit')
    ck.run_jobs('props.C12', jobs, timeout_s=900)
    ck.finish()


if __name__ == '__main__':
    main()
