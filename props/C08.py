"""C08 -- polyphase filterbank = FIR + DFT definition, linear, invariant to chunking.

E1: the real PolyphaseFilterbank.channelize / pfb_frontend / _reset_cache / get_pfb_voltages run on
symbolic sample streams with a symbolic window; numpy.fft is the exact DFT (lengths 2, 4, 8).
"""
import itertools
import time

import numpy as np
import z3

from symx import core, npx, shadow
from symx.core import Sym, SymC, lift, RV
from symx.report import Check, q, cex, note
from props.volt_common import PF, volt_patches, sym_stream, pfb_spec, cparts, diff_terms


def compositions(n):
    """all ordered compositions of n into positive parts"""
    if n == 0:
        yield ()
        return
    for first in range(1, n + 1):
        for rest in compositions(n - first):
            yield (first,) + rest


def mk_fb(taps, P, symbolic_window=True, tag='w'):
    fb = PF.PolyphaseFilterbank(num_taps=taps, num_branches=P)
    real_window = np.array(fb.window, dtype=float)
    if symbolic_window:
        fb.window = npx.sarr([Sym(z3.Real(f'{tag}_{m}')) for m in range(taps * P)])
    return fb, real_window


def stream_terms(x):
    return [cparts(e) for e in x]


def check_out(out, xs, ws, P, taps, nspec_expected, offset=0):
    """pairs impl/spec for an output array `out` claimed to be spectra offset.. of stream xs"""
    pairs = []
    if out.shape != (nspec_expected, P // 2):
        return None
    for n in range(nspec_expected):
        for k in range(P // 2):
            pairs.append((cparts(out[n, k]), pfb_spec(xs, ws, offset + n, k, P, taps)))
    return pairs


def decide(name, pairs, recs, key, what, payload, pre=()):
    if pairs is None:
        recs.append(q(name, 'sat', detail='output shape mismatch'))
        recs.append(cex(key + ':shape', what + ' (number of spectra / channels)', payload, name=name))
        return
    dis = diff_terms(pairs)
    if not dis:
        r, m = core.check(list(pre) + [z3.BoolVal(False)])
        recs.append(q(name, r, by='rewriter', terms=2 * len(pairs)))
        return
    t0 = time.time()
    r, m = core.check(list(pre) + [z3.Or(*dis)], timeout_ms=120000)
    recs.append(q(name, r, ms=(time.time() - t0) * 1000, terms=len(dis)))
    if r == 'sat':
        recs.append(cex(key, what, payload, name=name))


def strided(x, layout):
    """the same samples as a non-contiguous view: every second element of a longer array, or a column of a 2-D array"""
    if layout == 'contig':
        return x
    n = len(x)
    if layout == 'every2':
        base = np.empty(2 * n, dtype=object)
        base[::2] = list(x)
        base[1::2] = [Sym(z3.Real(f'gap_{i}')) for i in range(n)]
        return base.view(npx.SymArr)[::2]
    base = np.empty((n, 3), dtype=object)
    for c in range(3):
        base[:, c] = list(x) if c == 1 else [Sym(z3.Real(f'col{c}_{i}')) for i in range(n)]
    return base.view(npx.SymArr)[:, 1]


def job_definition(P, taps, W, cplx, layout='contig'):
    recs = []
    tag = f"C08:def:{(P, taps, W, cplx)}" + ('' if layout == 'contig' else f":{layout}")
    with volt_patches():
        fb, _ = mk_fb(taps, P)
        x = sym_stream('x', W * taps * P, complex_=cplx)
        if layout == 'int':
            # integer-typed samples (quantised voltages): the window-weighted sums are not integers
            x = x.astype(npx.SymDType('i'))
            out = fb.channelize(x, cache=False)
        else:
            out = fb.channelize(strided(x, layout), cache=False)
        ws = [lift(w) for w in fb.window]
        pairs = check_out(out, stream_terms(x), ws, P, taps, (W - 1) * taps)
    pl = dict(fn='pfb', P=P, taps=taps, chunks=[W], cplx=cplx, scenario='oneshot', layout=layout)
    decide(tag, pairs, recs, 'C08:definition' if layout == 'contig' else 'C08:definition:strided-input', 'channelize output differs from the FIR+DFT definition', pl)
    # twin
    if pairs:
        r, _ = core.check([pairs[0][0][0] != pairs[0][1][0] + 1])
        recs.append(q(tag + ':twin', r, expect='sat'))
    return recs


def job_linear(P, taps, W):
    recs = []
    tag = f"C08:linear:{(P, taps, W)}"
    a, b = Sym(z3.Real('a')), Sym(z3.Real('b'))
    with volt_patches():
        fb, _ = mk_fb(taps, P)
        x = sym_stream('x', W * taps * P)
        y = sym_stream('y', W * taps * P)
        ox = fb.channelize(x, cache=False)
        oy = fb.channelize(y, cache=False)
        oz = fb.channelize(a * x + b * y, cache=False)
    pairs = []
    for idx in np.ndindex(oz.shape):
        lhs = cparts(oz[idx])
        rx, ry = cparts(ox[idx]), cparts(oy[idx])
        pairs.append((lhs, (a.t * rx[0] + b.t * ry[0], a.t * rx[1] + b.t * ry[1])))
    decide(tag, pairs, recs, 'C08:linearity', 'channelize is not linear', dict(fn='pfb', P=P, taps=taps, chunks=[W], cplx=False, scenario='linear'))
    return recs


def job_complex(P, taps, W):
    recs = []
    tag = f"C08:complex:{(P, taps, W)}"
    with volt_patches():
        fb, _ = mk_fb(taps, P)
        xr = sym_stream('xr', W * taps * P)
        xi = sym_stream('xi', W * taps * P)
        z = npx.sarr([SymC(r, i) for r, i in zip(xr, xi)])
        orr = fb.channelize(xr, cache=False)
        oi = fb.channelize(xi, cache=False)
        oz = fb.channelize(z, cache=False)
    pairs = []
    for idx in np.ndindex(oz.shape):
        (a, b), (c, d) = cparts(orr[idx]), cparts(oi[idx])
        pairs.append((cparts(oz[idx]), (a - d, b + c)))      # (a+ib) + i(c+id)
    decide(tag, pairs, recs, 'C08:complex', 'complex input is not channelised as real + i*imag', dict(fn='pfb', P=P, taps=taps, chunks=[W], cplx=True, scenario='oneshot'))
    return recs


def job_chunks(P, taps, Wtot, cplx=False):
    """every composition of Wtot windows into chunks == one shot, term for term (cplx: a complex stream -- the tail
    carried over between calls keeps its imaginary part)"""
    recs = []
    for comp in compositions(Wtot):
        tag = f"C08:chunks:{(P, taps, Wtot)}:{comp}" + (':complex' if cplx else '')
        with volt_patches():
            fb, _ = mk_fb(taps, P)
            fb._reset_cache()
            x = sym_stream('x', Wtot * taps * P, complex_=cplx)
            ws = [lift(w) for w in fb.window]
            outs, pos = [], 0
            for c in comp:
                n = c * taps * P
                outs.append(fb.channelize(x[pos:pos + n], cache=True))
                pos += n
            cache_after = fb.cache
        xs = stream_terms(x)
        pairs, off, ok = [], 0, True
        for ci, (c, o) in enumerate(zip(comp, outs)):
            nspec = (c - 1) * taps if ci == 0 else c * taps
            pr = check_out(o, xs, ws, P, taps, nspec, offset=off)
            if pr is None:
                ok = False
                break
            pairs += pr
            off += nspec
        if ok and off != (Wtot - 1) * taps:
            ok = False
        # the cache handed to the next call is the last window of the stream
        if ok:
            if cache_after is None or len(cache_after) != taps * P:
                ok = False
            else:
                for i in range(taps * P):
                    pairs.append((cparts(cache_after[i]), xs[(Wtot - 1) * taps * P + i]))
        decide(tag, pairs if ok else None, recs, 'C08:chunking', f'chunked channelize {comp} differs from the one-shot spectra',
               dict(fn='pfb', P=P, taps=taps, chunks=list(comp), cplx=cplx, scenario='chunks'))
    return recs


def job_reconfigured(P0, taps0, P, taps, Wtot):
    """a filterbank object built for (taps0, P0) whose sizes are then re-assigned to (taps, P) and whose window is
    redesigned (fb._get_pfb_window()): streamed in chunks it is the (taps, P) filterbank -- nothing sized at construction
    survives"""
    recs = []
    for comp in compositions(Wtot):
        tag = f"C08:reconfigured:{(P0, taps0)}->{(P, taps)}:{comp}"
        with volt_patches():
            fb = PF.PolyphaseFilterbank(num_taps=taps0, num_branches=P0)
            fb.num_taps, fb.num_branches = taps, P
            fb._get_pfb_window()
            if len(fb.window) != taps * P:
                recs.append(q(tag, 'sat'))
                recs.append(cex('C08:reconfigured', 'window not redesigned for the re-assigned sizes', dict(fn='pfb', P=P, taps=taps, chunks=list(comp), cplx=False, scenario='reconfigured', P0=P0, taps0=taps0), name=tag))
                continue
            fb.window = npx.sarr([Sym(z3.Real(f'w_{m}')) for m in range(taps * P)])
            x = sym_stream('x', Wtot * taps * P)
            ws = [lift(w) for w in fb.window]
            outs, pos = [], 0
            for c in comp:
                n = c * taps * P
                outs.append(fb.channelize(x[pos:pos + n], cache=True))
                pos += n
        xs = stream_terms(x)
        pairs, off, ok = [], 0, True
        for ci, (c, o) in enumerate(zip(comp, outs)):
            nspec = (c - 1) * taps if ci == 0 else c * taps
            pr = check_out(o, xs, ws, P, taps, nspec, offset=off)
            if pr is None:
                ok = False
                break
            pairs += pr
            off += nspec
        decide(tag, pairs if ok else None, recs, 'C08:reconfigured', f'filterbank re-sized from {(taps0, P0)} to {(taps, P)} (taps, branches): chunks {comp} differ from the one-shot spectra of the new sizes',
               dict(fn='pfb', P=P, taps=taps, chunks=list(comp), cplx=False, scenario='reconfigured', P0=P0, taps0=taps0))
    return recs


def job_cache_isolation(P, taps):
    """cache=False calls neither use nor disturb the cache; two objects do not interact;
    _reset_cache starts a fresh stream"""
    recs = []
    tag = f"C08:isolation:{(P, taps)}"
    W = 2
    n = W * taps * P
    with volt_patches():
        fb, _ = mk_fb(taps, P)
        fb2, _ = mk_fb(taps, P, tag='v')
        x = sym_stream('x', 2 * n)
        y = sym_stream('y', n)
        z = sym_stream('z', 2 * n)
        ws = [lift(w) for w in fb.window]
        vs = [lift(w) for w in fb2.window]
        o1 = fb.channelize(x[:n], cache=True)
        oy = fb.channelize(y, cache=False)            # uncached call in the middle of a stream
        fb.estimate_channelized_stds(factor=2 * taps, seed=1)      # so is the unit-noise estimate (injection onto RAW asks for it mid-stream)
        p1 = fb2.channelize(z[:n], cache=True)        # another object interleaved
        o2 = fb.channelize(x[n:], cache=True)
        p2 = fb2.channelize(z[n:], cache=True)
        fb._reset_cache()
        o3 = fb.channelize(y, cache=True)             # after a reset: fresh stream
    xs, ys, zs = stream_terms(x), stream_terms(y), stream_terms(z)
    groups = [('uncached-midstream', oy, ys, ws, (W - 1) * taps, 0), ('stream-after-uncached', o2, xs, ws, W * taps, (W - 1) * taps),
              ('first-chunk', o1, xs, ws, (W - 1) * taps, 0), ('other-object-1', p1, zs, vs, (W - 1) * taps, 0),
              ('other-object-2', p2, zs, vs, W * taps, (W - 1) * taps), ('after-reset', o3, ys, ws, (W - 1) * taps, 0)]
    for gname, o, st, wt, ns, off in groups:
        decide(f"{tag}:{gname}", check_out(o, st, wt, P, taps, ns, off), recs, f'C08:isolation:{gname}',
               f'{gname}: output is not the definition applied to its own stream', dict(fn='pfb', P=P, taps=taps, chunks=[W, W], cplx=False, scenario=gname))
    return recs


def window_count_slice():
    """the statements of pfb_frontend that determine the number of complete windows W (everything before the data is
    reshaped), lifted from the live AST"""
    import ast
    import inspect
    import textwrap
    fn = ast.parse(textwrap.dedent(inspect.getsource(PF.pfb_frontend))).body[0]
    body = []
    for st in fn.body:
        if isinstance(st, ast.Expr) and isinstance(getattr(st, 'value', None), ast.Constant):
            continue                                    # docstring
        names = {n.id for n in ast.walk(st) if isinstance(n, ast.Name)}
        if any(isinstance(n, ast.Attribute) and n.attr == 'reshape' for n in ast.walk(st)) or 'x_p' in names:
            break
        body.append(st)
    if not any(isinstance(st, ast.Assign) and any(isinstance(t, ast.Name) and t.id == 'W' for t in st.targets) for st in body):
        raise core.SliceMissing('pfb_frontend: the assignment of the window count W was not found before the reshape')
    return compile(ast.Module(body=body, type_ignores=[]), '<slice:pfb_frontend window count>', 'exec')


def job_window_count(taps, P):
    """binary64 (delta model; quotients of integers that divide stay exact): for an input of k complete windows the
    front end finds W = k, for every k <= 2^20"""
    from symx import fp
    from symx.fp import FSym
    fp.reset()
    fp.EXACT_QUOTIENTS[0] = True
    recs = []
    tag = f"C08:window-count:{(taps, P)}"
    code = window_count_slice()
    ki = z3.Int('k')
    pre = [ki >= 1, ki <= 2 ** 20]
    n = FSym(z3.ToReal(ki) * (taps * P), True)

    class X:
        def __len__(self):
            raise core.HarnessError('len() must go through the shadow')
    x = X()

    def run():
        env = {'x': x, 'num_taps': taps, 'num_branches': P, 'pfb_window': None, 'xp': npx.NPProxy(), 'np': npx.NPProxy(),
               'int': shadow.sint, 'float': shadow.sfloat, 'len': lambda o: n if o is x else len(o), 'round': core.rne}
        exec(code, env)
        return env['W']
    try:
        leaves = core.explore(run, pre, cap=16)
    finally:
        fp.EXACT_QUOTIENTS[0] = False
    conds = []
    for li, leaf in enumerate(leaves):
        conds.append(leaf.cond())
        base = pre + leaf.pc + leaf.side + list(fp.SIDE)
        name = f"{tag}:leaf{li}"
        if leaf.kind == 'exc':
            raise core.HarnessError(f"window-count slice raised {leaf.value!r}")
        r, m = core.check(base + [lift(leaf.value) != z3.ToReal(ki)], timeout_ms=60000)
        recs.append(q(name, r))
        if r == 'sat':
            recs.append(cex(f'C08:window-count:{taps}x{P}', f"for num_taps={taps}, num_branches={P} some input of k complete windows is counted as W != k in binary64 (candidate k={m.eval(ki, model_completion=True)})",
                            dict(fn='window_count', taps=taps, P=P, k=int(str(m.eval(ki, model_completion=True)))), name=name))
    r, _ = core.check(pre + list(fp.SIDE) + [z3.Not(z3.Or(*conds))], timeout_ms=30000)
    recs.append(q(f"{tag}:split-complete", r))
    return recs


def replay_window_count(p):
    """search the real front end: input of k windows -> (k - 1) * taps spectra"""
    from setigen.voltage import polyphase_filterbank as pf
    taps, P = p['taps'], p['P']
    w = np.ones(taps * P)
    for k in sorted(set([p['k']] + list(range(1, 130)) + [2 ** e for e in range(7, 14)] + [3 * 2 ** e + 1 for e in range(5, 12)])):
        if k * taps * P > 4_000_000:
            continue
        try:
            out = pf.pfb_frontend(np.zeros(k * taps * P), w, taps, P)
        except Exception as e:
            return True, f"num_taps={taps}, num_branches={P}: an input of {k} complete windows makes the front end raise {type(e).__name__}: {e}"
        if out.shape[0] != (k - 1) * taps:
            return True, f"num_taps={taps}, num_branches={P}: an input of {k} complete windows gives {out.shape[0]} filtered rows, {(k - 1) * taps} expected (window count {out.shape[0] // taps + 1} instead of {k})"
    return False, 'window counts exact on all searched sizes'


WINDOW_FAMILIES = [[(2, 8), (4, 4), (8, 2), (1, 16)], [(3, 4), (2, 6), (6, 2)], [(4, 16), (8, 8), (2, 32)]]


def window_history_problems(PFm, fams=WINDOW_FAMILIES):
    """filterbank objects / window helpers of different (taps, branches) built one after another in one process, incl.
    configurations sharing taps*branches: each must carry its own firwin design (no state shared between designs)"""
    import scipy.signal
    bad = []
    for fam in fams:
        for order in (fam, fam[::-1]):
            for (taps, P) in order:
                for wf in ('hamming', 'hann'):
                    want = scipy.signal.firwin(taps * P, cutoff=1.0 / P, window=wf, scale=True) * (taps * P)
                    got_h = np.array(PFm.get_pfb_window(taps, P, wf), dtype=float)
                    got_o = np.array(PFm.PolyphaseFilterbank(num_taps=taps, num_branches=P, window_fn=wf).window, dtype=float)
                    for nm, got in (('get_pfb_window', got_h), ('PolyphaseFilterbank.window', got_o)):
                        if got.shape != want.shape or not np.array_equal(got, want):
                            bad.append(f"{nm}(taps={taps}, branches={P}, {wf}) after designing {[o for o in order if o != (taps, P)][:2]}..: differs from firwin by {float(np.max(np.abs(got - want))) if got.shape == want.shape else 'shape'}")
    return bad


def job_window_history():
    recs = []
    with volt_patches():
        bad = window_history_problems(PF)
    r, _ = core.check([RV(int(not bad)) != 1])
    recs.append(q('C08:window-history', r, trivial=True, detail='; '.join(bad[:2])))
    if bad:
        recs.append(cex('C08:window-history', bad[0], dict(fn='window_history'), name='C08:window-history'))
    return recs


def replay_window_history(p):
    from setigen.voltage import polyphase_filterbank as pf
    bad = window_history_problems(pf)
    return bool(bad), bad[0] if bad else 'every design equals its own firwin window'


def job_window_and_rfft(P, taps, W):
    """get_pfb_window = firwin(taps*P, cutoff=1/P, hamming)*taps*P (compiled SciPy: lifted exactly) and
    get_pfb_voltages = rfft sibling with channels 0..P/2"""
    import scipy.signal
    recs = []
    tag = f"C08:window:{(P, taps, W)}"
    with volt_patches():
        fb, real_window = mk_fb(taps, P, symbolic_window=False)
        want = scipy.signal.firwin(taps * P, cutoff=1.0 / P, window='hamming', scale=True) * (taps * P)
        got = np.array(PF.get_pfb_window(taps, P), dtype=float)
        same = got.shape == want.shape and np.array_equal(got, want) and np.array_equal(real_window, want)
        r, _ = core.check([RV(int(same)) != 1])
        recs.append(q(tag + ':firwin', r, trivial=True))
        if r == 'sat':
            recs.append(cex('C08:window', 'window coefficients differ from firwin(taps*P, 1/P, hamming)*taps*P', dict(fn='window', P=P, taps=taps), name=tag + ':firwin'))
        x = sym_stream('x', W * taps * P)
        out = PF.get_pfb_voltages(x, taps, P)
    ws = [RV(v) for v in want]
    xs = stream_terms(x)
    nspec = (W - 1) * taps
    pairs = None
    if out.shape == (nspec, P // 2 + 1):
        pairs = [(cparts(out[n, k]), pfb_spec(xs, ws, n, k, P, taps)) for n in range(nspec) for k in range(P // 2 + 1)]
    decide(tag + ':rfft', pairs, recs, 'C08:get_pfb_voltages', 'get_pfb_voltages differs from the definition (channels 0..P/2)', dict(fn='pfb', P=P, taps=taps, chunks=[W], cplx=False, scenario='rfft'))
    return recs


# ------------------------------------------------------------------ concrete oracle
def ref_pfb(x, w, P, taps):
    """the definition, for the spectra a call returns: all but the last window's worth of starting positions,
    (W - 1) * taps of them for W = len(x) / (taps * P) windows (the remainder is produced by the next cached call)"""
    x = np.asarray(x)
    nspec = (len(x) // (taps * P) - 1) * taps
    out = np.zeros((max(nspec, 0), P), dtype=complex)
    for n in range(nspec):
        seg = np.zeros(P, dtype=complex)
        for t in range(taps):
            seg += w[t * P:(t + 1) * P] * x[(n + t) * P:(n + t + 1) * P]
        for k in range(P):
            out[n, k] = np.sum(seg * np.exp(-2j * np.pi * np.arange(P) * k / P)) / np.sqrt(P)
    return out


def _large_call(P, taps, W, cache_flag):
    """real channelize on one call of W windows against a vectorised transcription of the definition"""
    from setigen.voltage import polyphase_filterbank as pf
    rng = np.random.default_rng(4)
    fb = pf.PolyphaseFilterbank(num_taps=taps, num_branches=P)
    w = np.array(fb.window)
    x = rng.standard_normal(W * taps * P)
    out = fb.channelize(x, cache=cache_flag)
    nspec = (W - 1) * taps
    xp_ = x.reshape(-1, P)
    seg = sum(w[t * P:(t + 1) * P][None, :] * xp_[t:t + nspec] for t in range(taps))
    ref = (np.fft.fft(seg, axis=1) / np.sqrt(P))[:, :P // 2]
    if out.shape != ref.shape:
        return f"one call of {W} windows (cache={cache_flag}) returned {out.shape[0]} spectra, the definition gives {ref.shape[0]}"
    if not np.allclose(out, ref, rtol=1e-9, atol=1e-9):
        bad = np.nonzero(~np.isclose(out, ref, rtol=1e-9, atol=1e-9).all(axis=1))[0]
        return f"one call of {W} windows (cache={cache_flag}): spectra {bad[:3].tolist()}.. differ from the definition"
    return None


LARGE_CALL = (4, 2, 2 ** 18 + 5)        # 2**21 + 40 samples in ONE call: beyond any plausible internal segment size


def job_large_call(cache_flag):
    """one call on more than 2**21 samples (executed concretely: far beyond what the symbolic jobs can hold): a
    segment-, slab- or block-wise implementation must not lose spectra at its seams, with or without the cache"""
    recs = []
    P, taps, W = LARGE_CALL
    msg = _large_call(P, taps, W, cache_flag)
    name = f"C08:large-call:{(P, taps, W, cache_flag)}"
    r, _ = core.check([RV(int(msg is None)) != 1])
    recs.append(q(name, r, trivial=True, samples=W * taps * P, detail=msg or ''))
    if msg:
        recs.append(cex('C08:large-call', msg, dict(fn='large_call', cache=cache_flag), name=name))
    return recs


def replay_large_call(p):
    msg = _large_call(*LARGE_CALL, p['cache'])
    return bool(msg), msg or 'large one-shot call agrees with the definition'


def replay_pfb(p):
    from setigen.voltage import polyphase_filterbank as pf
    P, taps, chunks, sc = p['P'], p['taps'], p['chunks'], p['scenario']
    rng = np.random.default_rng(11)
    if sc == 'reconfigured':
        # built for other sizes, re-sized, window redesigned
        fb = pf.PolyphaseFilterbank(num_taps=p['taps0'], num_branches=p['P0'])
        fb.num_taps, fb.num_branches = taps, P
        fb._get_pfb_window()
    else:
        fb = pf.PolyphaseFilterbank(num_taps=taps, num_branches=P)
    w = np.array(pf.PolyphaseFilterbank(num_taps=taps, num_branches=P).window)
    tot = sum(chunks) * taps * P
    x = rng.standard_normal(tot) + (1j * rng.standard_normal(tot) if p.get('cplx') else 0)
    ref = ref_pfb(x, w, P, taps)[:, :P // 2]
    if p.get('layout', 'contig') == 'every2':
        base = rng.standard_normal(2 * tot).astype(x.dtype)
        base[::2] = x
        x = base[::2]
    elif p.get('layout', 'contig') == 'int':
        x = np.round(x * 20).astype(np.int8 if tot % 2 else np.int64)
        ref = ref_pfb(x.astype(float), w, P, taps)[:, :P // 2]
    elif p.get('layout', 'contig') == 'column':
        base = rng.standard_normal((tot, 3)).astype(x.dtype)
        base[:, 1] = x
        x = base[:, 1]
    msgs = []
    close = lambda a, b: a.shape == b.shape and np.allclose(a, b, rtol=1e-9, atol=1e-9)
    if sc in ('oneshot', 'linear'):
        out = fb.channelize(x, cache=False)
        if not close(out, ref):
            msgs.append(f"one-shot output {out.shape} differs from definition {ref.shape}")
        if sc == 'linear':
            y = rng.standard_normal(tot)
            lhs = fb.channelize(2.5 * x - 1.5 * y, cache=False)
            rhs = 2.5 * fb.channelize(x, cache=False) - 1.5 * fb.channelize(y, cache=False)
            if not close(lhs, rhs):
                msgs.append("not linear")
    elif sc == 'rfft':
        out = pf.get_pfb_voltages(x, taps, P)
        if not close(out, ref_pfb(x, w, P, taps)[:, :P // 2 + 1]):
            msgs.append("get_pfb_voltages differs from definition")
    elif sc in ('chunks', 'reconfigured'):
        outs, pos = [], 0
        for c in chunks:
            outs.append(fb.channelize(x[pos:pos + c * taps * P], cache=True))
            pos += c * taps * P
        cat = np.concatenate(outs, axis=0)
        if not close(cat, ref):
            msgs.append(f"chunks {chunks}: concatenated output {cat.shape} differs from one-shot {ref.shape}")
    else:
        n = chunks[0] * taps * P
        y = rng.standard_normal(n)
        z = rng.standard_normal(2 * n)
        fb2 = pf.PolyphaseFilterbank(num_taps=taps, num_branches=P)
        o1 = fb.channelize(x[:n], cache=True)
        oy = fb.channelize(y, cache=False)
        fb.estimate_channelized_stds(factor=4 * taps, seed=1)
        p1 = fb2.channelize(z[:n], cache=True)
        o2 = fb.channelize(x[n:], cache=True)
        p2 = fb2.channelize(z[n:], cache=True)
        fb._reset_cache()
        o3 = fb.channelize(y, cache=True)
        refy = ref_pfb(y, w, P, taps)[:, :P // 2]
        refz = ref_pfb(z, w, P, taps)[:, :P // 2]
        if not close(oy, refy):
            msgs.append(f"cache=False call mid-stream returned {oy.shape}, definition gives {refy.shape} / values differ")
        if not close(np.concatenate([o1, o2]), ref):
            msgs.append("cached stream disturbed by an uncached call / other object")
        if not close(np.concatenate([p1, p2]), refz):
            msgs.append("second filterbank object disturbed")
        if not close(o3, refy):
            msgs.append("after _reset_cache the stream does not start afresh")
    return bool(msgs), '; '.join(msgs) or 'PFB agrees with its definition'


def replay_window(p):
    import scipy.signal
    from setigen.voltage import polyphase_filterbank as pf
    P, taps = p['P'], p['taps']
    want = scipy.signal.firwin(taps * P, cutoff=1.0 / P, window='hamming', scale=True) * (taps * P)
    got = np.array(pf.get_pfb_window(taps, P))
    return (not np.array_equal(got, want)), f"window max abs diff {np.max(np.abs(got - want)) if got.shape == want.shape else 'shape'}"


REPLAYS = {'large_call': replay_large_call, 'pfb': replay_pfb, 'window': replay_window, 'window_history': replay_window_history, 'window_count': replay_window_count}


def main():
    ck = Check('C08', 'Polyphase filterbank equals its FIR+DFT definition, invariant to chunking')
    ck.functions = ['PolyphaseFilterbank.__init__', 'PolyphaseFilterbank.channelize', 'PolyphaseFilterbank._reset_cache', 'pfb_frontend',
                    'get_pfb_window', 'get_pfb_voltages']
    ck.files = ['setigen/voltage/polyphase_filterbank.py']
    ck.stubs = ['numpy.fft.fft / rfft -> exact DFT matrix (lengths 2,4,8; sqrt(1/2) as algebraic constant); for other lengths the twiddle factors are uninterpreted complex constants per length (zero-padding modelled)', 'scipy.signal.firwin executed concretely, coefficients lifted exactly; a second window is fully symbolic']
    ck.assumptions = ['exact real arithmetic (FFT round-off outside)', 'num_branches in {2,4,8}', '1/sqrt(P) is the binary64 value of P**0.5 as in the code']
    if ck.thorough:
        Ps, tapss, Wmax = (2, 4, 8), (1, 2, 3, 4), 6
    else:
        Ps, tapss, Wmax = (2, 4, 8), (1, 2, 3, 4), 5
    ck.bounds = dict(num_branches=Ps, num_taps=tapss, windows_total=f'2..{Wmax} (every composition into chunks)')
    jobs = []
    for P in Ps:
        for taps in tapss:
            for cplx in (False, True):
                jobs.append(('job_definition', (P, taps, 3, cplx)))
            jobs.append(('job_definition', (P, taps, 2, False, 'int')))
            for layout in ('every2', 'column'):
                jobs.append(('job_definition', (P, taps, 2, layout == 'column', layout)))
            jobs.append(('job_linear', (P, taps, 2)))
            jobs.append(('job_complex', (P, taps, 2)))
            for Wtot in range(2, Wmax + 1):
                jobs.append(('job_chunks', (P, taps, Wtot)))
            jobs.append(('job_chunks', (P, taps, 3, True)))
            jobs.append(('job_cache_isolation', (P, taps)))
            jobs.append(('job_window_and_rfft', (P, taps, 2)))
    # one call producing more than a thousand spectra (a block-wise / slab-wise implementation must not lose its remainder)
    for (P_, taps_, W_) in ((2, 1, 1032), (2, 3, 400)) + (((4, 2, 777), (2, 8, 201)) if ck.thorough else ()):
        jobs.append(('job_definition', (P_, taps_, W_, False)))
    jobs.append(('job_window_history', ()))
    for cf_ in (False, True):
        jobs.append(('job_large_call', (cf_,)))
    for (P0_, t0_, P_, t_) in ((4, 2, 4, 1), (4, 1, 4, 2), (2, 2, 4, 2), (8, 2, 4, 2)):
        jobs.append(('job_reconfigured', (P0_, t0_, P_, t_, 3)))
    for taps in ((1, 2, 3, 4, 7, 8) if not ck.thorough else range(1, 17)):
        for P in ((2, 3, 6, 7, 10, 14, 49, 64, 100) if not ck.thorough else (2, 3, 5, 6, 7, 10, 12, 14, 17, 23, 24, 49, 64, 100, 1000, 1024)):
            jobs.append(('job_window_count', (taps, P)))
    # branch counts that are not powers of two (DFT twiddles as uninterpreted complex constants, one set per length):
    # catches any use of a transform length other than num_branches
    for P in ((3, 6, 13) if not ck.thorough else (3, 5, 6, 7, 12, 13, 26)):
        for taps in (1, 2):
            jobs.append(('job_definition', (P, taps, 2, False)))
            jobs.append(('job_chunks', (P, taps, 3)))
    ck.run_jobs('props.C08', jobs, timeout_s=1200)
    ck.finish()


if __name__ == '__main__':
    main()
