"""shared harness pieces for the setigen.voltage properties (C02, C04, C07-C10, C12, C14, C15, C20)."""
import contextlib
import io

import numpy as np
import z3

from symx import core, npx, shadow
from symx.core import Sym, SymC, SymB, lift, UF, RV
from symx.report import use_repo

use_repo()
import setigen  # noqa: E402
from setigen.voltage import backend as B  # noqa: E402
from setigen.voltage import polyphase_filterbank as PF  # noqa: E402
from setigen.voltage import quantization as Q  # noqa: E402
from setigen.voltage import antenna as A  # noqa: E402
from setigen.voltage import data_stream as DS  # noqa: E402
from setigen.voltage import raw_utils as RU  # noqa: E402
from setigen.voltage import waterfall as WF  # noqa: E402
from setigen.voltage import level_utils as LU  # noqa: E402


class TqdmStub:
    """inert progress bar"""

    def __init__(self, *a, **k):
        pass

    def __enter__(self):
        return self

    def __exit__(self, *a):
        return False

    def update(self, *a):
        pass

    def set_description(self, *a):
        pass

    @staticmethod
    def write(*a, **k):
        pass


def volt_patches(proxy=None, extra=None, opener=None, globber=None, units=False):
    proxy = proxy or npx.NPProxy()
    b = dict(shadow.DEFAULT_BUILTINS)
    if units:
        from props.frame_common import UnitStubSym
        extra = list(extra or []) + [(DS, dict(unit_utils=UnitStubSym)), (A, dict(unit_utils=UnitStubSym)), (B, dict(unit_utils=UnitStubSym))]
    bk = dict(xp=proxy, np=proxy, tqdm=TqdmStub, **b)
    if opener is not None:
        bk['open'] = opener
    specs = [
        (B, bk),
        (PF, dict(xp=proxy, np=proxy, **b)),
        (Q, dict(xp=proxy, np=proxy, **b)),
        (DS, dict(xp=proxy, **b)),
        (A, dict(xp=proxy, **b)),
        (WF, dict(xp=proxy, np=proxy, **({'open': opener} if opener else {}), **b)),
        (RU, dict(np=proxy, **({'open': opener} if opener else {}), **b)),
        (LU, dict(np=proxy, **b)),
    ]
    if globber is not None:
        specs.append((RU, dict(glob=globber)))
    if extra:
        specs += extra
    return shadow.patched_many(specs)


def sym_stream(name, n, complex_=False):
    """fresh symbolic samples name_0 .. name_{n-1}"""
    a = np.empty(n, dtype=object)
    for k in range(n):
        if complex_:
            a[k] = SymC(Sym(z3.Real(f'{name}r_{k}')), Sym(z3.Real(f'{name}i_{k}')))
        else:
            a[k] = Sym(z3.Real(f'{name}_{k}'))
    return a.view(npx.SymArr)


def dft_term(vals, k, P):
    """exact DFT bin k of the list of (re, im) z3-term pairs `vals` (length P) -> (re, im) terms"""
    M = npx.exact_dft_matrix(P)
    re, im = RV(0), RV(0)
    for b in range(P):
        c = M[k][b]
        cr, ci = lift(c[0]), lift(c[1])
        vr, vi = vals[b]
        re = re + vr * cr - vi * ci
        im = im + vr * ci + vi * cr
    return re, im


def pfb_spec(x_terms, w_terms, n, k, P, taps):
    """C08 definition: spectrum n, channel k of the PFB of the sample sequence x (list of
    (re, im) term pairs), window w (list of terms): DFT over the branch index of the
    window-weighted sum of `taps` segments starting at sample n*P, scaled by 1/sqrt(P)."""
    vals = []
    for b in range(P):
        re, im = RV(0), RV(0)
        for t in range(taps):
            xr, xi = x_terms[(n + t) * P + b]
            re = re + w_terms[t * P + b] * xr
            im = im + w_terms[t * P + b] * xi
        vals.append((re, im))
    re, im = dft_term(vals, k, P)
    sc = RV(P ** 0.5)
    return re / sc, im / sc


def cparts(e):
    """(re, im) z3 terms of a (possibly complex) symbolic/concrete element"""
    if isinstance(e, SymC):
        return e.re.t, e.im.t
    if isinstance(e, (complex, np.complexfloating)):
        return RV(e.real), RV(e.imag)
    return lift(e), RV(0)


def nz(t):
    """is the simplified term not the numeral 0"""
    s = z3.simplify(t, som=True)
    return not (z3.is_rational_value(s) and s.numerator_as_long() == 0), s


def diff_terms(pairs):
    """pairs of ((re,im) impl, (re,im) spec) -> list of non-trivially-zero difference terms"""
    out = []
    for (ar, ai), (br, bi) in pairs:
        for a, b in ((ar, br), (ai, bi)):
            ok, s = nz(a - b)
            if ok:
                out.append(s != 0)
    return out


class MemFile:
    """in-memory stand-in for a binary file opened by the code under analysis.
    content = flat list of byte items: ints for concrete bytes, terms for symbolic ones"""

    def __init__(self, store, name, mode):
        self.store, self.name, self.mode = store, name, mode
        self.pos = 0
        if 'w' in mode:
            store[name] = []
        self.closed = False

    def write(self, data):
        self.store[self.name].append(data)
        return len(data)

    def _flat(self):
        key = '__flat__' + self.name
        cache = self.store.get(key)
        nw = len(self.store[self.name])
        if cache is None or cache[0] != nw:
            flat = []
            for w in self.store[self.name]:
                if isinstance(w, npx.SymBytes):
                    flat.extend(w.items)
                else:
                    flat.extend(bytes(w))
            self.store[key] = (nw, flat)
        return self.store[key][1]

    def read(self, n=-1):
        flat = self._flat()
        if isinstance(n, Sym):
            n = core.concretize_int(n)
        if n is None or n < 0:
            n = len(flat) - self.pos
        out = flat[self.pos:self.pos + n]
        self.pos += len(out)
        if all(isinstance(b, int) for b in out):
            return bytes(out)
        return npx.SymBytes(out)

    def seek(self, pos, whence=0):
        self.pos = pos if whence == 0 else (self.pos + pos if whence == 1 else len(self._flat()) + pos)

    def tell(self):
        return self.pos

    def readlines(self):
        raise core.HarnessError("readlines on MemFile")

    def close(self):
        self.closed = True

    def __enter__(self):
        return self

    def __exit__(self, *a):
        self.close()
        return False


class MemFS:
    """dictionary file system; real files (e.g. the header template) are passed through"""

    def names(self):
        return sorted(k for k in self.files if not k.startswith('__flat__'))

    def glob(self, pattern):
        import fnmatch
        return [k for k in self.names() if fnmatch.fnmatch(k, pattern)]

    def __init__(self):
        self.files = {}
        self.opened = []

    def open(self, name, mode='r', *a, **k):
        import builtins
        name = str(name)
        if name.startswith('__flat__'):
            raise FileNotFoundError(name)
        if 'r' in mode and name.startswith('/mem/') and name not in self.files:
            raise FileNotFoundError(name)
        if name in self.files or ('w' in mode and not name.endswith('header_template.txt')):
            f = MemFile(self.files, name, mode)
            self.opened.append(f)
            return f
        return builtins.open(name, mode, *a, **k)
