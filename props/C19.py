"""C19 -- splitting utilities tile the band and the array exactly.

split_array: the real function runs on an ndarray stand-in whose shape is a pair of SYMBOLIC integers and whose
slicing records the requested ranges; the executor forks through the two nested while loops (unwinding asserted).
split_waterfall_generator: the real generator runs against a recording stand-in for blimpy.Waterfall with symbolic
channel counts / window / shift; blimpy's selection rounding (_setup_selection_range, _setup_chans) is transcribed and
applied to the requested frequency windows, in exact reals and in the delta model of binary64.  Real .fil files are
used for the on-disk variant, the consumers and for replays.
"""
import itertools
import os
import time

import numpy as np
import z3

from symx import core, npx, shadow, fp
from symx.core import Sym, SymB, lift, RV
from symx.fp import FSym
from symx.report import Check, q, cex, note, use_repo

use_repo()
import setigen  # noqa: E402
import importlib  # noqa: E402
SU = importlib.import_module('setigen.split_utils')
SFO = importlib.import_module('setigen.sample_from_obs')


class Tile:
    def __init__(self, y0, y1, x0, x1):
        self.b = (y0, y1, x0, x1)

    @property
    def shape(self):
        y0, y1, x0, x1 = self.b
        return (y1 - y0, x1 - x0)


class FakeArr(np.ndarray):
    """ndarray stand-in: symbolic shape, slicing returns Tile records"""
    def __new__(cls, H, W):
        obj = np.zeros((1, 1)).view(cls)
        obj._hw = (H, W)
        return obj

    @property
    def shape(self):
        return self._hw

    def __getitem__(self, key):
        ys, xs = key
        return Tile(ys.start, ys.stop, xs.start, xs.stop)


def sset(it):
    """`set` for unhashable symbolic items (equality decided by the executor)"""
    out = []
    for e in it:
        dup = False
        for o in out:
            same = (len(e) == len(o)) and all(bool(a == b) for a, b in zip(e, o)) if isinstance(e, tuple) else bool(e == o)
            if same:
                dup = True
                break
        if not dup:
            out.append(e)
    return out


class NPA(npx.NPProxy):
    def array(self, x, dtype=None, **kw):
        if isinstance(x, list) and x and isinstance(x[0], Tile):
            a = np.empty(len(x), dtype=object)
            for i, t in enumerate(x):
                a[i] = t
            return a
        return npx.NPProxy.array(self, x, dtype=dtype, **kw)

    def empty(self, shape, dtype=None, **kw):
        return np.empty(shape, dtype=object)


def su_patches():
    px = NPA()
    b = dict(shadow.DEFAULT_BUILTINS)
    return shadow.patched_many([(SU, dict(np=px, set=sset, **b))])


def job_split_array(maxdim, mode):
    """mode: 'partition' (shifts = tile sizes, no trim), 'trim' (trim flags on), 'defaults' (None arguments)"""
    recs = []
    tag = f"C19:split_array:{(maxdim, mode)}"
    Hi, Wi, ti, fi = z3.Ints('H W t f')
    H, W, t, f = (Sym(z3.ToReal(v), True) for v in (Hi, Wi, ti, fi))
    pre = [Hi >= 1, Hi <= maxdim, Wi >= 1, Wi <= maxdim, ti >= 1, ti <= maxdim, fi >= 1, fi <= maxdim]

    def run():
        arr = FakeArr(H, W)
        if mode == 'partition':
            return SU.split_array(arr, f_sample_num=f, t_sample_num=t, f_shift=f, t_shift=t)
        if mode == 'trim':
            return SU.split_array(arr, f_sample_num=f, t_sample_num=t, f_trim=True, t_trim=True)
        return SU.split_array(arr)
    t0 = time.time()
    try:
        with su_patches():
            leaves = core.explore(run, pre, cap=3000)
        for leaf in leaves:
            if leaf.kind == 'ok':
                [tl.b for tl in leaf.value]
    except (TypeError, AttributeError, ValueError) as e:
        # the implementation uses array operations the symbolic-shape stand-in cannot express (it only slices);
        # the element-level jobs (concrete shapes, symbolic tile sizes) carry the claim in that case
        recs.append(note(f"{tag}: symbolic-shape stand-in not applicable to this implementation ({type(e).__name__}: {e}); see C19:split_array_elems"))
        return recs
    conds = []
    nbad = 0
    y, x = z3.Ints('y x')
    for li, leaf in enumerate(leaves):
        conds.append(leaf.cond())
        base = pre + leaf.pc + leaf.side
        name = f"{tag}:leaf{li}"
        if leaf.kind == 'exc':
            r, m = core.check(base)
            recs.append(q(name, r, detail=repr(leaf.value)))
            if r == 'sat' and nbad < 3:
                nbad += 1
                recs.append(cex('C19:split_array:raise', f'split_array raised {leaf.value!r}', payload_arr(m, Hi, Wi, ti, fi, mode), name=name))
            continue
        tiles = [tl.b for tl in leaf.value]
        tt, ff = (z3.ToReal(ti), z3.ToReal(fi)) if mode != 'defaults' else (z3.ToReal(Hi), z3.ToReal(Wi))
        inside = [z3.And(lift(b[0]) <= z3.ToReal(y), z3.ToReal(y) < lift(b[1]), lift(b[2]) <= z3.ToReal(x), z3.ToReal(x) < lift(b[3])) for b in tiles]
        cnt = sum([z3.If(c, 1, 0) for c in inside]) if inside else z3.IntVal(0)
        dis = []
        if mode in ('partition', 'defaults'):
            dis.append(z3.And(y >= 0, y < Hi, x >= 0, x < Wi, cnt != 1))                 # every element in exactly one tile
            for b in tiles:                                                              # tiles lie inside the array, at most tile size
                dis.append(z3.Or(lift(b[0]) < 0, lift(b[1]) > z3.ToReal(Hi), lift(b[2]) < 0, lift(b[3]) > z3.ToReal(Wi), lift(b[1]) - lift(b[0]) > tt, lift(b[3]) - lift(b[2]) > ff,
                                 lift(b[1]) <= lift(b[0]), lift(b[3]) <= lift(b[2])))
            for a, b in zip(tiles, tiles[1:]):                                           # row-major order
                dis.append(z3.Not(z3.Or(lift(a[0]) < lift(b[0]), z3.And(lift(a[0]) == lift(b[0]), lift(a[2]) < lift(b[2])))))
        else:
            # trimming keeps exactly the full-size tiles: each kept tile is full size and aligned; every full-size grid cell is kept
            for b in tiles:
                dis.append(z3.Or(lift(b[1]) - lift(b[0]) != tt, lift(b[3]) - lift(b[2]) != ff, lift(b[1]) > z3.ToReal(Hi), lift(b[3]) > z3.ToReal(Wi)))
            r_, c_ = z3.Ints('r_ c_')
            cell = z3.And(r_ >= 0, c_ >= 0, (z3.ToReal(r_) + 1) * tt <= z3.ToReal(Hi), (z3.ToReal(c_) + 1) * ff <= z3.ToReal(Wi))
            present = z3.Or(*[z3.And(lift(b[0]) == z3.ToReal(r_) * tt, lift(b[2]) == z3.ToReal(c_) * ff) for b in tiles]) if tiles else z3.BoolVal(False)
            dis.append(z3.And(cell, z3.Not(present)))
        r, m = core.check(base + [z3.Or(*dis)], timeout_ms=60000)
        recs.append(q(name, r, tiles=len(tiles)))
        if r == 'sat' and nbad < 3:
            nbad += 1
            recs.append(cex(f'C19:split_array:{mode}', 'tiles do not partition the array in row-major order / trimming does not keep exactly the full-size tiles', payload_arr(m, Hi, Wi, ti, fi, mode), name=name))
    r, _ = core.check(pre + [z3.Not(z3.Or(*conds))], timeout_ms=120000)
    recs.append(q(f"{tag}:split-complete", r, leaves=len(leaves), explore_s=round(time.time() - t0, 1)))
    return recs


def job_split_array_elems(Hc, Wc, mode):
    """concrete array shape, every element its own symbol, tile sizes symbolic: whatever NumPy operations the
    implementation uses (slicing, reshape, transpose, ...), the returned tiles are decided element by element"""
    recs = []
    tag = f"C19:split_array_elems:{(Hc, Wc, mode)}"
    ti, fi = z3.Ints('t f')
    t, f = Sym(z3.ToReal(ti), True), Sym(z3.ToReal(fi), True)
    pre = [ti >= 1, ti <= Hc + 1, fi >= 1, fi <= Wc + 1]
    D = np.empty((Hc, Wc), dtype=object)
    pos = {}
    for yy in range(Hc):
        for xx in range(Wc):
            D[yy, xx] = Sym(z3.Real(f'e_{yy}_{xx}'))
            pos[id(D[yy, xx])] = (yy, xx)
    D = D.view(npx.SymArr)

    def run():
        if mode == 'partition':
            out = SU.split_array(D, f_sample_num=f, t_sample_num=t, f_shift=f, t_shift=t)
        elif mode == 'trim':
            out = SU.split_array(D, f_sample_num=f, t_sample_num=t, f_trim=True, t_trim=True)
        else:
            out = SU.split_array(D)
        return [np.asarray(x) for x in out], core.concretize_int(t), core.concretize_int(f)
    px = npx.NPProxy()
    with shadow.patched_many([(SU, dict(np=px, **shadow.DEFAULT_BUILTINS))]):
        leaves = core.explore(run, pre, cap=400)
    conds, nbad = [], 0
    for li, leaf in enumerate(leaves):
        conds.append(leaf.cond())
        base = pre + leaf.pc + leaf.side
        name = f"{tag}:leaf{li}"
        r0, m = core.check(base, timeout_ms=30000)
        if r0 != 'sat':
            continue
        if leaf.kind == 'exc':
            recs.append(q(name, 'sat', detail=repr(leaf.value)))
            if nbad < 3:
                nbad += 1
                recs.append(cex('C19:split_array:raise', f'split_array raised {leaf.value!r}', dict(fn='split_array', H=Hc, W=Wc, t=int(str(m.eval(ti, model_completion=True))), f=int(str(m.eval(fi, model_completion=True))), mode=mode), name=name))
            continue
        tiles, tv, fv = leaf.value
        if mode == 'defaults':
            tv, fv = Hc, Wc
        if mode == 'trim':
            want = [[(r * tv + a, c * fv + b) for a in range(tv) for b in range(fv)] for r in range(Hc // tv) for c in range(Wc // fv)]
            wshape = [(tv, fv)] * len(want)
        else:
            want, wshape = [], []
            for r in range(0, Hc, tv):
                for c in range(0, Wc, fv):
                    want.append([(a, b) for a in range(r, min(r + tv, Hc)) for b in range(c, min(c + fv, Wc))])
                    wshape.append((min(r + tv, Hc) - r, min(c + fv, Wc) - c))
        got = [[pos.get(id(e)) for e in tl.flat] for tl in tiles]
        ok = got == want and [tuple(tl.shape) for tl in tiles] == wshape
        r, _ = core.check(base + [z3.BoolVal(not ok)], timeout_ms=30000)
        recs.append(q(name, r, tiles=len(tiles), tile=(tv, fv)))
        if li == 0:
            recs.append(q(name + ':twin', core.check(base + [z3.BoolVal(got != want[::-1] or len(want) < 2)], timeout_ms=30000)[0], expect='sat'))
        if r == 'sat' and nbad < 3:
            nbad += 1
            recs.append(cex(f'C19:split_array:{mode}:elements', f'{Hc}x{Wc} array, tiles {tv}x{fv}: the returned tiles are not the row-major partition (trim: exactly the full-size tiles): first tiles start at {[g[0] if g else None for g in got[:4]]}, expected {[w[0] for w in want[:4]]}',
                            dict(fn='split_array', H=Hc, W=Wc, t=tv, f=fv, mode=mode), name=name))
    r, _ = core.check(pre + [z3.Not(z3.Or(*conds))], timeout_ms=60000)
    recs.append(q(f"{tag}:split-complete", r, leaves=len(leaves)))
    return recs


def payload_arr(m, Hi, Wi, ti, fi, mode):
    g = lambda v: int(str(m.eval(v, model_completion=True)))
    return dict(fn='split_array', H=g(Hi), W=g(Wi), t=g(ti), f=g(fi), mode=mode)


# ---------------------------------------------------------------- waterfall splitting
NMAX = 24


class WfStub:
    """stand-in for blimpy.Waterfall: records the requested selection"""
    log = None
    hdr = None
    tch = None

    def __init__(self, fn, f_start=None, f_stop=None, t_start=None, t_stop=None, load_data=True, **kw):
        self.header = dict(WfStub.hdr)
        self.container = type('C', (), {'selection_shape': (WfStub.tch, 1, WfStub.hdr['nchans'])})()
        if load_data:
            WfStub.log.append((f_start, f_stop, t_start, t_stop))


def blimpy_channels(fsel0, fsel1, fch1, foff, nchans, desc):
    """transcription of blimpy's selection: clamp into (f_begin, f_end), then channel indices by rounding.
    returns (chan_start, chan_stop) terms"""
    f_begin = fch1 + foff * nchans if desc else fch1
    f_end = fch1 if desc else fch1 + foff * nchans
    lo, hi = fsel0, fsel1
    f_start = z3.If(z3.And(lo >= f_begin, lo < f_end), lo, f_begin)
    f_stop = z3.If(z3.And(hi <= f_end, hi > f_begin), hi, f_end)
    f0 = f_end if desc else f_begin
    i0 = lift(core.rne(Sym((f_start - f0) / foff)))
    i1 = lift(core.rne(Sym((f_stop - f0) / foff)))
    return z3.If(i1 < i0, i1, i0), z3.If(i1 < i0, i0, i1)


def job_split_waterfall(desc, maxpieces, with_shift, tch_mode, foff_abs=2.0):
    """foff_abs: channel width of the file in MHz (3e-7 = 0.3 Hz: finer than any "snap the edges to 1 Hz" shortcut)"""
    recs = []
    tag = f"C19:split_waterfall:{(desc, maxpieces, with_shift, tch_mode)}" + (f":foff{foff_abs}" if foff_abs != 2.0 else '')
    ni, fi, si = z3.Ints('nchans fchans f_shift')
    foff_v = -foff_abs if desc else foff_abs
    fch1_v = 4096.0
    pre = [fi >= 1, ni >= 1, ni <= NMAX, si >= 1, fi <= NMAX, si <= NMAX]
    if not with_shift:
        pre.append(si == fi)
    # bounded number of pieces (unwinding): (nchans - fchans) / shift < maxpieces
    pre.append(ni - fi < maxpieces * si)
    N, Fc_, S = (Sym(z3.ToReal(v), True) for v in (ni, fi, si))
    tch_tot = 5

    def run():
        WfStub.log = []
        WfStub.hdr = {'fch1': Sym(RV(fch1_v)), 'nchans': N, 'foff': Sym(RV(foff_v))}
        WfStub.tch = tch_tot
        tch = {'none': None, 'some': 3, 'all': 5}[tch_mode]
        out = list(SU.split_waterfall_generator('x.fil', Fc_, tchans=tch, f_shift=(S if with_shift else None)))
        return list(WfStub.log), len(out)
    with shadow.patched_many([(SU, dict(Waterfall=WfStub, np=npx.NPProxy(), **shadow.DEFAULT_BUILTINS))]):
        leaves = core.explore(run, pre, cap=200)
    conds = []
    for li, leaf in enumerate(leaves):
        conds.append(leaf.cond())
        base = pre + leaf.pc + leaf.side
        name = f"{tag}:leaf{li}"
        mk = lambda m: dict(fn='split_waterfall', desc=desc, nchans=int(str(m.eval(ni, model_completion=True))), fchans=int(str(m.eval(fi, model_completion=True))),
                            f_shift=int(str(m.eval(si, model_completion=True))) if with_shift else None, tchans=tch_mode, df_hz=(0.3 if foff_abs != 2.0 else 2.0))
        if leaf.kind == 'exc':
            r, m = core.check(base)
            recs.append(q(name, r, detail=repr(leaf.value)))
            if r == 'sat':
                recs.append(cex('C19:split_waterfall:raise', f'generator raised {leaf.value!r}', mk(m), name=name))
            continue
        log, count = leaf.value
        n, fc, s = z3.ToReal(ni), z3.ToReal(fi), z3.ToReal(si)
        dis = []
        # number of pieces: floor((nchans - fchans)/s) + 1 (0 when the window does not fit)
        want_cnt = z3.If(n >= fc, z3.ToReal(z3.ToInt((n - fc) / s)) + 1, RV(0))
        dis.append(RV(count) != want_cnt)
        for i, (f0_, f1_, t0_, t1_) in enumerate(log):
            c0, c1 = blimpy_channels(lift(f0_), lift(f1_), RV(fch1_v), RV(foff_v), n, desc)
            dis.append(z3.Or(c0 != i * s, c1 != i * s + fc))
            want_t = {'none': tch_tot, 'some': 3, 'all': 5}[tch_mode]
            dis.append(z3.Or(lift(t0_) != 0, lift(t1_) != want_t))
        r, m = core.check(base + [z3.Or(*dis)], timeout_ms=120000)
        recs.append(q(name, r, pieces=count))
        if r == 'sat':
            recs.append(cex(f"C19:split_waterfall:{'shift' if with_shift else 'default'}", 'number of pieces / channel window of a piece differs from floor((nchans-fchans)/s)+1 pieces covering [i*s, i*s+fchans)', mk(m), name=name))
    r, _ = core.check(pre + [z3.Not(z3.Or(*conds))], timeout_ms=60000)
    recs.append(q(f"{tag}:split-complete", r, leaves=len(leaves)))
    return recs


def job_split_fp(desc):
    """binary64: the frequency window requested for piece i rounds to channels [i*s, i*s + fchans) for realistic headers"""
    fp.reset()
    recs = []
    pre = []
    fch1 = FSym.var('fch1', 1.0, 1e5, pre)          # MHz
    adf = FSym.var('adf', 1e-7, 10.0, pre)          # |foff| in MHz
    pre.append(fch1.t <= RV(1e12) * adf.t)
    k = FSym(z3.Real('k'), True)                    # first channel of the window, i * f_shift
    w = FSym(z3.Real('w'), True)                    # window width fchans
    pre += [k.t >= 0, k.t <= 2 ** 24, w.t >= 1, w.t <= 2 ** 24]
    foff = -adf if desc else adf
    WfStub.log = []
    WfStub.hdr = {'fch1': fch1, 'nchans': FSym(z3.Real('nch'), True), 'foff': foff}
    WfStub.tch = 4
    pre += [z3.Real('nch') >= k.t + w.t, z3.Real('nch') <= 2 ** 25]

    class Once:
        """range(num_splits) replaced so that the loop body is executed for ONE symbolic window index product i*s = k"""
    # the real loop body computes f_start = fch1 + i * f_shift * df; run it with i = 1 and f_shift = k (so i*f_shift = k)
    def run():
        WfStub.log = []
        it = SU.split_waterfall_generator('x.fil', w, tchans=None, f_shift=k)
        next(it)                 # i = 0 (window at channel 0)
        next(it)                 # i = 1 (window at channel k)
        return list(WfStub.log)
    with shadow.patched_many([(SU, dict(Waterfall=WfStub, np=npx.NPProxy(), range=lambda n: [0, 1], **shadow.DEFAULT_BUILTINS))]):
        leaf = core.run_single(run, pre)
    lo, hi = leaf.value[1][0], leaf.value[1][1]
    side = list(fp.SIDE)
    # unrounded channel coordinates of the two window edges relative to the band edge blimpy uses
    # (desc: f0 = f_end = fch1, foff < 0 ; asc: f0 = fch1)
    e_lo = (lift(lo) - fch1.t) / lift(foff)
    e_hi = (lift(hi) - fch1.t) / lift(foff)
    a, b = (e_hi, e_lo) if desc else (e_lo, e_hi)       # after np.sort: for desc the lower frequency is the far edge
    half = RV(0.5)
    # np.sort([f_start, f_stop]) -> (fmin, fmax); blimpy rounds both; the pair of rounded values must be {k, k+w}
    r, m = core.check(pre + side + [z3.Or(e_lo - k.t >= half, k.t - e_lo >= half, e_hi - (k.t + w.t) >= half, (k.t + w.t) - e_hi >= half)
                                    if not desc else z3.Or(e_hi - k.t >= half, k.t - e_hi >= half, e_lo - (k.t + w.t) >= half, (k.t + w.t) - e_lo >= half)], timeout_ms=120000)
    recs.append(q(f"C19:split_waterfall:fp:{desc}:window-edges-within-half-channel", r))
    if r == 'sat':
        recs.append(cex('C19:split_waterfall:fp', 'in binary64 a window edge can round to a neighbouring channel (candidate)', dict(fn='split_fp', desc=desc, fch1=core.model_float(m, fch1), adf=core.model_float(m, adf)), name=f"C19:split_waterfall:fp:{desc}:window-edges-within-half-channel"))
    return recs


def job_real_files(kind):
    """real .fil files: generator pieces, split_fil outputs and the consumers, a dozen configurations"""
    import shutil
    import tempfile
    import setigen as stg
    from blimpy import Waterfall
    import logging
    logging.disable(logging.CRITICAL)
    recs = []
    tmp = tempfile.mkdtemp(prefix='c19_', dir='/var/tmp')
    problems = []
    cfgs = [(24, 8, None, None), (24, 8, 4, 2), (20, 8, None, None), (20, 8, 5, None), (8, 8, None, 3), (30, 7, 9, None), (16, 4, None, None), (9, 10, None, None)]
    geoms = [(6000.0e6, 2.7939677238464355, False), (1420.0e6, 1.0, True), (8000.0e6, 2.7939677238464355, False)]
    try:
        for (nch, fch, s, tch), (fch1, df, asc) in itertools.product(cfgs, geoms if kind == 'generator' else geoms[:1]):
            fr = stg.Frame(fchans=nch, tchans=4, df=df, dt=1.0, fch1=fch1, ascending=asc, seed=1)
            fr.data = np.arange(4 * nch, dtype=float).reshape(4, nch)
            fn = os.path.join(tmp, 'in.fil')
            fr.save_fil(fn)
            full = Waterfall(fn)
            fdata = full.data[:, 0, :]
            ffreqs = full.container.populate_freqs()
            step = s or fch
            want_n = (nch - fch) // step + 1 if nch >= fch else 0
            if kind == 'generator':
                pieces = list(stg.split_waterfall_generator(fn, fch, tchans=tch, f_shift=s))
                if len(pieces) != want_n:
                    problems.append(f"nchans={nch} fchans={fch} shift={s} df={df} asc={asc}: {len(pieces)} pieces, expected {want_n}")
                    continue
                for i, wfp in enumerate(pieces):
                    d = wfp.data[:, 0, :]
                    fq = wfp.container.populate_freqs()
                    tt = tch or 4
                    if d.shape != (tt, fch) or not np.array_equal(d, fdata[:tt, i * step:i * step + fch]) or not np.allclose(fq, ffreqs[i * step:i * step + fch], rtol=0, atol=abs(df) * 1e-9):
                        problems.append(f"nchans={nch} fchans={fch} shift={s} asc={asc}: piece {i} is not file channels [{i * step},{i * step + fch}) (shape {d.shape})")
                        break
                    lf = stg.Frame(wfp)
                    if lf.shape != (tt, fch) or not np.allclose(np.sort(lf.fs), np.sort(ffreqs[i * step:i * step + fch] * 1e6), rtol=0, atol=abs(df) * 1e-3):
                        problems.append(f"frame built from piece {i} has wrong shape / frequencies")
                        break
            elif kind == 'split_fil':
                # (the output directory need not exist, nor its parent: the documented behaviour is to create it)
                shutil.rmtree(os.path.join(tmp, 'out'), ignore_errors=True)
                outd = os.path.join(tmp, 'out', 'pieces') if (nch + fch) % 2 else os.path.join(tmp, 'out')
                import contextlib, io
                with contextlib.redirect_stdout(io.StringIO()):
                    fns = stg.split_fil(fn, outd, fch, tchans=tch, f_shift=s)
                if len(fns) != want_n:
                    problems.append(f"split_fil nchans={nch} fchans={fch} shift={s}: {len(fns)} files, expected {want_n}")
                    continue
                for i, f_ in enumerate(fns):
                    lf = stg.Frame(waterfall=str(f_))
                    d = lf.data if lf.ascending else lf.data[:, ::-1]
                    tt = tch or 4
                    if lf.shape != (tt, fch) or not np.array_equal(d, fdata[:tt, i * step:i * step + fch]):
                        problems.append(f"split_fil piece {i} not loadable as file channels [{i * step},{i * step + fch})")
                        break
            else:
                a, b, c = stg.get_parameter_distributions(fn, fch, tchans=tch, f_shift=s)
                mdist = stg.get_mean_distribution(fn, fch, tchans=tch, f_shift=s)
                if not (len(a) == len(b) == len(c) == len(mdist) == want_n):
                    problems.append(f"consumers nchans={nch} fchans={fch} shift={s}: lengths {(len(a), len(b), len(c), len(mdist))}, expected {want_n}")
    except Exception as e:
        problems.append(f"raised {type(e).__name__}: {e}")
    finally:
        shutil.rmtree(tmp, ignore_errors=True)
    r, _ = core.check([RV(len(problems)) != 0])
    recs.append(q(f"C19:real-files:{kind}", r, trivial=True, detail='; '.join(problems[:2])))
    if problems:
        recs.append(cex(f'C19:real-files:{kind}', '; '.join(problems[:3]), dict(fn='real', kind=kind), name=f"C19:real-files:{kind}"))
    return recs


# ------------------------------------------------------------------ concrete oracles
def replay_split_array(p):
    import setigen as stg
    H, W, t, f = p['H'], p['W'], p['t'], p['f']
    data = np.arange(H * W, dtype=float).reshape(H, W)
    try:
        if p['mode'] == 'partition':
            out = stg.split_array(data, f_sample_num=f, t_sample_num=t, f_shift=f, t_shift=t)
        elif p['mode'] == 'trim':
            out = stg.split_array(data, f_sample_num=f, t_sample_num=t, f_trim=True, t_trim=True)
        else:
            out = stg.split_array(data)
    except Exception as e:
        return True, f"split_array({H}x{W}, tile {t}x{f}, {p['mode']}) raised {type(e).__name__}: {e}"
    tiles = list(out)
    if p['mode'] == 'trim':
        want = [data[r * t:(r + 1) * t, c * f:(c + 1) * f] for r in range(H // t) for c in range(W // f)]
    else:
        tt, ff = (t, f) if p['mode'] == 'partition' else (H, W)
        want = [data[r:r + tt, c:c + ff] for r in range(0, H, tt) for c in range(0, W, ff)]
    ok = len(tiles) == len(want) and all(np.array_equal(a, b) for a, b in zip(tiles, want))
    return (not ok), f"split_array({H}x{W}, tile {t}x{f}, {p['mode']}): {len(tiles)} tiles, expected {len(want)} in row-major order"


def replay_split_waterfall(p):
    import shutil
    import tempfile
    import logging
    logging.disable(logging.CRITICAL)
    import setigen as stg
    from blimpy import Waterfall
    tmp = tempfile.mkdtemp(prefix='c19_', dir='/var/tmp')
    try:
        nch, fch, s = p['nchans'], p['fchans'], p['f_shift']
        fr = stg.Frame(fchans=nch, tchans=5, df=p.get('df_hz', 2.0), dt=1.0, fch1=4096.0e6, ascending=not p['desc'], seed=1)
        fr.data = np.arange(5 * nch, dtype=float).reshape(5, nch)
        fn = os.path.join(tmp, 'in.fil')
        fr.save_fil(fn)
        fdata = Waterfall(fn).data[:, 0, :]
        tch = {'none': None, 'some': 3, 'all': 5}[p['tchans']]
        try:
            pieces = list(stg.split_waterfall_generator(fn, fch, tchans=tch, f_shift=s))
        except Exception as e:
            return True, f"raised {e!r}"
        step = s or fch
        want_n = (nch - fch) // step + 1 if nch >= fch else 0
        if len(pieces) != want_n:
            return True, f"nchans={nch} fchans={fch} f_shift={s}: {len(pieces)} pieces, expected {want_n}"
        for i, w in enumerate(pieces):
            d = w.data[:, 0, :]
            if d.shape != (tch or 5, fch) or not np.array_equal(d, fdata[:tch or 5, i * step:i * step + fch]):
                return True, f"piece {i} has shape {d.shape} / is not file channels [{i * step},{i * step + fch})"
    finally:
        shutil.rmtree(tmp, ignore_errors=True)
    return False, 'pieces ok'


def replay_real(p):
    recs = job_real_files(p['kind'])
    bad = [r for r in recs if r['kind'] == 'cex']
    return bool(bad), bad[0]['what'] if bad else 'ok'


def replay_split_fp(p):
    return replay_real(dict(kind='generator'))


REPLAYS = {'split_array': replay_split_array, 'split_waterfall': replay_split_waterfall, 'real': replay_real, 'split_fp': replay_split_fp}


def main():
    ck = Check('C19', 'Splitting utilities tile the band and the array exactly')
    ck.functions = ['split_utils.split_array', 'split_utils.split_waterfall_generator', 'split_utils.split_fil', 'sample_from_obs.get_parameter_distributions', 'sample_from_obs.get_mean_distribution']
    ck.files = ['setigen/split_utils.py', 'setigen/sample_from_obs.py']
    ck.stubs = ['ndarray -> stand-in with symbolic shape whose slicing records the requested ranges', 'blimpy.Waterfall -> recording stand-in; its selection rounding (_setup_selection_range, _setup_chans) transcribed',
                'real blimpy and real .fil files in the real-files jobs and in replays']
    ck.assumptions = ['array dimensions and tile sizes are symbolic integers in 1..maxdim (unwinding cap asserted through the completeness query)', 'waterfall splitting: symbolic nchans, fchans, shift <= 64 with at most maxpieces pieces, dyadic header; binary64 window rounding in the delta model for fch1/|foff| <= 1e12 and channel indices <= 2^24']
    md = 5 if not ck.thorough else 8
    global NMAX
    NMAX = 24 if not ck.thorough else 64
    ck.bounds = dict(array_dims=f'1..{md}', element_level_shapes='1x1, 2x2, 4x4, 2x6, 6x4, 3x5 (thorough + 6x6, 8x4, 1x7, 5x1), tile sizes symbolic 1..dim+1', pieces='<= 4 (thorough 9)', nchans=f'<= {NMAX}', real_file_configs=8)
    jobs = []
    for mode in ('partition', 'trim', 'defaults'):
        jobs.append(('job_split_array', (md if mode != 'trim' else min(md, 6), mode)))
        for (Hc, Wc) in ((1, 1), (2, 2), (4, 4), (2, 6), (6, 4), (3, 5)) + (((6, 6), (8, 4), (1, 7), (5, 1)) if ck.thorough else ()):
            if mode == 'defaults' and (Hc, Wc) not in ((2, 2), (3, 5)):
                continue
            jobs.append(('job_split_array_elems', (Hc, Wc, mode)))
    for desc in (True, False):
        for with_shift in (False, True):
            jobs.append(('job_split_waterfall', (desc, 4 if not ck.thorough else 9, with_shift, 'none')))
        jobs.append(('job_split_waterfall', (desc, 3, True, 'some')))
        jobs.append(('job_split_waterfall', (desc, 3, True, 'none', 3e-7)))
        jobs.append(('job_split_fp', (desc,)))
    for kind in ('generator', 'split_fil', 'consumers'):
        jobs.append(('job_real_files', (kind,)))
    ck.run_jobs('props.C19', jobs, timeout_s=2400)
    ck.finish()


if __name__ == '__main__':
    main()
