"""C18 -- a cadence is a consistency-guarded list of frames with stable order labels.

E1, inductive-step form: from every valid pre-state (lists of up to 3 mutually compatible frames, every labelling
of them) ONE operation is executed on the real Cadence / OrderedCadence with a *symbolic* integer index in -6..6
(forked over its feasible values by the executor) and every object of a pool (compatible frames, frames differing
in df / dt / fchans / fmin, non-frames); the result is compared by identity with the same operation on a Python
list.  Aggregates with symbolic start times are checked in C16 (obs_range, tchans, slew_times).
"""
import itertools
import time

import numpy as np
import z3

from symx import core, npx
from symx.core import Sym, lift, RV
from symx.report import Check, q, cex, note
from props.frame_common import setigen
import setigen as stg
from setigen import cadence as CAD

ORDER = "ABCDEFGH"
NEW_ORDER = "XYXYXYXY"
NBADFRAMES = 7      # incompatible Frame objects in the pool (the rest are non-frames)


POOL_ROUTE = ['ctor']


def pool():
    # compatible frames (the guard compares df, dt, fchans, fmin); they need not have the same number of integrations
    if POOL_ROUTE[0] == 'from_data':
        # frames made from arrays without a metadata argument (as slices, de-drifted frames and user arrays are)
        ok = [stg.Frame.from_data(1.0, 1.0, 100.0, False, np.zeros(((2, 2, 3, 1)[i], 4)), t_start=float(10 * i), seed=i) for i in range(4)]
    else:
        ok = [stg.Frame(fchans=4, tchans=(2, 2, 3, 1)[i], df=1.0, dt=1.0, fch1=100.0, t_start=float(10 * i), seed=i) for i in range(4)]
    bad = [stg.Frame(fchans=4, tchans=2, df=2.0, dt=1.0, fch1=103.0, t_start=0., seed=9),     # df differs (fmin equal)
           stg.Frame(fchans=4, tchans=2, df=1.0, dt=2.0, fch1=100.0, t_start=0., seed=9),     # dt differs
           stg.Frame(fchans=5, tchans=2, df=1.0, dt=1.0, fch1=101.0, t_start=0., seed=9),     # fchans differs (fmin equal)
           stg.Frame(fchans=4, tchans=2, df=1.0, dt=1.0, fch1=101.0, t_start=0., seed=9),     # fmin differs
           stg.Frame(fchans=4, tchans=2, df=1.0 + 1e-9, dt=1.0, fch1=100.0, t_start=0., seed=9),          # df differs by 1e-9
           stg.Frame(fchans=4, tchans=2, df=1.0, dt=1.0 - 1e-12, fch1=100.0, t_start=0., seed=9),         # dt differs in the last digits
           stg.Frame(fchans=4, tchans=2, df=1.0, dt=1.0, fch1=100.0 + 1e-7, t_start=0., seed=9),          # fmin differs by a tiny offset
           "not a frame", 7]
    return ok, bad


OPS = ('append', 'insert', 'setitem', 'delitem', 'pop', 'pop_last', 'getitem', 'extend')


def job_step(kind, n, op, route='ctor'):
    """kind: 'plain' | 'ordered'; n: pre-state length; op: operation; route: how the pool frames were constructed"""
    recs = []
    tag = f"C18:{kind}:{n}:{op}" + (f":{route}" if route != 'ctor' else '')
    POOL_ROUTE[0] = route
    ok, bad = pool()
    ii = z3.Int('i')
    isym = Sym(z3.ToReal(ii), True)
    pre = [ii >= -6, ii <= 6]
    nviol = 0
    nleaves = 0
    states = list(itertools.permutations(range(3), n))
    labelsets = [tuple(bits) for bits in itertools.product((False, True), repeat=4)] if kind == 'ordered' else [(False,) * 4]
    # labelled[k]: does pool frame k already carry a label ('Z')
    objs = list(range(4)) + [4 + k for k in range(len(bad))] if op in ('append', 'insert', 'setitem', 'extend') else [None]
    for st in states:
        for lab in labelsets:
            for ob in objs:
                if ob is not None and ob < 4 and ob in st and op != 'setitem':
                    continue                # the same object twice in a list: not a use case
                def run(st=st, lab=lab, ob=ob):
                    for k, f in enumerate(ok):
                        f.metadata.pop('order_label', None)
                        if lab[k]:
                            f.metadata['order_label'] = 'Z'
                    for f in bad:
                        if hasattr(f, 'metadata'):
                            f.metadata.pop('order_label', None)
                    if route == 'overwrite':
                        # a cadence that was constructed with t_overwrite=True (empty), and then filled / edited by hand:
                        # its aggregates still describe the frames it holds
                        cad = CAD.Cadence(t_slew=5.5, t_overwrite=True)
                    else:
                        cad = CAD.OrderedCadence(order=ORDER) if kind == 'ordered' else CAD.Cadence()
                    cad.frames = [ok[s] for s in st]
                    ref = list(cad.frames)
                    src = None
                    if route == 'from_cadence':
                        # the cadence under test was constructed FROM another cadence object (a copy of the list, as
                        # list(other) would be): what happens to it must not reach the cadence it was made from
                        src = cad
                        cad = CAD.Cadence(src)
                    v = None if ob is None else (ok[ob] if ob < 4 else bad[ob - 4])
                    valid = ob is not None and (ob < 4 or (n == 0 and ob - 4 < NBADFRAMES))
                    had = ob is not None and ob < 4 and 'order_label' in v.metadata
                    meta_before = None if (ob is None or ob >= 4 + NBADFRAMES) else dict(v.metadata)
                    res, exc = None, None
                    try:
                        if op == 'append':
                            cad.append(v)
                        elif op == 'extend':
                            cad.extend([v, ok[3]] if (ob != 3 and ob < 4) else [v])
                        elif op == 'insert':
                            cad.insert(isym, v)
                        elif op == 'setitem':
                            cad[isym] = v
                        elif op == 'delitem':
                            del cad[isym]
                        elif op == 'pop':
                            res = cad.pop(isym)
                        elif op == 'pop_last':
                            res = cad.pop()
                        elif op == 'getitem':
                            res = cad[isym]
                        elif op == 'set_order_same':
                            cad.set_order(cad.order)
                        elif op == 'set_order_new':
                            cad.set_order(NEW_ORDER)
                    except (TypeError, AttributeError, IndexError) as e:
                        exc = e
                    o = dict(cad=cad, ref=ref, v=v, valid=valid, had=had, res=res, exc=exc, meta_before=meta_before, ob=ob, lab=lab)
                    iv = core.concretize_int(isym) if op in ('insert', 'setitem', 'delitem', 'pop', 'getitem') else 0
                    # judged here, on this path's final state (the pool objects are shared between re-executions)
                    msg = judge(kind, op, o, iv, ok)
                    if not msg and src is not None and not (len(src.frames) == len(ref) and all(x is y for x, y in zip(src.frames, ref))):
                        msg = f"{op}({iv}) on a cadence constructed from another cadence changed the other one: identity/order there is now {[ok.index(f) if f in ok else '?' for f in src.frames]}"
                    return msg, iv
                leaves = core.explore(run, pre, cap=60, catch=())
                nleaves += len(leaves)
                conds = []
                for leaf in leaves:
                    conds.append(leaf.cond())
                    bad_msg, iv = leaf.value
                    if bad_msg and nviol < 4:
                        nviol += 1
                        name = f"{tag}:state{st}:lab{lab}:obj{ob}:i{iv}"
                        recs.append(q(name, 'sat', detail=bad_msg))
                        recs.append(cex(f"C18:{kind}:{op}:{classify(bad_msg)}", bad_msg, dict(fn='step', kind=kind, state=list(st), lab=list(lab), ob=ob, op=op, i=iv, route=route), name=name))
                if op in ('insert', 'setitem', 'delitem', 'pop', 'getitem'):
                    r, _ = core.check(pre + [z3.Not(z3.Or(*conds))])
                    if r != 'unsat':
                        recs.append(q(f"{tag}:state{st}:split-complete", r))
    # one aggregated obligation per job: no pre-state/object/index produced a deviation (each path's verdict was
    # established on the terms of that path; the index case split was proven complete above)
    r, _ = core.check([RV(nviol) != 0])
    recs.append(q(tag, r, paths=nleaves, states=len(states) * len(labelsets) * len(objs)))
    return recs


def classify(msg):
    for k in ('label', 'identity', 'accepted', 'rejected', 'raised', 'unchanged', 'result', 'obs_range', 'tchans', 'slew_times'):
        if k in msg:
            return k
    return 'other'


def aggregates_problem(cad):
    """total time samples, observing range and slew times agree with the member frames (None / empty for no frames)"""
    fr = cad.frames
    if not fr:
        return None if (cad.obs_range is None and (cad.tchans in (0, None))) else f"aggregates of an empty cadence: obs_range={cad.obs_range!r} tchans={cad.tchans!r}"
    want_range = fr[-1].t_start + fr[-1].tchans * fr[-1].dt - fr[0].t_start
    if cad.obs_range is None or abs(cad.obs_range - want_range) > 1e-9:
        return f"obs_range={cad.obs_range!r} but the member frames span {want_range!r} (first frame starts at {fr[0].t_start!r})"
    if cad.tchans != sum(f.tchans for f in fr):
        return f"tchans={cad.tchans!r} but the member frames have {sum(f.tchans for f in fr)}"
    want_slew = [b.t_start - (a.t_start + a.tchans * a.dt) for a, b in zip(fr, fr[1:])]
    if len(cad.slew_times) != len(want_slew) or any(abs(x - y) > 1e-9 for x, y in zip(cad.slew_times, want_slew)):
        return f"slew_times={list(cad.slew_times)!r} but the member frames give {want_slew!r}"
    return None


def judge(kind, op, o, i, ok):
    """compare with the Python-list model; returns a message if the property is violated on this path"""
    cad, ref, v, valid, had, res, exc = o['cad'], list(o['ref']), o['v'], o['valid'], o['had'], o['res'], o['exc']
    n = len(ref)
    same = lambda a, b: len(a) == len(b) and all(x is y for x, y in zip(a, b))
    adds = op in ('append', 'insert', 'setitem', 'extend')
    if adds and not valid:
        if exc is None or isinstance(exc, IndexError):
            if not (op == 'setitem' and isinstance(exc, IndexError)):
                return f"{op}: an incompatible / non-frame object was accepted ({type(v).__name__})"
        if not same(cad.frames, ref):
            return f"{op}: rejected object but the list is not unchanged"
        if o['meta_before'] is not None and dict(v.metadata) != o['meta_before']:
            return f"{op}: the rejected frame was modified all the same: it now carries the label {v.metadata.get('order_label')!r}"
        return None
    # model
    model_exc = None
    try:
        if op == 'append':
            ref.append(v)
        elif op == 'extend':
            ref.extend([v, ok[3]] if (o['ob'] != 3 and o['ob'] < 4) else [v])
        elif op == 'insert':
            ref.insert(i, v)
        elif op == 'setitem':
            ref[i] = v
        elif op == 'delitem':
            del ref[i]
        elif op == 'pop':
            want = ref.pop(i)
        elif op == 'pop_last':
            want = ref.pop()
        elif op == 'getitem':
            want = ref[i]
    except IndexError as e:
        model_exc = e
    if model_exc is not None:
        if not isinstance(exc, IndexError):
            return f"{op}({i}) on {n} frames: a list raises IndexError, the cadence raised {exc!r}"
        if not same(cad.frames, o['ref']):
            return f"{op}({i}): raised but the list is not unchanged"
        if adds and o['meta_before'] is not None and dict(v.metadata) != o['meta_before']:
            return f"{op}({i}): raised IndexError but the frame was given a label {v.metadata.get('order_label')!r}"
        return None
    if exc is not None:
        return f"{op}({i}) on {n} frames raised {exc!r}, a list does not"
    if not same(cad.frames, ref):
        return f"{op}({i}): identity/order differs from the list model: positions {[ok.index(f) if f in ok else '?' for f in cad.frames]}"
    if op in ('pop', 'pop_last', 'getitem') and res is not want:
        return f"{op}({i}): result is not the list's element"
    agg = aggregates_problem(cad)
    if agg:
        return f"{op}({i}): {agg}"
    if kind == 'ordered' and adds:
        news = [v] + ([ok[3]] if op == 'extend' and o['ob'] != 3 and o['ob'] < 4 else [])
        for f in news:
            prior = o['lab'][ok.index(f)] if any(f is g for g in ok) else False
            lbl = f.metadata.get('order_label')
            pos = [k for k, g in enumerate(cad.frames) if g is f]
            if prior:
                if lbl != 'Z':
                    return f"{op}({i}): an already labelled frame was re-labelled to {lbl!r}"
            elif lbl not in [ORDER[k] for k in pos]:
                return f"{op}({i}): unlabelled frame landed at position {pos} but got label {lbl!r} (expected {[ORDER[k] for k in pos]})"
    if op in ('set_order_same', 'set_order_new'):
        # re-labelling: afterwards every member carries the letter of its position, whatever it carried before
        # (and whether or not the order string is the one the cadence already had)
        want_o = ORDER if op == 'set_order_same' else NEW_ORDER
        got_l = [f.metadata.get('order_label') for f in cad.frames]
        if cad.order != want_o or got_l != list(want_o[:len(cad.frames)]):
            return f"{op}: labels after set_order({want_o!r}) are {got_l} (order attribute {cad.order!r}), expected {list(want_o[:len(cad.frames)])}"
    if kind == 'ordered' and cad.frames and all('order_label' in f.metadata for f in cad.frames):
        # filtering goes by the label each frame carries, wherever the frame now sits
        for lbl in sorted({f.metadata['order_label'] for f in cad.frames} | {'Q'}):
            got = cad.by_label(lbl)
            want_l = [f for f in cad.frames if f.metadata['order_label'] == lbl]
            if not same(list(got.frames), want_l):
                return (f"{op}({i}): by_label({lbl!r}) returned the frames at positions {[k for k, g in enumerate(cad.frames) if any(g is h for h in got.frames)]}, "
                        f"the frames carrying that label are at {[k for k, g in enumerate(cad.frames) if any(g is h for h in want_l)]}")
    return None


def job_select(kind):
    """slice / index-list selection, construction, set_order, by_label"""
    recs = []
    ok, bad = pool()
    problems = []
    for n in range(0, 5):
        for f in ok:
            f.metadata.pop('order_label', None)
        frames = ok[:n]
        cad = CAD.OrderedCadence(frames, order=ORDER) if kind == 'ordered' else CAD.Cadence(frames)
        if [id(f) for f in cad.frames] != [id(f) for f in frames] or len(cad) != n:
            problems.append(f"construction from {n} frames")
        if kind == 'ordered' and [f.metadata.get('order_label') for f in cad.frames] != list(ORDER[:n]):
            problems.append(f"construction labels {[f.metadata.get('order_label') for f in cad.frames]}")
        for a in range(-5, 6):
            for b in range(-5, 6):
                for step in (None, 2, -1):
                    sub = cad[a:b:step]
                    if not isinstance(sub, type(cad)) or [id(f) for f in sub.frames] != [id(f) for f in frames[a:b:step]]:
                        problems.append(f"slice [{a}:{b}:{step}] of {n}")
        if n:
            for idx in ([0], [n - 1, 0], list(range(n))[::-1], [-1]):
                sub = cad[idx]
                if [id(f) for f in sub.frames] != [id(frames[k]) for k in idx]:
                    problems.append(f"index list {idx} of {n}")
            sub = cad[np.array([0, n - 1])]
            if [id(f) for f in sub.frames] != [id(frames[0]), id(frames[n - 1])]:
                problems.append("index array")
        if kind == 'ordered':
            cad.set_order("XYXYXY")
            if [f.metadata['order_label'] for f in cad.frames] != list("XYXYXY"[:n]):
                problems.append("set_order labels")
            for lbl in "XYZ":
                got = cad.by_label(lbl)
                want = [f for f in cad.frames if f.metadata['order_label'] == lbl]
                if [id(f) for f in got.frames] != [id(f) for f in want]:
                    problems.append(f"by_label({lbl})")
        # rejected construction
        for bobj in bad:
            try:
                (CAD.OrderedCadence if kind == 'ordered' else CAD.Cadence)(frames + [bobj]) if n else None
                if n and True:
                    problems.append(f"constructor accepted {type(bobj).__name__} after {n} frames")
            except (TypeError, AttributeError):
                pass
    r, _ = core.check([RV(len(problems)) != 0])
    recs.append(q(f"C18:{kind}:select/construct/labels", r, detail='; '.join(problems[:3])))
    if problems:
        recs.append(cex(f"C18:{kind}:select", '; '.join(problems[:3]), dict(fn='select', kind=kind), name=f"C18:{kind}:select/construct/labels"))
    return recs


# ------------------------------------------------------------------ concrete oracle
def _replay_step_form(p, conv):
    POOL_ROUTE[0] = p.get('route', 'ctor')
    ok, bad = pool()
    for k, f in enumerate(ok):
        f.metadata.pop('order_label', None)
        if p['lab'][k]:
            f.metadata['order_label'] = 'Z'
    if p.get('route') == 'overwrite':
        cad = CAD.Cadence(t_slew=5.5, t_overwrite=True)
    else:
        cad = CAD.OrderedCadence(order=ORDER) if p['kind'] == 'ordered' else CAD.Cadence()
    cad.frames = [ok[s] for s in p['state']]
    ref = list(cad.frames)
    src = None
    if p.get('route') == 'from_cadence':
        src = cad
        cad = CAD.Cadence(src)
    ob, op, i, n = p['ob'], p['op'], conv(p['i']), len(p['state'])
    v = None if ob is None else (ok[ob] if ob < 4 else bad[ob - 4])
    o = dict(cad=cad, ref=ref, v=v, valid=ob is not None and (ob < 4 or (n == 0 and ob - 4 < NBADFRAMES)), had=ob is not None and ob < 4 and 'order_label' in v.metadata,
             res=None, exc=None, meta_before=None if (ob is None or ob >= 4 + NBADFRAMES) else dict(v.metadata), ob=ob, lab=p['lab'])
    try:
        if op == 'append':
            cad.append(v)
        elif op == 'extend':
            cad.extend([v, ok[3]] if (ob != 3 and ob < 4) else [v])
        elif op == 'insert':
            cad.insert(i, v)
        elif op == 'setitem':
            cad[i] = v
        elif op == 'delitem':
            del cad[i]
        elif op == 'pop':
            o['res'] = cad.pop(i)
        elif op == 'pop_last':
            o['res'] = cad.pop()
        elif op == 'getitem':
            o['res'] = cad[i]
        elif op == 'set_order_same':
            cad.set_order(cad.order)
        elif op == 'set_order_new':
            cad.set_order(NEW_ORDER)
    except (TypeError, AttributeError, IndexError) as e:
        o['exc'] = e
    msg = judge(p['kind'], op, o, int(i), ok)
    if not msg and src is not None and not (len(src.frames) == len(ref) and all(x is y for x, y in zip(src.frames, ref))):
        msg = f"{op}({int(i)}) on a cadence constructed from another cadence changed the other one: it now holds {[ok.index(f) if f in ok else '?' for f in src.frames]}, before {[ok.index(f) for f in ref]}"
    return bool(msg), msg or 'cadence behaves like the list model'


def replay_step(p):
    """the index in every form a Python list accepts: int and NumPy integer scalars (anything with __index__)"""
    forms = [('int', int)]
    if p['op'] in ('insert', 'setitem', 'delitem', 'pop', 'getitem'):
        forms += [('numpy.int64', np.int64), ('numpy.int32', np.int32), ('numpy.intp', np.intp)]
    for name, conv in forms:
        bad, msg = _replay_step_form(p, conv)
        if bad:
            return True, f"index given as {name}: {msg}"
    return False, 'cadence behaves like the list model'


def replay_select(p):
    recs = job_select(p['kind'])
    bad = [r for r in recs if r['kind'] == 'cex']
    return bool(bad), bad[0]['what'] if bad else 'selection ok'


REPLAYS = {'step': replay_step, 'select': replay_select}


def main():
    ck = Check('C18', 'A cadence is a consistency-guarded list of frames with stable order labels')
    ck.functions = ['Cadence.__init__', 'Cadence._check', 'Cadence.__len__', 'Cadence.__getitem__', 'Cadence.__delitem__', 'Cadence.__setitem__', 'Cadence.insert',
                    'MutableSequence.append/extend/pop (inherited)', 'OrderedCadence.__setitem__', 'OrderedCadence.insert', 'OrderedCadence.set_order', 'OrderedCadence.by_label']
    ck.files = ['setigen/cadence.py']
    ck.stubs = []
    ck.assumptions = ['inductive step: pre-states are all orderings of up to 3 distinct compatible frames with every labelling; longer histories are covered through the invariant "members mutually compatible, labels sticky"',
                      'index symbolic in -6..6 (executor forks over feasible values; case split proven complete)', 'order string at least as long as the cadence']
    ck.bounds = dict(pre_state_lengths='0..3', pool='4 compatible frames, 4 incompatible (df, dt, fchans, fmin), 2 non-frames', index='-6..6', ops=OPS)
    jobs = []
    for kind in ('plain', 'ordered'):
        for n in range(0, 4):
            for op in OPS + (('set_order_same', 'set_order_new') if kind == 'ordered' else ()):
                jobs.append(('job_step', (kind, n, op)))
        jobs.append(('job_select', (kind,)))
    for n in (1, 2):
        for op in ('append', 'insert', 'setitem', 'set_order_new'):
            jobs.append(('job_step', ('ordered', n, op, 'from_data')))
        for op in ('append', 'insert', 'setitem', 'delitem', 'pop'):
            jobs.append(('job_step', ('plain', n, op, 'from_cadence')))
    for op in ('append', 'delitem', 'getitem'):
        jobs.append(('job_step', ('plain', 2, op, 'overwrite')))
    ck.run_jobs('props.C18', jobs, timeout_s=1500)
    ck.finish()


if __name__ == '__main__':
    main()
