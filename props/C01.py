"""C01 -- injected signal = pointwise product of its four components.

Engine E1: the real Frame.__init__ / Frame.add_signal (and each shipped
path/profile factory) are executed on z3 terms; the per-pixel specification is
written from the property statement; z3 decides `exists pixel: impl != spec`.
"""
import itertools
import sys
import time

import numpy as np
import z3

from symx import core, npx
from symx.core import Sym, lift, UF, RV
from symx.report import Check, q, cex, note
from props import inject
from props.inject import Cfg
from props.frame_common import F, frame_patches, geom_syms, make_frame, uf1, uf2
from props import families

REPLAYS = {'add_signal': inject.replay_add_signal, 'family': families.replay_family}


def configs(T, Fc, asc, smear, bound, tier, geom=None):
    nts = (2,) if tier == 'quick' else (1, 3)
    out = []
    for pform, tform, bform in itertools.product(('fn', 'arr', 'sc'), ('fn', 'arr', 'sc'), ('fn', 'arr', 'sc', None)):
        for ip, it, if_ in itertools.product((False, True), repeat=3):
            if bform == 'arr' and (if_ or bound):
                # an array bandpass must match the *restricted, sub-sampled* grid: only meaningful
                # without bounding/f-integration (other combinations are covered by 'fn'/'sc')
                continue
            if ip and pform != 'fn':
                continue
            if it and tform != 'fn':
                continue
            for nt in (nts if (ip or it) else (2,)):
                for nf in (((3,) if tier == 'quick' else nts) if if_ else (2,)):      # never the same count as the time grid (2) in the quick tier
                    for ns in ((2, 3) if smear else (2,)):
                        if tier == 'quick' and smear and ns == 3 and (ip or it or if_):
                            continue
                        out.append(Cfg(T=T, Fc=Fc, asc=asc, pform=pform, tform=tform, bform=bform, ip=ip, it=it,
                                       if_=if_, smear=smear, bound=bound, nt=nt, nf=nf, ns=ns, geom=geom))
    return out


def check_cfg(c):
    recs = []
    t0 = time.time()
    ex = inject.execute(c)
    pre = ex['pre']
    conds = []
    for li, leaf in enumerate(ex['leaves']):
        name = f"C01:{c!r}:leaf{li}"
        conds.append(leaf.cond())
        if leaf.kind == 'exc':
            # the real code raised on a feasible input region: the statement promises a value
            m = inject.nice_model(pre + leaf.pc, ex)
            what = f"add_signal raises {type(leaf.value).__name__}: {leaf.value}"
            recs.append(q(name, 'sat', expect='unsat', detail=what))
            if m is not None:
                recs.append(cex(f"C01:raise:{type(leaf.value).__name__}:{'smear-arr-path' if (c.smear and c.pform=='arr') else ('empty-bound-if' if c.bound and c.if_ else 'other')}",
                                what, inject.model_payload(c, ex, m), name=name))
            continue
        fr, sig = leaf.value['fr'], leaf.value['sig']
        spec = inject.spec_signal(c, ex['inp'], leaf.value['before']['fs'], leaf.value['before']['ts'], leaf.value['before']['df'], leaf.value['before']['dt'], leaf.value['before']['fmin'])
        if sig.shape != (c.T, c.Fc):
            recs.append(q(name, 'sat', detail=f"shape {sig.shape}"))
            continue
        # z3's rewriter (sum-of-monomials normal form) settles most pixels; what it cannot
        # reduce to 0 is left to the solver proper
        diffs = [z3.simplify(lift(sig[i, j]) - spec[i][j], som=True) for i in range(c.T) for j in range(c.Fc)]
        dis = [d != 0 for d in diffs]
        asser = pre + leaf.pc + leaf.side + [z3.Or(*dis)]
        ts = time.time()
        r, m = core.check(asser, timeout_ms=60000)
        recs.append(q(name, r, ms=(time.time() - ts) * 1000, pixels=len(dis)))
        if r == 'sat':
            m2 = inject.nice_model(asser, ex) or m
            recs.append(cex(f"C01:value:{'smear' if c.smear else 'plain'}:{'bound' if c.bound else 'full'}:ip{int(c.ip)}it{int(c.it)}if{int(c.if_)}",
                            f"returned signal differs from t_profile*f_profile*bandpass specification at {c!r}",
                            inject.model_payload(c, ex, m2), name=name))
        # the caller's arrays still hold the description that was passed in
        moved = [z3.simplify(lift(a) - lift(b), som=True) != 0 for k in leaf.value['in_before'] for a, b in zip(leaf.value['in_after'][k], leaf.value['in_before'][k])]
        if moved:
            r, m = core.check(pre + leaf.pc + leaf.side + [z3.Or(*moved)], timeout_ms=30000)
            recs.append(q(name + ':inputs', r, arrays=len(leaf.value['in_before'])))
            if r == 'sat':
                recs.append(cex(f"C01:inputs-modified:{'smear' if c.smear else 'plain'}", f"add_signal modifies the caller's array inputs at {c!r}",
                                inject.model_payload(c, ex, inject.nice_model(pre + leaf.pc + leaf.side + [z3.Or(*moved)], ex) or m), name=name + ':inputs'))
    # completeness of the case split + vacuity twin (some path is reachable)
    r, _ = core.check(pre + [z3.Not(z3.Or(*conds))] if conds else pre, timeout_ms=30000)
    recs.append(q(f"C01:{c!r}:split-complete", r))
    return recs


def job_inject(T, Fc, asc, smear, bound, tier, geom=None, pform=None):
    recs = []
    cfgs = [c for c in configs(T, Fc, asc, smear, bound, tier, geom) if pform is None or c.pform == pform]
    for c in cfgs:
        recs += check_cfg(c)
    # vacuity twin for this family: a deliberately wrong specification must be refuted (sat)
    c = cfgs[0]
    ex = inject.execute(c)
    leaf = ex['leaves'][0]
    if leaf.kind == 'ok':
        spec = inject.spec_signal(c, ex['inp'], leaf.value['before']['fs'], leaf.value['before']['ts'], leaf.value['before']['df'], leaf.value['before']['dt'], leaf.value['before']['fmin'])
        r, _ = core.check(ex['pre'] + leaf.pc + [lift(leaf.value['sig'][0, 0]) != spec[0][0] + 1], timeout_ms=30000)
        recs.append(q(f"C01:twin:{c!r}", r, expect='sat'))
    return recs


def main():
    ck = Check('C01', 'Injected signal equals the pointwise product of its four components')
    ck.functions = ['setigen.frame.Frame.__init__', 'Frame._update_fs', 'Frame._update_ts', 'Frame.add_signal', 'Frame.get_index',
                    'Frame.ts_ext', 'setigen.funcs.paths.*', 'setigen.funcs.t_profiles.*', 'setigen.funcs.f_profiles.*',
                    'setigen.funcs.bp_profiles.*', 'setigen.funcs.func_utils.*']
    ck.files = ['setigen/frame.py', 'setigen/funcs/paths.py', 'setigen/funcs/t_profiles.py', 'setigen/funcs/f_profiles.py',
                'setigen/funcs/bp_profiles.py', 'setigen/funcs/func_utils.py']
    ck.stubs = ['astropy sigma_clip -> identity (only feeds noise estimates)', 'user callbacks path/t_profile/f_profile/bp_profile -> uninterpreted functions',
                'sin/exp/sinc/wofz/log -> uninterpreted functions', 'numpy Generator -> symbolic draw stub (families)']
    ck.assumptions = ['exact real arithmetic (binary64 rounding of products/sums outside the claim)',
                      'df > 0, dt > 0, fch1 arbitrary reals; array shapes concrete (bounds)',
                      'array bandpass only checked without bounding range / f-integration']
    if ck.thorough:
        shapes = [(1, 1), (2, 3), (3, 5), (4, 6)]
    else:
        shapes = [(2, 3), (3, 4)]
    ck.bounds = dict(shapes=shapes, subsamples='quick: 2 (smearing 2,3); thorough: 1..3', orientations=2,
                     forms='path/t_profile: fn|array|scalar; bandpass: fn|array|scalar|None', bounding='none | symbolic real endpoints (forked over clipped index pairs)')
    jobs = []
    for (T, Fc) in shapes:
        for asc in (False, True):
            for smear in (False, True):
                jobs.append(('job_inject', (T, Fc, asc, smear, False, ck.tier, None)))
                for geom in (('g1',) if not ck.thorough else ('g1', 'g2')):
                    for pform in ('fn', 'arr', 'sc'):
                        jobs.append(('job_inject', (T, Fc, asc, smear, True, ck.tier, geom, pform)))
    jobs += families.jobs(ck.tier)
    ck.run_jobs('props.C01', jobs, timeout_s=1500 if ck.thorough else 600)
    ck.finish()


job_family = families.job_family

if __name__ == '__main__':
    main()
