"""C16 -- cadence injection is time-continuous and leaves frame time axes intact.

E1: the real Cadence.add_signal / overwrite_times / slew_times / consolidate and Frame.add_signal run with
symbolic frame start times, symbolic geometry and uninterpreted signal components; fault positions (callback
raising on the k-th frame) are enumerated; exactness of the time-axis restoration is decided in the
rounded-real (delta) model of binary64.
"""
import itertools
import time

import numpy as np
import z3

from symx import core, npx, fp
from symx.core import Sym, lift, RV
from symx.fp import FSym
from symx.report import Check, q, cex, note
from props import inject
from props.inject import Cfg
from props.frame_common import F, frame_patches, geom_syms, make_frame, sym_data, setigen
from setigen import cadence as CAD


def cad_patches(proxy=None):
    from symx import shadow
    px = proxy or npx.NPProxy()
    return frame_patches(proxy=px, extra=[(CAD, dict(np=px, **shadow.DEFAULT_BUILTINS))])


def options(tier):
    base = [dict(ip=False, it=False, if_=False, smear=False), dict(ip=True, it=True, if_=False, smear=False),
            dict(ip=False, it=False, if_=True, smear=True), dict(ip=True, it=False, if_=False, smear=True),
            # the path need not be a function: a fixed frequency / a per-row array, with a time-varying intensity profile
            dict(ip=False, it=False, if_=False, smear=False, pform='sc'), dict(ip=False, it=True, if_=False, smear=False, pform='arr'),
            # one pre-computed path array (tchans + 1 values, smeared) handed to every frame of the cadence: it is only read
            dict(ip=False, it=False, if_=False, smear=True, pform='arr')]
    return base


def mk_cfg(T, Fc, asc, o):
    return Cfg(T=T, Fc=Fc, asc=asc, pform=o.get('pform', 'fn'), tform='fn', bform='fn', ip=o['ip'], it=o['it'], if_=o['if_'], smear=o['smear'],
               bound=False, nt=2, nf=3, ns=2, geom=None)


def job_continuity(nfr, T, Fc, asc, oi, select):
    """select: None (whole cadence), ('slice', a, b) or ('index', [..]) -- injection into a sub-cadence"""
    recs = []
    o = options('x')[oi]
    c = mk_cfg(T, Fc, asc, o)
    tag = f"C16:continuity:{(nfr, T, Fc, asc, oi, select)}"
    df, dt, fch1, pre = geom_syms()
    taus = [Sym(z3.Real(f'tau{m}')) for m in range(nfr)]
    Ds = [sym_data(T, Fc, f'D{m}_') for m in range(nfr)]
    inp, kw = inject.build_inputs(c)

    def run():
        frames = [make_frame(T, Fc, asc, df, dt, fch1, t_start=taus[m]) for m in range(nfr)]
        for fr, D in zip(frames, Ds):
            fr.data = D.copy()
        before = [(list(fr.ts), fr.ts) for fr in frames]
        cad = CAD.Cadence(frames)
        tgt = cad
        if select is not None:
            tgt = cad[select[1]:select[2]] if select[0] == 'slice' else cad[list(select[1])]
        # other cadences over the same frame objects come into being before the injection (another first frame, another
        # order); they are not used, and must not matter
        if nfr >= 2:
            _decoys = [CAD.Cadence(frames[1:]), CAD.Cadence(frames[::-1]), cad[1:], cad[[nfr - 1]]]
        tgt.add_signal(**kw)
        # derived axes read AFTER the injection follow the restored time axis (nothing computed on the shifted one sticks)
        ext_after = [list(fr.ts_ext) for fr in frames]
        return frames, before, [id(f) for f in tgt.frames], ext_after
    with cad_patches():
        leaves = core.explore(run, pre, cap=20)
    pl = dict(fn='cadence', nfr=nfr, T=T, Fc=Fc, asc=asc, opts=o, select=select, fault=None)
    for li, leaf in enumerate(leaves):
        name = f"{tag}:leaf{li}"
        if leaf.kind == 'exc':
            recs.append(q(name, 'sat', detail=repr(leaf.value)))
            recs.append(cex('C16:raise', f'Cadence.add_signal raised {leaf.value!r}', pl, name=name))
            continue
        frames, before, tgt_ids, ext_after = leaf.value
        members = [m for m, fr in enumerate(frames) if id(fr) in tgt_ids]
        first = [m for m, fr in enumerate(frames) if id(fr) == tgt_ids[0]][0] if tgt_ids else 0
        dis_sig, dis_ts = [], []
        for m, fr in enumerate(frames):
            ts0 = before[m][0]
            if len(fr.ts) != len(ts0) or len(ext_after[m]) != len(ts0) + 1:
                dis_ts.append(z3.BoolVal(True))
            else:
                dis_ts += [lift(a) != lift(b) for a, b in zip(fr.ts, ts0)]
                dis_ts += [lift(a) != lift(b) for a, b in zip(ext_after[m], list(ts0) + [lift(ts0[-1]) + lift(fr.dt)])]
            if m in members:
                shifted = [lift(t) + (taus[m].t - taus[first].t) for t in ts0]
                spec = inject.spec_signal(c, inp, list(fr.fs), [Sym(t) for t in shifted], fr.df, fr.dt, fr.fmin)
            else:
                spec = [[RV(0)] * Fc for _ in range(T)]
            for i in range(T):
                for j in range(Fc):
                    d = z3.simplify(lift(fr.data[i, j]) - lift(Ds[m][i, j]) - spec[i][j], som=True)
                    if not (z3.is_rational_value(d) and d.numerator_as_long() == 0):
                        dis_sig.append(d != 0)
        base = pre + leaf.pc + leaf.side
        r, m_ = core.check(base + [z3.Or(*dis_sig)] if dis_sig else [z3.BoolVal(False)], timeout_ms=120000)
        recs.append(q(name + ':signal', r, by_solver=len(dis_sig)))
        if r == 'sat':
            recs.append(cex(f"C16:continuity:{'integrate' if (o['ip'] or o['it']) else 'plain'}:{'sub' if select else 'whole'}",
                            'a frame did not receive the single-frame signal evaluated at its own times shifted by its start time relative to the first frame', pl, name=name + ':signal'))
        r, m_ = core.check(base + [z3.Or(*dis_ts)], timeout_ms=60000)
        recs.append(q(name + ':ts-restored', r))
        if r == 'sat':
            recs.append(cex('C16:ts-restored', 'a frame time axis differs after the injection', pl, name=name + ':ts-restored'))
    # twin: second frame really sees shifted times
    if nfr >= 2 and leaves and leaves[0].kind == 'ok' and select is None:
        frames = leaves[0].value[0]
        spec0 = inject.spec_signal(c, inp, list(frames[1].fs), [Sym(lift(t)) for t in leaves[0].value[1][1][0]], frames[1].df, frames[1].dt, frames[1].fmin)
        r, _ = core.check(pre + [lift(frames[1].data[0, 0]) - lift(Ds[1][0, 0]) != spec0[0][0]], timeout_ms=30000)
        recs.append(q(tag + ':twin', r, expect='sat'))
    return recs


def job_overwrite_select(nfr, select):
    """a cadence built with t_overwrite=True: selecting a sub-cadence and injecting into it must neither move the
    frames' start times nor break continuity with respect to them"""
    recs = []
    T, Fc = 1, 3
    c = mk_cfg(T, Fc, True, options('x')[0])
    tag = f"C16:overwrite-select:{(nfr, select)}"
    df, dt, fch1, pre = geom_syms()
    tau0, slew = Sym(z3.Real('tau0')), Sym(z3.Real('t_slew'))
    Ds = [sym_data(T, Fc, f'D{m}_') for m in range(nfr)]
    inp, kw = inject.build_inputs(c)

    def run():
        frames = [make_frame(T, Fc, True, df, dt, fch1, t_start=tau0) for m in range(nfr)]
        for fr, D in zip(frames, Ds):
            fr.data = D.copy()
        cad = CAD.Cadence(frames, t_slew=slew, t_overwrite=True)
        starts = [fr.t_start for fr in frames]
        ts0 = [list(fr.ts) for fr in frames]
        tgt = cad[select[1]:select[2]:select[3]] if select[0] == 'slice' else cad[list(select[1])]
        starts_after_select = [fr.t_start for fr in frames]
        tgt.add_signal(**kw)
        return frames, starts, starts_after_select, ts0, [id(f) for f in tgt.frames], cad.slew_times
    with cad_patches():
        leaf = core.run_single(run, pre)
    frames, starts, starts2, ts0, tgt_ids, slews = leaf.value
    dis = [lift(a) != lift(b) for a, b in zip(starts, starts2)] + [lift(fr.t_start) != lift(a) for fr, a in zip(frames, starts)]
    dis += [lift(sv) != slew.t for sv in slews]
    first = [m for m, fr in enumerate(frames) if id(fr) == tgt_ids[0]][0]
    members = [m for m, fr in enumerate(frames) if id(fr) in tgt_ids]
    for m, fr in enumerate(frames):
        if m in members:
            shifted = [Sym(lift(t) + (lift(starts[m]) - lift(starts[first]))) for t in ts0[m]]
            spec = inject.spec_signal(c, inp, list(fr.fs), shifted, fr.df, fr.dt, fr.fmin)
        else:
            spec = [[RV(0)] * Fc for _ in range(T)]
        for i in range(T):
            for j in range(Fc):
                d = z3.simplify(lift(fr.data[i, j]) - lift(Ds[m][i, j]) - spec[i][j], som=True)
                if not (z3.is_rational_value(d) and d.numerator_as_long() == 0):
                    dis.append(d != 0)
    r, m_ = core.check(pre + leaf.side + [z3.Or(*dis)], timeout_ms=120000)
    recs.append(q(tag, r))
    if r == 'sat':
        recs.append(cex('C16:overwrite-select', 'selecting / injecting into a sub-cadence of a t_overwrite cadence moves start times or breaks continuity', dict(fn='ovsel', nfr=nfr, select=list(select)), name=tag))
    return recs


class Boom(Exception):
    pass


ABORTS = dict(error=None, interrupt=KeyboardInterrupt, exit=SystemExit)


def job_fault(nfr, k, which, abort='error'):
    """callback `which` raises on the k-th frame: afterwards every frame's time axis equals the original.
    abort: an ordinary exception, or one that is not an Exception subclass (Ctrl-C, the sys.exit() some shipped
    profiles call on bad arguments)"""
    recs = []
    T, Fc = 2, 3
    df, dt, fch1, pre = geom_syms()
    taus = [Sym(z3.Real(f'tau{m}')) for m in range(nfr)]
    tag = f"C16:fault:{(nfr, k, which)}" + (f":{abort}" if abort != 'error' else '')
    calls = [0]
    exc_t = ABORTS[abort] or Boom

    def bomb(*a):
        calls[0] += 1
        if calls[0] == k + 1:
            raise exc_t(f"callback failure on frame {k}")
        return (inject.PATH if which == 'path' else (inject.TP if which == 't_profile' else inject.FP))(*a)

    def run():
        calls[0] = 0
        frames = [make_frame(T, Fc, True, df, dt, fch1, t_start=taus[m]) for m in range(nfr)]
        before = [list(fr.ts) for fr in frames]
        cad = CAD.Cadence(frames)
        raised = False
        try:
            cad.add_signal(bomb if which == 'path' else inject.PATH, bomb if which == 't_profile' else inject.TP,
                           bomb if which == 'f_profile' else inject.FP, inject.BP)
        except exc_t:
            raised = True
        return frames, before, raised
    with cad_patches():
        leaf = core.run_single(run, pre)
    frames, before, raised = leaf.value
    dis = []
    for fr, ts0 in zip(frames, before):
        if len(fr.ts) != len(ts0):
            dis.append(z3.BoolVal(True))
        else:
            dis += [lift(a) != lift(b) for a, b in zip(fr.ts, ts0)]
    r, m = core.check(pre + leaf.side + [z3.Or(*dis)], timeout_ms=60000)
    recs.append(q(tag, r, raised=raised))
    if r == 'sat':
        recs.append(cex('C16:fault:ts-shifted', f'after {which} raised on frame {k} a frame time axis stays shifted', dict(fn='cadence', nfr=nfr, T=T, Fc=Fc, asc=True, opts=None, select=None, fault=[k, which, abort]), name=tag))
    r, _ = core.check([RV(int(raised)) != 1])
    recs.append(q(tag + ':exception-propagates', r, trivial=True))
    return recs


def job_exact_restore(nfr):
    """binary64 (delta model): after Cadence.add_signal each frame.ts is bit-for-bit what it was"""
    fp.reset()
    recs = []
    T, Fc = 2, 3
    pre = []
    df, dt, fch1 = FSym.var('df', 1e-3, 1e9, pre), FSym.var('dt', 1e-6, 1e6, pre), FSym.var('fch1', 0, 1e12, pre)
    taus = [FSym.var(f'tau{m}', 0, 2e9, pre) for m in range(nfr)]
    tag = f"C16:exact-restore:{nfr}"

    def run():
        frames = [make_frame(T, Fc, True, df, dt, fch1, t_start=taus[m]) for m in range(nfr)]
        before = [list(fr.ts) for fr in frames]
        CAD.Cadence(frames).add_signal(inject.PATH, inject.TP, inject.FP, inject.BP)
        return frames, before
    with cad_patches():
        leaf = core.run_single(run, pre)
    frames, before = leaf.value
    dis = []
    for fr, ts0 in zip(frames, before):
        dis += [z3.simplify(lift(a) - lift(b), som=True) != 0 for a, b in zip(fr.ts, ts0)]
    r, m = core.check(pre + leaf.side + list(fp.SIDE) + [z3.Or(*dis)], timeout_ms=60000)
    recs.append(q(tag, r))
    if r == 'sat':
        recs.append(cex('C16:exact-restore', 'time axis not restored bit-for-bit in binary64 (candidate)', dict(fn='exact', nfr=nfr), name=tag))
    return recs


def job_times(nfr, T, ordered=False, mixed=False):
    """overwrite_times -> slew_times == t_slew; consolidate = row-wise concatenation with absolute times.
    T: one integration count for all frames, or a tuple with one count per frame (frames of a cadence may differ in length)"""
    recs = []
    Fc = 3
    Ts = tuple(T) if isinstance(T, (tuple, list)) else (T,) * nfr
    df, dt, fch1, pre = geom_syms()
    taus = [Sym(z3.Real(f'tau{m}')) for m in range(nfr)]
    slew = Sym(z3.Real('t_slew'))
    Ds = [sym_data(Ts[m], Fc, f'D{m}_') for m in range(nfr)]
    tag = f"C16:times:{(nfr, T)}" + (':ordered' if ordered else '') + (':mixed-orientation' if mixed else '')
    mk = (lambda *a, **k: CAD.OrderedCadence(*a, order='ABACAD', **k)) if ordered else CAD.Cadence

    def run():
        # mixed: every other frame describes the SAME band with the descending flag (fch1 its top channel); the data of a
        # frame are in increasing frequency whatever the flag, and consolidation stacks them as they are
        frames = [make_frame(Ts[m], Fc, True, df, dt, fch1, t_start=taus[m]) if not (mixed and m % 2)
                  else make_frame(Ts[m], Fc, False, df, dt, fch1 + (Fc - 1) * df, t_start=taus[m]) for m in range(nfr)]
        for fr, D in zip(frames, Ds):
            fr.data = D.copy()
        cad0 = mk(frames)
        natural = cad0.slew_times
        cons = cad0.consolidate()
        # a slew time without the request to overwrite leaves the start times alone
        keep = mk(frames, t_slew=slew)
        untouched = [fr.t_start for fr in frames]
        cad = mk(frames, t_slew=slew, t_overwrite=True)
        return cad.slew_times, [fr.t_start for fr in frames], natural, cons, cad.obs_range, cad.tchans, untouched
    with cad_patches():
        leaves = core.explore(run, pre, cap=16)
    recs_all = []
    for li, leaf in enumerate(leaves):
        recs_all += _times_leaf(leaf, li, len(leaves), nfr, Ts, T, Fc, dt, taus, slew, Ds, pre, tag, ordered, mixed)
    r, _ = core.check(pre + [z3.Not(z3.Or(*[l.cond() for l in leaves]))], timeout_ms=30000)
    recs_all.append(q(tag + ':split-complete', r, leaves=len(leaves)))
    return recs_all


def _times_leaf(leaf, li, nleaves, nfr, Ts, T, Fc, dt, taus, slew, Ds, pre, tag, ordered=False, mixed=False):
    recs = []
    tag = tag if nleaves == 1 else f"{tag}:leaf{li}"
    pre = pre + leaf.pc
    pl = dict(fn='times', nfr=nfr, T=list(Ts), ordered=ordered, mixed=mixed)
    if leaf.kind == 'exc':
        r, m = core.check(pre + leaf.side, timeout_ms=30000)
        recs.append(q(tag + ':noexc', r, detail=repr(leaf.value)))
        if r == 'sat':
            recs.append(cex('C16:times:raise', f'cadence time bookkeeping raised {leaf.value!r}', dict(pl, tau0=core.model_float(m, taus[0])), name=tag + ':noexc'))
        return recs
    sl, starts, natural, cons, obs_range, tch, untouched = leaf.value
    if obs_range is None or tch is None:
        r, m = core.check(pre + leaf.side, timeout_ms=30000)
        recs.append(q(tag + ':aggregates-defined', r, detail=f"obs_range={obs_range!r} tchans={tch!r}"))
        if r == 'sat':
            recs.append(cex('C16:consolidate', f'obs_range / tchans of a non-empty cadence is None (first start time {core.model_float(m, taus[0])!r})', dict(pl, tau0=core.model_float(m, taus[0])), name=tag + ':aggregates-defined'))
        return recs
    dtv = lift(dt)
    off = [sum(Ts[:m]) for m in range(nfr + 1)]
    dis = [lift(s) != slew.t for s in sl]
    if len(sl) != nfr - 1:
        dis.append(z3.BoolVal(True))
    dis.append(lift(starts[0]) != taus[0].t)
    for m in range(1, nfr):
        dis.append(lift(starts[m]) != taus[0].t + off[m] * dtv + m * slew.t)
    dis += [lift(u) != taus[m].t for m, u in enumerate(untouched)]
    r, _ = core.check(pre + leaf.side + [z3.Or(*dis)], timeout_ms=60000)
    recs.append(q(tag + ':overwrite->slew', r))
    if r == 'sat':
        recs.append(cex('C16:overwrite_times', 'overwriting start times does not space frames by exactly t_slew', dict(pl, t_slew=core.model_vals(_, ['t_slew']).get('t_slew')), name=tag + ':overwrite->slew'))
    dis = [lift(natural[m - 1]) != taus[m].t - (taus[m - 1].t + Ts[m - 1] * dtv) for m in range(1, nfr)]
    if cons is not None:
        if cons.data.shape != (off[nfr], Fc) or len(cons.ts) != off[nfr]:
            dis.append(z3.BoolVal(True))
        else:
            for m in range(nfr):
                for i in range(Ts[m]):
                    dis.append(lift(cons.ts[off[m] + i]) != i * dtv + taus[m].t)
                    for j in range(Fc):
                        dis.append(lift(cons.data[off[m] + i, j]) != lift(Ds[m][i, j]))
            dis.append(lift(cons.t_start) != taus[0].t)
    dis.append(lift(obs_range) != lift(starts[-1]) + Ts[-1] * dtv - lift(starts[0]))
    dis.append(lift(tch) != off[nfr])
    r, _ = core.check(pre + leaf.side + [z3.Or(*dis)] if dis else [z3.BoolVal(False)], timeout_ms=60000)
    recs.append(q(tag + ':slew/consolidate/aggregates', r))
    if r == 'sat':
        recs.append(cex('C16:consolidate', 'natural slew times / consolidation / aggregates differ from the member frames', pl, name=tag + ':slew/consolidate/aggregates'))
    return recs


# ------------------------------------------------------------------ concrete oracle
def replay_cadence(p):
    import setigen as stg
    nfr, T, Fc, asc, o, sel, fault = p['nfr'], p['T'], p['Fc'], p['asc'], p['opts'], p['select'], p['fault']
    dt, df = 4.0, 2.0
    starts = [1000.0 + 37.25 * m * (m + 1) for m in range(nfr)]
    mk = lambda m: stg.Frame(fchans=Fc, tchans=T, df=df, dt=dt, fch1=4096.0, ascending=asc, t_start=starts[m], seed=m)
    frames = [mk(m) for m in range(nfr)]
    rng = np.random.default_rng(3)
    Ds = [rng.normal(10, 1, (T, Fc)) for _ in range(nfr)]
    for fr, D in zip(frames, Ds):
        fr.data = D.copy()
    ts0 = [fr.ts.copy() for fr in frames]
    path = lambda t: 4090.0 + 0.013 * t + 1e-6 * t ** 2
    tprof = lambda t: 1.0 + 0.1 * np.sin(t / 50.0)
    fprof = stg.gaussian_f_profile(3.0)
    bp = lambda f: 1.0 + 1e-4 * (f - 4090.0)
    cad = stg.Cadence(frames)
    if fault:
        k, which = fault[0], fault[1]
        exc_t = {'interrupt': KeyboardInterrupt, 'exit': SystemExit}.get(fault[2] if len(fault) > 2 else 'error', RuntimeError)
        n = [0]

        def bomb(*a):
            n[0] += 1
            if n[0] == k + 1:
                raise exc_t('boom')
            return {'path': path, 't_profile': tprof, 'f_profile': fprof}[which](*a)
        try:
            cad.add_signal(bomb if which == 'path' else path, bomb if which == 't_profile' else tprof, bomb if which == 'f_profile' else fprof, bp)
        except exc_t:
            pass
        bad = [m for m, fr in enumerate(frames) if not np.array_equal(fr.ts, ts0[m])]
        return bool(bad), f"after {which} raised on frame {k}: time axes of frames {bad} differ from the originals (max shift {max([float(np.max(np.abs(frames[m].ts - ts0[m]))) for m in bad] or [0])})"
    tgt = cad if not sel else (cad[sel[1]:sel[2]] if sel[0] == 'slice' else cad[list(sel[1])])
    if nfr >= 2:
        _decoys = [stg.Cadence(frames[1:]), stg.Cadence(frames[::-1]), cad[1:], cad[[nfr - 1]]]
    kw = dict(integrate_path=o['ip'], integrate_t_profile=o['it'], integrate_f_profile=o['if_'], doppler_smearing=o['smear'], t_subsamples=2, f_subsamples=2, smearing_subsamples=2)
    pform = o.get('pform', 'fn')
    if pform == 'sc':
        path = 4091.0
    elif pform == 'arr':
        path = np.array([4090.5 + 0.75 * i for i in range(T + (1 if o['smear'] else 0))])       # float64 array, tchans (+1 when smeared) values
    path_keep = path.copy() if pform == 'arr' else None
    shifted_path = (lambda off: (lambda t: path(t + off))) if pform == 'fn' else (lambda off: (path_keep.copy() if pform == 'arr' else path))
    tgt.add_signal(path, tprof, fprof, bp, **kw)
    members = [m for m, fr in enumerate(frames) if any(fr is g for g in tgt.frames)]
    first = [m for m, fr in enumerate(frames) if fr is tgt.frames[0]][0]
    msgs = []
    for m, fr in enumerate(frames):
        if not np.array_equal(fr.ts, ts0[m]):
            msgs.append(f"frame {m}: ts changed by up to {np.max(np.abs(fr.ts - ts0[m]))}")
        if len(fr.ts_ext) != len(ts0[m]) + 1 or not np.allclose(fr.ts_ext, np.append(ts0[m], ts0[m][-1] + fr.dt), rtol=0, atol=1e-9):
            msgs.append(f"frame {m}: the extended time axis read after the injection starts at {fr.ts_ext[0]!r}, the frame's time axis at {ts0[m][0]!r}")
        ref = mk(m)
        ref.data = Ds[m].copy()
        if m in members:
            off = starts[m] - starts[first]
            ref.add_signal(shifted_path(off), lambda t: tprof(t + off), fprof, bp, **kw)
        if not np.allclose(fr.data, ref.data, rtol=1e-9, atol=1e-9):
            msgs.append(f"frame {m}: injected data differs from single-frame injection at times shifted by {starts[m] - starts[first] if m in members else None}")
    return bool(msgs), '; '.join(msgs[:3]) or 'cadence injection is continuous and restores the axes'


def replay_exact(p):
    import setigen as stg
    rng = np.random.default_rng(1)
    for trial in range(200):
        dt = float(rng.choice([18.253611008, 1.4316557653333333, 0.1, 4.0, 0.3]))
        frames = [stg.Frame(fchans=4, tchans=3, dt=dt, t_start=float(rng.uniform(0, 2e9)), seed=0) for _ in range(p['nfr'])]
        ts0 = [fr.ts.copy() for fr in frames]
        stg.Cadence(frames).add_signal(stg.constant_path(frames[0].get_frequency(2), 0.0), stg.constant_t_profile(1), stg.box_f_profile(3.0))
        for m, fr in enumerate(frames):
            if not np.array_equal(fr.ts, ts0[m]):
                return True, f"frame {m} ts drifted by {np.max(np.abs(fr.ts - ts0[m]))} after one cadence injection (dt={dt})"
    return False, 'time axes restored bit-for-bit on all candidates'


def replay_times(p):
    # on the first start time the solver used and on a non-zero one (at 0 relative and absolute times coincide)
    bad, msg = _replay_times(p, p.get('tau0', 0.0))
    if not bad:
        bad, msg = _replay_times(p, 1234.5)
    # slew times: an ordinary one, the one the solver used, and the boundary value 0 (frames back to back)
    for sl in (p.get('t_slew'), 0.0):
        if not bad and sl is not None and abs(sl) < 1e6:
            bad, msg = _replay_times(p, 1234.5, slew=float(sl))
            msg = f"t_slew={sl!r}: {msg}"
    return bad, msg


def _replay_times(p, tau0, slew=7.5):
    import setigen as stg
    nfr = p['nfr']
    Ts = list(p['T']) if isinstance(p['T'], (list, tuple)) else [p['T']] * nfr
    off = [sum(Ts[:m]) for m in range(nfr + 1)]
    t0s = [tau0 + 100.0 * m * m for m in range(nfr)]
    frames = [stg.Frame(fchans=3, tchans=Ts[m], df=2.0, dt=4.0, fch1=4096.0, t_start=t0s[m], seed=m) if not (p.get('mixed') and m % 2)
              else stg.Frame(fchans=3, tchans=Ts[m], df=2.0, dt=4.0, fch1=4092.0, ascending=True, t_start=t0s[m], seed=m) for m in range(nfr)]
    for m, fr in enumerate(frames):
        fr.data = np.full((Ts[m], 3), float(m)) + 0.125 * np.arange(3)[None, :]        # columns distinguishable
    mk = (lambda *a, **k: stg.OrderedCadence(*a, order='ABACAD', **k)) if p.get('ordered') else stg.Cadence
    cad0 = mk(frames)
    nat = cad0.slew_times
    cons = cad0.consolidate()
    msgs = []
    if not np.allclose(nat, [t0s[m] - (t0s[m - 1] + 4.0 * Ts[m - 1]) for m in range(1, nfr)]):
        msgs.append('natural slew times')
    if cons.data.shape != (off[nfr], 3) or not np.array_equal(cons.data, np.concatenate([fr.data for fr in frames], axis=0)):
        msgs.append('consolidated data')
    want_ts = np.concatenate([np.arange(Ts[m]) * 4.0 + t0s[m] for m in range(nfr)])
    if len(cons.ts) != len(want_ts) or not np.allclose(cons.ts, want_ts):
        msgs.append('consolidated ts')
    if cad0.obs_range is None or not np.isclose(cad0.obs_range, frames[-1].t_start + 4.0 * Ts[-1] - frames[0].t_start) or cad0.tchans != off[nfr]:
        msgs.append(f'obs_range {cad0.obs_range} / tchans {cad0.tchans}')
    # frames whose start time is assigned after construction (as overwrite_times itself does)
    late = [stg.Frame(fchans=3, tchans=Ts[m], df=2.0, dt=4.0, fch1=4096.0, t_start=5.0, seed=m) for m in range(nfr)]
    for m, fr in enumerate(late):
        fr.t_start = t0s[m]
    if not np.allclose(stg.Cadence(late).slew_times, [t0s[m] - (t0s[m - 1] + 4.0 * Ts[m - 1]) for m in range(1, nfr)]):
        msgs.append(f'natural slew times of frames whose start time was reassigned: {stg.Cadence(late).slew_times}')
    keep = mk(frames, t_slew=slew)
    if [fr.t_start for fr in frames] != t0s:
        msgs.append(f'a cadence built with a slew time but without t_overwrite moved the start times to {[fr.t_start for fr in frames]}')
    cad = mk(frames, t_slew=slew, t_overwrite=True)
    if not np.allclose(cad.slew_times, slew, rtol=0, atol=1e-9):
        msgs.append(f'slew times after overwrite {cad.slew_times}')
    want = [frames[0].t_start + 4.0 * off[m] + slew * m for m in range(nfr)]
    if not np.allclose([fr.t_start for fr in frames], want, rtol=1e-12):
        msgs.append(f'start times after overwrite {[fr.t_start for fr in frames]}, expected {want} (frame lengths {Ts})')
    if cad.obs_range is None or not np.isclose(cad.obs_range, want[-1] + 4.0 * Ts[-1] - want[0]):
        msgs.append(f'obs_range after overwrite {cad.obs_range}, expected {want[-1] + 4.0 * Ts[-1] - want[0]}')
    return bool(msgs), '; '.join(msgs) or 'ok'


def replay_ovsel(p):
    import setigen as stg
    nfr, sel = p['nfr'], p['select']
    frames = [stg.Frame(fchans=8, tchans=2, df=2.0, dt=4.0, fch1=4096.0, t_start=1000.0, seed=m) for m in range(nfr)]
    cad = stg.Cadence(frames, t_slew=30.0, t_overwrite=True)
    starts = [fr.t_start for fr in frames]
    sub = cad[sel[1]:sel[2]:sel[3]] if sel[0] == 'slice' else cad[list(sel[1])]
    sub.add_signal(stg.constant_path(4090.0, 0.01), stg.constant_t_profile(1.0), stg.box_f_profile(3.0))
    after = [fr.t_start for fr in frames]
    bad = starts != after or not np.allclose(cad.slew_times, 30.0)
    return bad, f"start times before {starts} after selecting/injecting {after}; slew times {cad.slew_times}"


REPLAYS = {'cadence': replay_cadence, 'exact': replay_exact, 'times': replay_times, 'ovsel': replay_ovsel}


def main():
    ck = Check('C16', 'Cadence injection is time-continuous and leaves frame time axes intact')
    ck.functions = ['Cadence.__init__', 'Cadence.add_signal', 'Cadence.t_start', 'Cadence.__getitem__', 'Cadence.overwrite_times', 'Cadence.slew_times', 'Cadence.consolidate',
                    'Cadence.obs_range', 'Cadence.tchans', 'Cadence._check', 'Frame.add_signal', 'Frame.__init__']
    ck.files = ['setigen/cadence.py', 'setigen/frame.py']
    ck.stubs = ['signal components -> uninterpreted functions', 'sigma_clip -> identity']
    ck.assumptions = ['exact reals for signal continuity; delta model for the bit-for-bit restoration of ts', 'frames <= 3 (thorough 4), tchans <= 2, fchans 3']
    nmax = 3 if not ck.thorough else 4
    ck.bounds = dict(frames=f'1..{nmax}', tchans='1..2', options=options('x'), faults='callback in {path,t_profile,f_profile} raising on frame k for every k', selections='whole, slices, index lists')
    jobs = []
    for nfr in range(1, nmax + 1):
        for oi in range(len(options('x'))):
            for asc in ((True, False) if oi == 0 else (True,)):
                jobs.append(('job_continuity', (nfr, 2 if nfr < 3 else 1, 3, asc, oi, None)))
        for k in range(nfr):
            for which in ('path', 't_profile', 'f_profile'):
                jobs.append(('job_fault', (nfr, k, which)))
                if which == 't_profile' and k >= 1:
                    for abort_ in ('interrupt', 'exit'):
                        jobs.append(('job_fault', (nfr, k, which, abort_)))
        jobs.append(('job_exact_restore', (nfr,)))
        jobs.append(('job_times', (nfr, 2)))
        if nfr >= 2:
            jobs.append(('job_times', (nfr, (2, 1, 3, 2)[:nfr])))
            jobs.append(('job_times', (nfr, 2, True)))
            jobs.append(('job_times', (nfr, 2, False, True)))
    for sel in (('slice', 0, None, 2), ('slice', 1, None, 2), ('index', (0, 2)), ('index', (2, 0)), ('slice', 1, 3, None)):
        jobs.append(('job_overwrite_select', (3 if not ck.thorough else 4, sel)))
    for sel in (('slice', 1, 3), ('slice', 0, 2), ('index', (0, 2)), ('index', (2, 1))):
        for oi in (0, 1):
            jobs.append(('job_continuity', (3, 1, 3, True, oi, sel)))
    ck.run_jobs('props.C16', jobs, timeout_s=900)
    ck.finish()


if __name__ == '__main__':
    main()
