"""C06 -- injection is additive, confined to its bounding range, preserves frame state.

Same harness as C01 (real Frame.add_signal on z3 terms).  Obligations per
configuration and path:
  add     : data_after == data_before + returned            (every pixel)
  confine : outside the requested index range returned == 0 and data_after == data_before
  restrict: bounded result == unbounded result on the range (two executions)
  state   : fs, ts, shape, noise estimates, metadata, generator state unchanged
  superpose: two injections in either order give D + s1 + s2
"""
import copy
import itertools
import time

import numpy as np
import z3

from symx import core, npx
from symx.core import Sym, lift, UF, RV
from symx.report import Check, q, cex, note
from props import inject
from props.inject import Cfg
from props.frame_common import F, frame_patches, geom_syms, make_frame, sym_data, uf1, uf2

def replay_superpose(p):
    """two different signals injected in both orders on the same prior content (real code, real NumPy)"""
    import setigen as stg
    rng = np.random.default_rng(4)
    msgs = []
    for asc in (False, True):
        for smear in (False, True):
            for bound in (False, True):
                D = rng.normal(10, 1, (3, 16))
                mk = lambda: stg.Frame(fchans=16, tchans=3, df=2.0, dt=4.0, fch1=4096.0, ascending=asc, seed=1)
                fa, fb, f1, f2 = mk(), mk(), mk(), mk()
                for f in (fa, fb):
                    f.data = D.copy()
                fmin = fa.fmin
                kw1 = dict(path=stg.constant_path(fmin + 9.0, 0.3), t_profile=stg.sine_t_profile(20.0, amplitude=0.2), f_profile=stg.gaussian_f_profile(5.0),
                           bp_profile=lambda f: 1.0 + 1e-3 * (f - fmin), doppler_smearing=smear, smearing_subsamples=2)
                kw2 = dict(path=stg.squared_path(fmin + 20.0, -0.05), t_profile=stg.constant_t_profile(2.0), f_profile=stg.box_f_profile(4.0), bp_profile=0.5,
                           integrate_f_profile=True, f_subsamples=2)
                if bound:
                    kw1['bounding_f_range'] = (fmin + 3.0, fmin + 17.0)
                    kw2['bounding_f_range'] = (fmin + 11.0, fmin + 40.0)
                a1 = fa.add_signal(**kw1)
                a2 = fa.add_signal(**kw2)
                b2 = fb.add_signal(**kw2)
                b1 = fb.add_signal(**kw1)
                s1, s2 = f1.add_signal(**kw1), f2.add_signal(**kw2)
                tol = dict(rtol=1e-9, atol=1e-9)
                if not (np.allclose(fa.data, fb.data, **tol) and np.allclose(fa.data, D + s1 + s2, **tol) and np.allclose(a1, s1, **tol) and np.allclose(a2, s2, **tol)
                        and np.allclose(b1, s1, **tol) and np.allclose(b2, s2, **tol)):
                    msgs.append(f"asc={asc} smearing={smear} bounded={bound}: successive injections do not superpose (order / prior content dependence)")
    return bool(msgs), '; '.join(msgs[:3]) or 'injections superpose in either order'




def replay_int_data(p):
    """frames whose data have an integer element type: the injection is either refused (data untouched) or adds exactly
    the returned array"""
    import setigen as stg
    c = p['cfg']
    msgs = []
    for dtype in (np.int64, np.int32):
        D = np.rint(np.array(p['D'], dtype=float)).astype(dtype)
        fr = stg.Frame.from_data(p['df'], p['dt'], p['fch1'], c['asc'], D.copy())
        if fr.data.dtype != dtype:
            return False, f"frame does not keep the integer element type ({fr.data.dtype}); nothing to check"
        kw = inject.real_callables(c, p)
        try:
            sig = fr.add_signal(**kw)
        except TypeError as e:
            if not np.array_equal(fr.data, D):
                msgs.append(f"{dtype.__name__}: injection refused ({type(e).__name__}) but the data changed")
            continue
        if not np.allclose(fr.data - D, sig, rtol=1e-9, atol=1e-9 * max(1.0, float(np.max(np.abs(sig))))):
            ij = np.unravel_index(np.argmax(np.abs(fr.data - D - sig)), sig.shape)
            msgs.append(f"{dtype.__name__} data: pixel {ij} changed by {(fr.data - D)[ij]!r} but the returned signal is {sig[ij]!r}")
    return bool(msgs), '; '.join(msgs) or 'integer-typed frames: injection refused or exactly additive'


def job_int_data(T, Fc, asc, bound, smear):
    recs = []
    c = Cfg(T=T, Fc=Fc, asc=asc, pform='fn', tform='fn', bform=None, ip=False, it=False, if_=False, smear=smear, bound=bound, nt=2, nf=2, ns=2, geom='g1' if bound else None)
    ex = inject.execute(c, int_data=True)
    pre, D = ex['pre'], ex['D']
    conds = []
    for li, leaf in enumerate(ex['leaves']):
        name = f"C06:int-data:{c!r}:leaf{li}"
        conds.append(leaf.cond())
        if leaf.kind == 'exc':
            recs.append(q(name + ':noexc', 'sat', detail=repr(leaf.value)))
            m = inject.nice_model(pre + leaf.pc, ex)
            if m is not None:
                recs.append(cex(f"C06:int-data:raise:{type(leaf.value).__name__}", f"add_signal on integer-typed data raises {leaf.value!r}", {**inject.model_payload(c, ex, m), 'fn': 'int_data'}, name=name + ':noexc'))
            continue
        fr, sig = leaf.value['fr'], leaf.value['sig']
        base = pre + leaf.pc + leaf.side
        if sig is None:
            dis = [lift(fr.data[idx]) != lift(D[idx]) for idx in np.ndindex(D.shape)]
            what = 'injection into integer-typed data was refused but the data changed'
        else:
            dis = [z3.simplify(lift(fr.data[idx]) - lift(D[idx]) - lift(sig[idx]), som=True) != 0 for idx in np.ndindex(D.shape)]
            what = 'integer-typed data do not change by exactly the returned signal'
        r, m = core.check(base + [z3.Or(*dis)], timeout_ms=60000)
        recs.append(q(name, r, refused=sig is None))
        if li == 0:
            recs.append(q(name + ':reachable', core.check(base, timeout_ms=30000)[0], expect='sat'))
        if r == 'sat':
            m2 = inject.nice_model(base + [z3.Or(*dis)], ex) or m
            pl = inject.model_payload(c, ex, m2)
            pl['fn'] = 'int_data'
            pl['D'] = [[float(str(m2.eval(z3.Int(f'Dint_{i}_{j}'), model_completion=True))) for j in range(Fc)] for i in range(T)]
            recs.append(cex(f"C06:int-data:{'refused' if sig is None else 'additive'}", what, pl, name=name))
    r, _ = core.check(pre + [z3.Not(z3.Or(*conds))] if conds else pre, timeout_ms=30000)
    recs.append(q(f"C06:int-data:{c!r}:split-complete", r))
    return recs




def configs(T, Fc, asc, smear, tier, geom):
    out = []
    flags = list(itertools.product((False, True), repeat=3))
    forms = [('fn', 'fn', 'fn'), ('arr', 'arr', None), ('sc', 'sc', 'sc'), ('fn', 'sc', None), ('sc', 'fn', 'fn')]
    for (pform, tform, bform) in forms:
        for ip, it, if_ in flags:
            if ip and pform != 'fn':
                continue
            if it and tform != 'fn':
                continue
            out.append(Cfg(T=T, Fc=Fc, asc=asc, pform=pform, tform=tform, bform=bform, ip=ip, it=it, if_=if_, smear=smear,
                           bound=True, nt=2, nf=3, ns=2, geom=geom))
    return out


def state_equal(before, fr, c):
    """-> (list of z3 disequalities, list of python-level mismatches)"""
    dis, bad = [], []
    if len(fr.fs) != len(before['fs']) or len(fr.ts) != len(before['ts']):
        bad.append('axis length changed')
    else:
        dis += [lift(a) != lift(b) for a, b in zip(fr.fs, before['fs'])]
        dis += [lift(a) != lift(b) for a, b in zip(fr.ts, before['ts'])]
    if tuple(fr.shape) != tuple(before['shape']) or fr.data.shape != tuple(before['shape']):
        bad.append(f'shape changed to {fr.shape}/{fr.data.shape}')
    dis += [lift(fr.noise_mean) != lift(before['noise'][0]), lift(fr.noise_std) != lift(before['noise'][1])]
    for k in ('fmin', 'fmax', 'df', 'dt'):
        dis.append(lift(getattr(fr, k)) != lift(before[k]))
    if set(fr.metadata) != set(before['meta']):
        bad.append('metadata keys changed')
    else:
        for k, v in before['meta'].items():
            w = fr.metadata[k]
            if isinstance(v, (Sym,)) or isinstance(w, Sym):
                dis.append(lift(v) != lift(w))
            elif v != w:
                bad.append(f'metadata[{k}] changed')
    if fr.rng is not before['rng'] or str(fr.rng.bit_generator.state) != before['rng_state']:
        bad.append('random generator state changed')
    return dis, bad


def check_cfg(c):
    recs = []
    ex = inject.execute(c)
    pre = ex['pre']
    D = ex['D']
    # reference: the same signal without a bounding range (same symbols)
    cu = Cfg(**{**c.as_dict(), 'bound': False})
    exu = inject.execute(cu)
    ul = exu['leaves']
    unb = ul[0].value['sig'] if len(ul) == 1 and ul[0].kind == 'ok' else None
    fmin_t = None
    conds = []
    for li, leaf in enumerate(ex['leaves']):
        name = f"C06:{c!r}:leaf{li}"
        conds.append(leaf.cond())
        if leaf.kind == 'exc':
            m = inject.nice_model(pre + leaf.pc, ex)
            what = f"add_signal raises {type(leaf.value).__name__}: {leaf.value}"
            recs.append(q(name + ':noexc', 'sat', detail=what))
            if m is not None:
                recs.append(cex(f"C06:raise:{type(leaf.value).__name__}", what, inject.model_payload(c, ex, m), name=name + ':noexc'))
            continue
        fr, sig, before = leaf.value['fr'], leaf.value['sig'], leaf.value['before']
        base = pre + leaf.pc + leaf.side
        bmin = core.smax(inject.nearest_index_term(ex['inp']['b0'], before['fmin'], before['df']), 0)
        bmax = core.smin(inject.nearest_index_term(ex['inp']['b1'], before['fmin'], before['df']), c.Fc)
        dis_add, dis_conf, dis_res = [], [], []
        if sig.shape != (c.T, c.Fc) or fr.data.shape != (c.T, c.Fc):
            recs.append(q(name + ':shape', 'sat', detail=f"{sig.shape} {fr.data.shape}"))
            continue
        for i in range(c.T):
            for j in range(c.Fc):
                after, d0, s = lift(fr.data[i, j]), lift(D[i, j]), lift(sig[i, j])
                dis_add.append(z3.simplify(after - (d0 + s), som=True) != 0)
                inside = z3.And(lift(bmin) <= j, j < lift(bmax))
                dis_conf.append(z3.And(z3.Not(inside), z3.Or(s != 0, after != d0)))
                if unb is not None:
                    dis_res.append(z3.And(inside, z3.simplify(s - lift(unb[i, j]), som=True) != 0))
        sdis, sbad = state_equal(before, fr, c)
        for tag, dis in (('add', dis_add), ('confine', dis_conf), ('restrict', dis_res), ('state', sdis)):
            if not dis:
                continue
            asser = base + [z3.Or(*dis)]
            t0 = time.time()
            r, m = core.check(asser, timeout_ms=60000)
            recs.append(q(f"{name}:{tag}", r, ms=(time.time() - t0) * 1000))
            if r == 'sat':
                m2 = inject.nice_model(asser, ex) or m
                recs.append(cex(f"C06:{tag}:{'smear' if c.smear else 'plain'}:if{int(c.if_)}",
                                f"{tag} obligation fails at {c!r}", inject.model_payload(c, ex, m2), name=f"{name}:{tag}"))
        if sbad:
            m = inject.nice_model(base, ex)
            recs.append(q(f"{name}:state-py", 'sat', detail='; '.join(sbad)))
            if m is not None:
                recs.append(cex("C06:state", '; '.join(sbad), inject.model_payload(c, ex, m), name=f"{name}:state-py"))
    r, _ = core.check(pre + [z3.Not(z3.Or(*conds))] if conds else pre, timeout_ms=30000)
    recs.append(q(f"C06:{c!r}:split-complete", r))
    return recs


def job_confine(T, Fc, asc, smear, tier, geom):
    recs = []
    cfgs = configs(T, Fc, asc, smear, tier, geom)
    for c in cfgs:
        recs += check_cfg(c)
    # vacuity twin: "the whole frame is untouched" must be refutable on some path
    c = cfgs[0]
    ex = inject.execute(c)
    tw = 'unsat'
    for leaf in ex['leaves']:
        if leaf.kind == 'ok':
            r, _ = core.check(ex['pre'] + leaf.pc + [lift(leaf.value['fr'].data[0, 0]) != lift(ex['D'][0, 0])], timeout_ms=30000)
            if r == 'sat':
                tw = 'sat'
                break
    recs.append(q(f"C06:twin:{c!r}", tw, expect='sat'))
    return recs


# ---------------------------------------------------------------- noise estimates: twin frames
def job_noise_estimates_twin(T, Fc, asc):
    """two identical frames built from the same data (their noise estimates are measured from it): one receives an
    injection before its estimates are looked at for the first time, the other none -- the estimates agree"""
    recs = []
    tag = f"C06:noise-estimates-twin:{(T, Fc, asc)}"
    df, dt, fch1, pre = geom_syms()
    D = sym_data(T, Fc)

    def run():
        a = F.Frame(data=D.copy(), df=df, dt=dt, fch1=fch1, ascending=asc, seed=1)
        b = F.Frame(data=D.copy(), df=df, dt=dt, fch1=fch1, ascending=asc, seed=1)
        a.add_signal(uf1('PATH'), uf1('TP'), uf2('FP'), uf1('BP'))
        return (a.noise_mean, a.noise_std), (b.noise_mean, b.noise_std), a.get_noise_stats() if hasattr(a, 'get_noise_stats') else None
    with frame_patches():
        leaves = core.explore(run, pre, cap=20)
    for li, leaf in enumerate(leaves):
        name = f"{tag}:leaf{li}"
        base = pre + leaf.pc + leaf.side
        if leaf.kind == 'exc':
            r, m = core.check(base, timeout_ms=30000)
            recs.append(q(name + ':noexc', r, detail=repr(leaf.value)))
            if r == 'sat':
                recs.append(cex('C06:noise-twin:raise', f'frame from data / injection raised {leaf.value!r}', dict(fn='noise_twin', asc=asc), name=name + ':noexc'))
            continue
        (ma, sa), (mb, sb), _ = leaf.value
        r, m = core.check(base + [z3.Or(lift(ma) != lift(mb), lift(sa) * lift(sa) != lift(sb) * lift(sb))], timeout_ms=60000)
        recs.append(q(name, r))
        if r == 'sat':
            recs.append(cex('C06:noise-twin', "a frame's noise estimates differ from those of an identical frame that received no injection", dict(fn='noise_twin', asc=asc), name=name))
        if li == 0:
            recs.append(q(name + ':twin', core.check(base + [lift(mb) != 0], timeout_ms=30000)[0], expect='sat'))
    return recs


def replay_noise_twin(p):
    import setigen as stg
    rng = np.random.default_rng(4)
    D = rng.normal(10, 2, (16, 32))
    msgs = []
    for route in ('data', 'from_data', 'second_noise'):
        def mk():
            if route == 'data':
                return stg.Frame(data=D.copy(), df=2.0, dt=4.0, fch1=4096.0, ascending=p['asc'], seed=3)
            if route == 'from_data':
                return stg.Frame.from_data(2.0, 4.0, 4096.0, p['asc'], D.astype(np.float32), seed=3)
            f_ = stg.Frame(fchans=32, tchans=16, df=2.0, dt=4.0, fch1=4096.0, ascending=p['asc'], seed=3)
            f_.add_noise(5.0)
            f_.add_noise(2.0)
            return f_
        a, b = mk(), mk()
        a.add_signal(stg.constant_path(a.fs[10], 0.0), stg.constant_t_profile(500.0), stg.box_f_profile(6.0), stg.constant_bp_profile(1.0))
        if not (np.isclose(a.noise_mean, b.noise_mean, rtol=1e-12) and np.isclose(a.noise_std, b.noise_std, rtol=1e-12)):
            msgs.append(f"{route}: estimates after an injection ({a.noise_mean!r}, {a.noise_std!r}) differ from the un-injected twin's ({b.noise_mean!r}, {b.noise_std!r})")
    return bool(msgs), '; '.join(msgs[:2]) or 'noise estimates are not touched by injections'


# ---------------------------------------------------------------- unit-carrying bounding range
def job_units_bounding(T, Fc, asc, smear):
    """a bounding range given as quantities (MHz, kHz) confines exactly like the same frequencies given in Hz"""
    from props.frame_common import SQ
    recs = []
    tag = f"C06:units-bounding:{(T, Fc, asc, smear)}"
    g = inject.GEOMS['g1']
    df, dt, fch1 = Sym(RV(g['df'])), Sym(RV(g['dt'])), Sym(RV(g['fch1']))
    b0M, b1k = Sym(z3.Real('b0_MHz')), Sym(z3.Real('b1_kHz'))
    D = sym_data(T, Fc)
    P1, T1, F1 = uf1('PATH'), uf1('TP'), uf2('FP')

    def run():
        out = []
        for rng_ in ((SQ(b0M, 'MHz'), SQ(b1k, 'kHz')), (b0M * 1000000, b1k * 1000)):
            fr = make_frame(T, Fc, asc, df, dt, fch1)
            fr.data = D.copy()
            sig = fr.add_signal(P1, T1, F1, None, bounding_f_range=rng_, doppler_smearing=smear, smearing_subsamples=2)
            out.append((fr.data, sig))
        return out
    with frame_patches(units=True):
        leaves = core.explore(run, [], cap=400)
    conds = []
    for li, leaf in enumerate(leaves):
        conds.append(leaf.cond())
        base = leaf.pc + leaf.side
        name = f"{tag}:leaf{li}"
        if leaf.kind == 'exc':
            r, m = core.check(base, timeout_ms=30000)
            recs.append(q(name + ':noexc', r, detail=repr(leaf.value)))
            if r == 'sat':
                recs.append(cex('C06:units-bounding:raise', f'add_signal with a unit-carrying bounding range raises {leaf.value!r}', dict(fn='units_bounding', asc=asc, smear=smear), name=name + ':noexc'))
            continue
        (da, sa), (db, sb) = leaf.value
        dis = [z3.simplify(lift(x) - lift(y), som=True) != 0 for x, y in zip(list(sa.flat) + list(da.flat), list(sb.flat) + list(db.flat))]
        r, m = core.check(base + [z3.Or(*dis)], timeout_ms=60000)
        recs.append(q(name, r))
        if r == 'sat':
            recs.append(cex('C06:units-bounding', 'a bounding range given in MHz / kHz gives another injection than the same range in Hz', dict(fn='units_bounding', asc=asc, smear=smear), name=name))
        if li == 0:
            recs.append(q(name + ':twin', core.check(base + [lift(sa[0, 0]) != lift(sb[0, 0]) + 1], timeout_ms=30000)[0], expect='sat'))
    r, _ = core.check([z3.Not(z3.Or(*conds))], timeout_ms=30000)
    recs.append(q(f"{tag}:split-complete", r, leaves=len(leaves)))
    return recs


def replay_units_bounding(p):
    import astropy.units as u
    import setigen as stg
    msgs = []
    for (lo, hi) in ((4100.0, 4110.0), (4090.0, 4200.0), (4097.0, 4099.0)):
        outs = []
        for rng_ in ((lo * 1e-6 * u.MHz, hi * 1e-3 * u.kHz), (lo, hi), (lo * u.Hz, hi * 1e-9 * u.GHz)):
            fr = stg.Frame(fchans=16, tchans=3, df=2.0, dt=4.0, fch1=4096.0, ascending=p['asc'], seed=1)
            fr.add_noise(3.0)
            sig = fr.add_signal(stg.constant_path(4104.0, 0.3), stg.constant_t_profile(2.0), stg.gaussian_f_profile(6.0), stg.constant_bp_profile(1.0),
                                bounding_f_range=rng_, doppler_smearing=p['smear'], smearing_subsamples=2)
            outs.append((sig, fr.data))
        for k in (0, 2):
            if not np.allclose(outs[k][0], outs[1][0], rtol=1e-9, atol=1e-12) or not np.allclose(outs[k][1], outs[1][1], rtol=1e-9, atol=1e-12):
                msgs.append(f"bounding range ({lo}, {hi}) Hz given as quantities injects {float(np.sum(outs[k][0]))!r} in total, as plain Hz {float(np.sum(outs[1][0]))!r}")
    return bool(msgs), '; '.join(msgs[:2]) or 'unit-carrying bounding ranges agree with plain Hz'


def job_index_bounds(T, Fc, asc, a, b):
    """the bounding range given through the frame's own index->frequency conversion, (get_frequency(a), get_frequency(b)),
    also with b at or past the upper band edge: channels [a, min(b, Fc)) receive exactly the unbounded signal, the rest nothing"""
    recs = []
    tag = f"C06:index-bounds:{(T, Fc, asc, a, b)}"
    df, dt, fch1, pre = geom_syms()
    D = sym_data(T, Fc)
    P1, T1, F1 = uf1('PATH'), uf1('TP'), uf2('FP')
    pl = dict(fn='index_bounds', T=T, Fc=Fc, asc=asc, a=a, b=b)

    def run():
        fr = make_frame(T, Fc, asc, df, dt, fch1)
        fr.data = D.copy()
        rng_ = (fr.get_frequency(a), fr.get_frequency(b))
        sig = fr.add_signal(P1, T1, F1, None, bounding_f_range=rng_)
        fu = make_frame(T, Fc, asc, df, dt, fch1)
        fu.data = D.copy()
        full = fu.add_signal(P1, T1, F1, None)
        return fr.data, sig, full
    with frame_patches():
        leaves = core.explore(run, pre, cap=40)
    conds = []
    for li, leaf in enumerate(leaves):
        conds.append(leaf.cond())
        base = pre + leaf.pc + leaf.side
        name = f"{tag}:leaf{li}"
        if leaf.kind == 'exc':
            r, m = core.check(base, timeout_ms=30000)
            recs.append(q(name + ':noexc', r, detail=repr(leaf.value)))
            if r == 'sat':
                recs.append(cex('C06:index-bounds:raise', f'injection bounded by (get_frequency({a}), get_frequency({b})) raises {leaf.value!r}', pl, name=name + ':noexc'))
            continue
        data, sig, full = leaf.value
        dis = []
        for i in range(T):
            for j in range(Fc):
                want = lift(full[i, j]) if a <= j < min(b, Fc) else RV(0)
                dis += [z3.simplify(lift(sig[i, j]) - want, som=True) != 0, z3.simplify(lift(data[i, j]) - lift(D[i, j]) - want, som=True) != 0]
        dis = [c for c in dis if not z3.is_false(z3.simplify(c))]
        r, m = core.check(base + ([z3.Or(*dis)] if dis else [z3.BoolVal(False)]), timeout_ms=60000)
        recs.append(q(name, r, by_solver=len(dis)))
        if r == 'sat':
            recs.append(cex('C06:index-bounds', f'bounded by (get_frequency({a}), get_frequency({b})): channels [{a}, {min(b, Fc)}) do not get exactly the unbounded signal / others are touched', pl, name=name))
    r, _ = core.check(pre + [z3.Not(z3.Or(*conds))], timeout_ms=30000)
    recs.append(q(f"{tag}:split-complete", r, leaves=len(leaves)))
    return recs


def job_source_array(T, Fc, asc, route):
    """a frame built FROM an existing array (constructor data=, from_data, a slice of a parent): injecting into it changes
    that frame only -- the array it was built from, and the parent of a slice, stay exactly as they were"""
    recs = []
    tag = f"C06:source-array:{(T, Fc, asc, route)}"
    df, dt, fch1, pre = geom_syms()
    D = sym_data(T, Fc)
    before = [[lift(D[i, j]) for j in range(Fc)] for i in range(T)]
    P1, T1, F1 = uf1('PATH'), uf1('TP'), uf2('FP')
    pl = dict(fn='source_array', T=T, Fc=Fc, asc=asc, route=route)

    def run():
        src = D
        if route == 'ctor':
            fr = F.Frame(data=src, df=df, dt=dt, fch1=fch1, ascending=asc)
        elif route == 'from_data':
            fr = F.Frame.from_data(df, dt, fch1, asc, src)
        else:
            parent = F.Frame(data=src.copy(), df=df, dt=dt, fch1=fch1, ascending=asc)
            src = parent.data
            fr = parent.get_slice(0, Fc - 1)
        sig = fr.add_signal(P1, T1, F1, None)
        return src, fr.data, sig
    with frame_patches():
        leaf = core.run_single(run, pre)
    if leaf.kind == 'exc' or isinstance(leaf.value, BaseException):
        r, _ = core.check(pre + leaf.pc + leaf.side, timeout_ms=30000)
        recs.append(q(tag + ':noexc', r, detail=repr(leaf.value)))
        if r == 'sat':
            recs.append(cex('C06:source-array:raise', f'building a frame from an array ({route}) and injecting raised {leaf.value!r}', pl, name=tag + ':noexc'))
        return recs
    src, data, sig = leaf.value
    dis = [z3.simplify(lift(src[i, j]) - before[i][j], som=True) != 0 for i in range(T) for j in range(Fc)]
    dis = [c for c in dis if not z3.is_false(z3.simplify(c))]
    r, _ = core.check(pre + leaf.side + ([z3.Or(*dis)] if dis else [z3.BoolVal(False)]), timeout_ms=60000)
    recs.append(q(tag, r, by_solver=len(dis)))
    if r == 'sat':
        recs.append(cex('C06:source-array', f'injecting into a frame built from an array ({route}) changed the array it was built from', pl, name=tag))
    # twin: the frame itself did change
    r, _ = core.check(pre + leaf.side + [lift(data[0, 0]) != before[0][0]], timeout_ms=30000)
    recs.append(q(tag + ':twin', r, expect='sat'))
    return recs


def replay_source_array(p):
    import setigen as stg
    rng = np.random.default_rng(2)
    src = rng.normal(10, 1, (4, 16)).astype(np.float32 if p['route'] == 'from_data' else float)
    keep = src.copy()
    kw = dict(df=2.0, dt=4.0, fch1=4096.0, ascending=p['asc'])
    if p['route'] == 'ctor':
        fr = stg.Frame(data=src, **kw)
    elif p['route'] == 'from_data':
        fr = stg.Frame.from_data(2.0, 4.0, 4096.0, p['asc'], src)
    else:
        parent = stg.Frame(data=src.copy(), **kw)
        src, keep = parent.data, parent.data.copy()
        fr = parent.get_slice(0, 15)
    fr.add_signal(stg.constant_path(fr.get_frequency(5), 0.0), stg.constant_t_profile(3.0), stg.gaussian_f_profile(6.0), stg.constant_bp_profile(1.0))
    bad = not np.array_equal(src, keep)
    return bad, f"route {p['route']}: {int(np.sum(src != keep))} elements of the array the frame was built from changed with the injection"


def job_shipped_bounded(kind, asc):
    """the SHIPPED frequency profiles (real factories; exp / sinc / wofz uninterpreted) under a bounding range that need
    not contain the line: bounded = unbounded restricted to the range -- a profile is a pointwise function of
    (f, f_center), whatever columns it is evaluated on"""
    from props.frame_common import paths, t_profiles, f_profiles
    recs = []
    tag = f"C06:shipped-bounded:{(kind, asc)}"
    g = inject.GEOMS['g1']
    T, Fc, a, b = 2, 5, 3, 5
    f0, w = Sym(z3.Real('f_start')), Sym(z3.Real('width'))
    fmin = g['fch1'] if asc else g['fch1'] - (Fc - 1) * g['df']
    pre = [w.t >= RV(0.5 * g['df']), w.t <= RV(3 * g['df']), f0.t >= RV(fmin - g['df']), f0.t <= RV(fmin + Fc * g['df'])]
    mk = dict(box=lambda: f_profiles.box_f_profile(w), sinc2=lambda: f_profiles.sinc2_f_profile(w), gaussian=lambda: f_profiles.gaussian_f_profile(w),
              lorentzian=lambda: f_profiles.lorentzian_f_profile(w), voigt=lambda: f_profiles.voigt_f_profile(w, w),
              multiple_gaussian=lambda: f_profiles.multiple_gaussian_f_profile(w))[kind]
    pl = dict(fn='shipped_bounded', kind=kind, asc=asc)

    phase = Sym(z3.Real('phase'))

    def run():
        out = []
        for bounded in (True, False):
            fr = make_frame(T, Fc, asc, Sym(RV(g['df'])), Sym(RV(g['dt'])), Sym(RV(g['fch1'])))
            kw = dict(bounding_f_range=(fr.get_frequency(a), fr.get_frequency(b))) if bounded else {}
            ts0, fs0 = list(fr.ts), list(fr.fs)
            # (a shipped time profile with a phase, too: the frame's own axes are handed to the profiles as they are)
            out.append(fr.add_signal(paths.constant_path(f0, 0), t_profiles.sine_t_profile(Sym(RV(8.0)), phase, 1, 2), mk(), None, **kw))
            AXES.append((ts0, list(fr.ts), fs0, list(fr.fs)))
        return out
    AXES = []
    with frame_patches():
        leaves = core.explore(run, pre, cap=60)
    # the frame's time and frequency axes are what they were (shipped profiles do not write into their arguments)
    dis_ax = []
    for ts0, ts1, fs0, fs1 in AXES:
        if len(ts0) != len(ts1) or len(fs0) != len(fs1):
            dis_ax.append(z3.BoolVal(True))
        else:
            dis_ax += [z3.simplify(lift(x) - lift(y), som=True) != 0 for x, y in zip(ts0 + fs0, ts1 + fs1)]
    dis_ax = [c for c in dis_ax if not z3.is_false(z3.simplify(c))]
    r, _ = core.check(pre + ([z3.Or(*dis_ax)] if dis_ax else [z3.BoolVal(False)]), timeout_ms=30000)
    recs.append(q(tag + ':axes-unchanged', r, by_solver=len(dis_ax)))
    if r == 'sat':
        recs.append(cex('C06:shipped-bounded:axes', f'injecting with the shipped sine time profile (phase != 0) and the {kind} profile changed the frame\'s own time / frequency axis', dict(pl, axes=True), name=tag + ':axes-unchanged'))
    conds = []
    for li, leaf in enumerate(leaves):
        conds.append(leaf.cond())
        base = pre + leaf.pc + leaf.side
        name = f"{tag}:leaf{li}"
        if leaf.kind == 'exc':
            r, m = core.check(base, timeout_ms=30000)
            recs.append(q(name + ':noexc', r, detail=repr(leaf.value)))
            if r == 'sat':
                recs.append(cex('C06:shipped-bounded:raise', f'{kind}: bounded injection raises {leaf.value!r}', pl, name=name + ':noexc'))
            continue
        sb, su = leaf.value
        dis = []
        for i in range(T):
            for j in range(Fc):
                want = lift(su[i, j]) if a <= j < b else RV(0)
                d = z3.simplify(lift(sb[i, j]) - want, som=True)
                if not (z3.is_rational_value(d) and d.numerator_as_long() == 0):
                    dis.append(d != 0)
        r, m = core.check(base + ([z3.Or(*dis)] if dis else [z3.BoolVal(False)]), timeout_ms=60000)
        recs.append(q(name, r, by_solver=len(dis)))
        if r == 'sat':
            recs.append(cex('C06:shipped-bounded', f'{kind} profile: the bounded injection differs from the unbounded one restricted to the range', pl, name=name))
        if li == 0:
            # twin: a column inside the range is not the neighbouring column's value (the comparison has teeth)
            recs.append(q(name + ':twin', core.check(base + [lift(sb[0, a]) != lift(su[0, a - 1])], timeout_ms=30000)[0], expect='sat'))
    r, _ = core.check(pre + [z3.Not(z3.Or(*conds))], timeout_ms=30000)
    recs.append(q(f"{tag}:split-complete", r, leaves=len(leaves)))
    return recs


def replay_shipped_bounded(p):
    import setigen as stg
    msgs = []
    Fc = 64
    for (centre, a, b) in ((20.3, 30, 50), (20.3, 0, 15), (70.0, 40, 64), (32.0, 28, 36)):
        fr = stg.Frame(fchans=Fc, tchans=3, df=2.0, dt=4.0, fch1=4096.0, ascending=p['asc'], seed=1)
        fu = stg.Frame(fchans=Fc, tchans=3, df=2.0, dt=4.0, fch1=4096.0, ascending=p['asc'], seed=1)
        w = 9.0
        prof = lambda: dict(box=lambda: stg.box_f_profile(w), sinc2=lambda: stg.sinc2_f_profile(w), gaussian=lambda: stg.gaussian_f_profile(w), lorentzian=lambda: stg.lorentzian_f_profile(w),
                            voigt=lambda: stg.voigt_f_profile(w, w), multiple_gaussian=lambda: stg.multiple_gaussian_f_profile(w))[p['kind']]()
        kw = dict(path=stg.constant_path(fr.fmin + centre * fr.df, 0.01), t_profile=stg.sine_t_profile(8.0, 2.5, 1, 2), bp_profile=stg.constant_bp_profile(1.0))
        ts0, fs0 = fr.ts.copy(), fr.fs.copy()
        sig = fr.add_signal(f_profile=prof(), bounding_f_range=(fr.get_frequency(a), fr.get_frequency(b)), **kw)
        if not (np.array_equal(fr.ts, ts0) and np.array_equal(fr.fs, fs0)):
            msgs.append(f"the frame's time axis starts at {fr.ts[0]!r} after an injection with sine_t_profile(phase=2.5) (before: {ts0[0]!r})")
        full = fu.add_signal(f_profile=prof(), **kw)
        want = np.zeros_like(full)
        want[:, a:b] = full[:, a:b]
        if not np.allclose(sig, want, rtol=1e-10, atol=1e-300):
            msgs.append(f"{p['kind']} centred at channel {centre}, bounded to [{a}, {b}): max {float(np.max(sig)):.4g}, the unbounded injection has max {float(np.max(want)):.4g} there")
    return bool(msgs), '; '.join(msgs[:2]) or 'shipped profiles are confined pointwise'


def replay_index_bounds(p):
    import setigen as stg
    msgs = []
    Fc = 16
    for (a, b) in ((p['a'], Fc), (2, Fc + 3), (0, Fc), (3, 9)):
        fr = stg.Frame(fchans=Fc, tchans=3, df=2.0, dt=4.0, fch1=4096.0, ascending=p['asc'], seed=1)
        fu = stg.Frame(fchans=Fc, tchans=3, df=2.0, dt=4.0, fch1=4096.0, ascending=p['asc'], seed=1)
        kw = dict(path=stg.constant_path(fr.get_frequency(Fc - 2), 0.05), t_profile=stg.constant_t_profile(2.0), f_profile=stg.gaussian_f_profile(9.0), bp_profile=stg.constant_bp_profile(1.0))
        sig = fr.add_signal(bounding_f_range=(fr.get_frequency(a), fr.get_frequency(b)), **kw)
        full = fu.add_signal(**kw)
        want = np.zeros_like(full)
        want[:, a:min(b, Fc)] = full[:, a:min(b, Fc)]
        if not np.allclose(sig, want, rtol=1e-12, atol=0) or not np.allclose(fr.data, want, rtol=1e-12, atol=0):
            cols = sorted(set(np.nonzero(~np.isclose(sig, want, rtol=1e-12, atol=0))[1].tolist()))
            msgs.append(f"bounded by (get_frequency({a}), get_frequency({b})) on {Fc} channels: columns {cols} differ from the unbounded signal restricted to [{a}, {min(b, Fc)})")
    return bool(msgs), '; '.join(msgs[:2]) or 'index-specified bounding ranges confine exactly'


# ---------------------------------------------------------------- injections that fail
FAULTS = ('path_fn', 'tprofile_fn', 'fprofile_fn', 'bp_fn', 'path_len', 'path_type', 'tprofile_len', 'bp_len')


class UserError(Exception):
    pass


def failing_kwargs(fault, T, Fc, smear, mk_arr):
    """signal description whose evaluation fails at the named component"""
    def boom(*a):
        raise UserError(fault)
    ok_p, ok_t, ok_f, ok_b = uf1('PATH'), uf1('TP'), uf2('FP'), uf1('BP')
    kw = dict(path=ok_p, t_profile=ok_t, f_profile=ok_f, bp_profile=ok_b, doppler_smearing=smear, smearing_subsamples=2)
    if fault == 'path_fn':
        kw['path'] = boom
    elif fault == 'tprofile_fn':
        kw['t_profile'] = boom
    elif fault == 'fprofile_fn':
        kw['f_profile'] = boom
    elif fault == 'bp_fn':
        kw['bp_profile'] = boom
    elif fault == 'path_len':
        kw['path'] = mk_arr(T if smear else T + 1)          # one too few / one too many values
    elif fault == 'path_type':
        kw['path'] = 'not a path'
    elif fault == 'tprofile_len':
        kw['t_profile'] = mk_arr(T + 1)
    elif fault == 'bp_len':
        kw['bp_profile'] = mk_arr(Fc + 1)
    return kw


def job_failed_injection(T, Fc, asc, smear, fault):
    """an injection that raises (a failing user callback, an array of the wrong length, an unsupported type) leaves the
    frame exactly as it was, and the frame still takes a later injection"""
    recs = []
    tag = f"C06:failed:{(T, Fc, asc, smear, fault)}"
    df, dt, fch1, pre = geom_syms()
    D = sym_data(T, Fc)
    mk_arr = lambda n: npx.sarr([Sym(z3.Real(f'arr_{i}')) for i in range(n)])
    pl = dict(fn='failed', T=T, Fc=Fc, asc=asc, smear=smear, fault=fault)

    def run():
        fr = make_frame(T, Fc, asc, df, dt, fch1)
        fr.data = D.copy()
        before = dict(fs=list(fr.fs), ts=list(fr.ts), shape=fr.shape, noise=(fr.noise_mean, fr.noise_std), meta=dict(fr.metadata), rng=fr.rng,
                      rng_state=str(fr.rng.bit_generator.state), fmin=fr.fmin, fmax=fr.fmax, df=fr.df, dt=fr.dt)
        raised = None
        try:
            fr.add_signal(**failing_kwargs(fault, T, Fc, smear, mk_arr))
        except (UserError, ValueError, TypeError, IndexError) as e:
            raised = e
        ext = fr.ts_ext
        dis_state, bad_state = state_equal(before, fr, None)          # judged now, before anything else touches the frame
        data_after = fr.data.copy()
        later = None
        try:
            later = fr.add_signal(uf1('PATH'), uf1('TP'), uf2('FP'), uf1('BP'), doppler_smearing=smear, smearing_subsamples=2)
        except Exception as e:
            later = e
        return (dis_state, bad_state, data_after), before, raised, ext, later
    with frame_patches():
        leaves = core.explore(run, pre, cap=200)
    conds = []
    for li, leaf in enumerate(leaves):
        conds.append(leaf.cond())
        name = f"{tag}:leaf{li}"
        base = pre + leaf.pc + leaf.side
        if leaf.kind == 'exc':
            r, m = core.check(base, timeout_ms=30000)
            recs.append(q(name + ':noexc', r, detail=repr(leaf.value)))
            if r == 'sat':
                recs.append(cex('C06:failed:raise', f'unexpected exception type {leaf.value!r}', pl, name=name + ':noexc'))
            continue
        fr, before, raised, ext, later = leaf.value
        if raised is None:
            recs.append(q(name + ':rejected', 'sat', detail='an invalid signal description was accepted'))
            recs.append(cex('C06:failed:accepted', f'{fault}: the injection did not raise', pl, name=name + ':rejected'))
            continue
        dis, bad, data_after = list(fr[0]), list(fr[1]), fr[2]
        if data_after.shape == D.shape:
            dis += [lift(data_after[idx]) != lift(D[idx]) for idx in np.ndindex(D.shape)]
        else:
            bad.append('data shape')
        if len(ext) != T + 1:
            bad.append(f'ts_ext has {len(ext)} entries')
        if isinstance(later, Exception):
            bad.append(f'a later, valid injection raises {type(later).__name__}: {later}')
        r, m = core.check(base + [z3.Or(z3.BoolVal(bool(bad)), *dis)], timeout_ms=60000)
        recs.append(q(name, r, raised=type(raised).__name__, detail='; '.join(bad)))
        if li == 0 and not isinstance(later, Exception):
            recs.append(q(name + ':twin', core.check(base + [lift(later[0, 0]) != 0], timeout_ms=30000)[0], expect='sat'))
        if r == 'sat':
            recs.append(cex('C06:failed:state', f"after an injection that raised ({fault}: {type(raised).__name__}) the frame is not as it was: {bad[:2]}", pl, name=name))
    r, _ = core.check(pre + [z3.Not(z3.Or(*conds))] if conds else pre, timeout_ms=30000)
    recs.append(q(f"{tag}:split-complete", r))
    return recs


def replay_failed(p):
    import setigen as stg
    T, Fc, smear, fault = p['T'], p['Fc'], p['smear'], p['fault']
    fr = stg.Frame(fchans=Fc, tchans=T, df=2.0, dt=4.0, fch1=4096.0, ascending=p['asc'], seed=3)
    fr.add_noise(4.0)
    D, ts0, fs0 = fr.data.copy(), fr.ts.copy(), fr.fs.copy()
    st0, nm0, meta0 = str(fr.rng.bit_generator.state), (fr.noise_mean, fr.noise_std), dict(fr.metadata)

    def boom(*a):
        raise UserError(fault)
    kw = dict(path=stg.constant_path(4098.0, 0.05), t_profile=stg.constant_t_profile(1.0), f_profile=stg.box_f_profile(4.0), bp_profile=stg.constant_bp_profile(1.0),
              doppler_smearing=smear, smearing_subsamples=2)
    good = dict(kw)
    kw.update({'path_fn': dict(path=boom), 'tprofile_fn': dict(t_profile=boom), 'fprofile_fn': dict(f_profile=boom), 'bp_fn': dict(bp_profile=boom),
               'path_len': dict(path=np.full(T if smear else T + 1, 4098.0)), 'path_type': dict(path='not a path'),
               'tprofile_len': dict(t_profile=np.ones(T + 1)), 'bp_len': dict(bp_profile=np.ones(Fc + 1))}[fault])
    try:
        fr.add_signal(**kw)
        return True, f"{fault}: the injection did not raise"
    except (UserError, ValueError, TypeError, IndexError) as e:
        exc = e
    msgs = []
    if fr.ts.shape != ts0.shape or not np.array_equal(fr.ts, ts0) or not np.array_equal(fr.fs, fs0) or len(fr.ts_ext) != T + 1:
        msgs.append(f"time axis now has {len(fr.ts)} entries (ts_ext {len(fr.ts_ext)}) for {T} integrations")
    if fr.data.shape != D.shape or not np.array_equal(fr.data, D):
        msgs.append("data changed")
    if str(fr.rng.bit_generator.state) != st0 or (fr.noise_mean, fr.noise_std) != nm0 or dict(fr.metadata) != meta0 or fr.shape != (T, Fc):
        msgs.append("generator state / noise estimates / metadata / shape changed")
    try:
        fr.add_signal(**good)
    except Exception as e:
        msgs.append(f"a later, valid injection raises {type(e).__name__}: {e}")
    return bool(msgs), f"after an injection that raised {type(exc).__name__} ({fault}): " + ('; '.join(msgs) or 'frame unchanged')


# ---------------------------------------------------------------- superposition
def job_superpose(T, Fc, asc, smear, bound, tier):
    """two different signals injected in both orders on the same prior content"""
    recs = []
    df, dt, fch1, pre = geom_syms()
    if bound:
        g = inject.GEOMS['g1']
        df, dt, fch1, pre = Sym(RV(g['df'])), Sym(RV(g['dt'])), Sym(RV(g['fch1'])), []
    D = sym_data(T, Fc)
    P1, T1, F1, B1 = uf1('PATH'), uf1('TP'), uf2('FP'), uf1('BP')
    P2, T2, F2 = uf1('PATH2'), uf1('TP2'), uf2('FP2')
    lvl = Sym(z3.Real('lvl2'))
    kw1 = dict(path=P1, t_profile=T1, f_profile=F1, bp_profile=B1, doppler_smearing=smear, smearing_subsamples=2)
    kw2 = dict(path=P2, t_profile=T2, f_profile=F2, bp_profile=lvl, integrate_f_profile=True, f_subsamples=2)
    if bound:
        kw1['bounding_f_range'] = (Sym(z3.Real('b0')), Sym(z3.Real('b1')))
        kw2['bounding_f_range'] = (Sym(z3.Real('c0')), Sym(z3.Real('c1')))

    def run(order):
        def f():
            fr = make_frame(T, Fc, asc, df, dt, fch1)
            fr.data = D.copy()
            sigs = {}
            for k in order:
                sigs[k] = fr.add_signal(**(kw1 if k == 1 else kw2))
            return fr, sigs
        return f

    with frame_patches():
        la = core.explore(run((1, 2)), pre, cap=2500)
        lb = core.explore(run((2, 1)), pre, cap=2500)
    # pair up leaves by path condition: for each leaf of order A, every leaf of order B whose
    # condition is jointly satisfiable must agree
    n = 0
    sat_twin = False
    for ia, A in enumerate(la):
        if A.kind != 'ok':
            continue
        frA, sA = A.value
        # additivity within A: data = D + s1 + s2
        dis = [z3.simplify(lift(frA.data[i, j]) - (lift(D[i, j]) + lift(sA[1][i, j]) + lift(sA[2][i, j])), som=True) != 0
               for i in range(T) for j in range(Fc)]
        r, m = core.check(pre + A.pc + A.side + [z3.Or(*dis)], timeout_ms=60000)
        recs.append(q(f"C06:superpose:{(T, Fc, asc, smear, bound)}:A{ia}:sum", r))
        if r == 'sat':
            recs.append(cex('C06:superpose:sum', 'after two injections the data is not prior + s1 + s2', dict(fn='superpose'), name=f"C06:superpose:{(T, Fc, asc, smear, bound)}:A{ia}:sum"))
        for ib, B in enumerate(lb):
            if B.kind != 'ok':
                continue
            frB, sB = B.value
            both = pre + A.pc + B.pc + A.side + B.side
            dis = []
            for i in range(T):
                for j in range(Fc):
                    dis.append(z3.simplify(lift(frA.data[i, j]) - lift(frB.data[i, j]), som=True) != 0)
                    dis.append(z3.simplify(lift(sA[1][i, j]) - lift(sB[1][i, j]), som=True) != 0)
                    dis.append(z3.simplify(lift(sA[2][i, j]) - lift(sB[2][i, j]), som=True) != 0)
            if all(z3.is_false(z3.simplify(d)) for d in dis):
                n += 1
                continue
            r, m = core.check(both + [z3.Or(*dis)], timeout_ms=60000)
            recs.append(q(f"C06:superpose:{(T, Fc, asc, smear, bound)}:A{ia}xB{ib}:order", r))
            if r == 'sat':
                recs.append(cex('C06:superpose:order', 'two injections give different data in the two orders',
                                dict(fn='superpose'), name=f"C06:superpose:{(T, Fc, asc, smear, bound)}:A{ia}xB{ib}:order"))
    recs.append(q(f"C06:superpose:{(T, Fc, asc, smear, bound)}:pairs-identical-by-rewriter", 'unsat', trivial=True, detail=f"{n} leaf pairs reduced to syntactic identity"))
    tw = 'unsat'
    for A in la:
        if A.kind == 'ok':
            r, _ = core.check(pre + A.pc + [lift(A.value[0].data[0, 0]) != lift(D[0, 0])], timeout_ms=30000)
            if r == 'sat':
                tw = 'sat'
                break
    recs.append(q(f"C06:superpose:{(T, Fc, asc, smear, bound)}:twin", tw, expect='sat'))
    return recs


REPLAYS = {'source_array': replay_source_array, 'shipped_bounded': replay_shipped_bounded, 'index_bounds': replay_index_bounds, 'add_signal': inject.replay_add_signal, 'superpose': replay_superpose, 'int_data': replay_int_data, 'failed': replay_failed, 'units_bounding': replay_units_bounding, 'noise_twin': replay_noise_twin}


def main():
    ck = Check('C06', 'Injection is additive, confined to its bounding range, preserves frame state')
    ck.functions = ['setigen.frame.Frame.__init__', 'Frame.add_signal', 'Frame.get_index']
    ck.files = ['setigen/frame.py']
    ck.stubs = ['astropy sigma_clip -> identity', 'user callbacks -> uninterpreted functions']
    ck.assumptions = ['exact real arithmetic; float32 prior data and -0.0 outside the claim',
                      'bounded configurations use concrete dyadic geometries (df symbolic would make the index computation non-linear); bounding endpoints are unconstrained reals',
                      '"untouched" is decided as semantic equality of terms (data_after == data_before), not object identity']
    shapes = [(2, 3), (3, 4)] if not ck.thorough else [(1, 1), (2, 3), (3, 5), (4, 6)]
    geoms = ['g1'] if not ck.thorough else ['g1', 'g2', 'g3']
    ck.bounds = dict(shapes=shapes, geometries=[inject.GEOMS[g] for g in geoms], orientations=2, superposition='2 signals x 2 orders, shapes (2,3)')
    jobs = []
    for (T, Fc) in shapes:
        for asc in (False, True):
            for smear in (False, True):
                for g in geoms:
                    jobs.append(('job_confine', (T, Fc, asc, smear, ck.tier, g)))
    for asc in (False, True):
        for smear in (False, True):
            for bound in (False, True):
                jobs.append(('job_superpose', (2, 3, asc, smear, bound, ck.tier)))
                jobs.append(('job_int_data', (2, 3, asc, bound, smear)))
    for asc in (False, True):
        jobs.append(('job_noise_estimates_twin', (2, 3, asc)))
        for route_ in ('ctor', 'from_data', 'slice'):
            jobs.append(('job_source_array', (2, 3, asc, route_)))
        for kind_ in ('box', 'sinc2', 'gaussian', 'lorentzian', 'voigt', 'multiple_gaussian'):
            jobs.append(('job_shipped_bounded', (kind_, asc)))
        for (a_, b_) in ((1, 3), (0, 5), (1, 2)):
            jobs.append(('job_index_bounds', (2, 3, asc, a_, b_)))
        for smear in (False, True):
            jobs.append(('job_units_bounding', (2, 3, asc, smear)))
    for smear in (False, True):
        for fault in FAULTS:
            jobs.append(('job_failed_injection', (2, 3, fault != 'bp_fn', smear, fault)))
    ck.run_jobs('props.C06', jobs, timeout_s=1500 if ck.thorough else 600)
    ck.finish()


if __name__ == '__main__':
    main()
