"""C17 -- derived frames (slice, de-drift, integrate) keep data and axis registration.

E1: the real get_slice / dedrift / integrate / spectrum / timeseries / Frame.from_data run on symbolic data with
symbolic slice bounds (forked), symbolic real drift rate (forked over the rounded per-row offsets, case split proven
complete) and symbolic start time / geometry.
"""
import time

import numpy as np
import z3

from symx import core, npx, shadow
from symx.core import Sym, lift, RV
from symx.report import Check, q, cex, note
from props import inject
from props.frame_common import F, frame_patches, geom_syms, make_frame, sym_data, sigma_clip_stub, setigen
import importlib
SL, DD, IG, SP, TS = (importlib.import_module(f'setigen.{m}') for m in ('slice', 'dedrift', 'integrate', 'spectrum', 'timeseries'))


def patches():
    px = npx.NPProxy()
    b = dict(shadow.DEFAULT_BUILTINS)
    return frame_patches(proxy=px, extra=[(DD, dict(np=px, **b)), (IG, dict(np=px, sigma_clip=sigma_clip_stub, **b)), (SL, dict(**b))])


def common_claims(child, parent_vals, T_expected=None):
    """orientation, resolutions, start time, source name, metadata inherited"""
    asc, df, dt, t0, name = parent_vals
    dis = [lift(child.t_start) != lift(t0)]
    py = []
    if child.ascending != asc:
        py.append('ascending')
    if child.source_name != name:
        py.append(f'source_name={child.source_name!r}')
    return dis, py


def job_slice(T, Fc, asc, geom):
    recs = []
    tag = f"C17:slice:{(T, Fc, asc, geom)}"
    if geom is None:
        df, dt, fch1, pre = geom_syms()
    else:
        g = inject.GEOMS[geom]
        df, dt, fch1, pre = Sym(RV(g['df'])), Sym(RV(g['dt'])), Sym(RV(g['fch1'])), []
    li_, ri_ = z3.Int('l'), z3.Int('r')
    l, r_ = Sym(z3.ToReal(li_), True), Sym(z3.ToReal(ri_), True)
    t0 = Sym(z3.Real('t_start'))
    # Python slice bounds: negative values count from the end of the band
    nl = z3.If(li_ < 0, li_ + Fc, li_)
    nr = z3.If(ri_ < 0, ri_ + Fc, ri_)
    pre = pre + [li_ >= -Fc, li_ < Fc, ri_ >= -Fc + 1, ri_ <= Fc, ri_ != 0, nl < nr]
    D = sym_data(T, Fc)

    def run():
        fr = make_frame(T, Fc, asc, df, dt, fch1, t_start=t0, source_name='SRC_A')
        fr.data = D.copy()
        fr.add_metadata({'drift_rate': 1.5, 'note': 'x'})
        s = SL.get_slice(fr, l, r_)
        s2 = fr.get_slice(l, r_)
        # copy, not view: later writes into the parent must not reach the child
        fr.data[0, 0] = Sym(z3.Real('poison'))
        return fr, s, s2
    with patches():
        leaves = core.explore(run, pre, cap=200)
    conds = []
    for k, leaf in enumerate(leaves):
        conds.append(leaf.cond())
        name = f"{tag}:leaf{k}"
        base = pre + leaf.pc + leaf.side
        if leaf.kind == 'exc':
            r, m = core.check(base)
            recs.append(q(name, r, detail=repr(leaf.value)))
            if r == 'sat':
                recs.append(cex('C17:slice:raise', f'get_slice raised {leaf.value!r}', dict(fn='slice', T=T, Fc=Fc, asc=asc, l=int(str(m.eval(li_, model_completion=True))), r=int(str(m.eval(ri_, model_completion=True)))), name=name))
            continue
        fr, s, s2 = leaf.value
        dis, py = common_claims(s, (asc, fr.df, fr.dt, t0, 'SRC_A'))
        W = s.data.shape[1]
        dis.append(RV(W) != z3.ToReal(nr) - z3.ToReal(nl))
        if s.data.shape[0] != T or len(s.fs) != W or len(s.ts) != T or s2.data.shape != s.data.shape:
            py.append('shape')
        else:
            for j in range(W):
                jj = z3.ToReal(nl) + j
                # column j of the slice is parent column l + j (for the concrete l of this path)
                for c in range(Fc):
                    hit = (jj == c)
                    dis.append(z3.And(hit, lift(s.fs[j]) != lift(fr.fs[c])))
                    for i in range(T):
                        dis.append(z3.And(hit, lift(s.data[i, j]) != lift(D[i, c])))
                        dis.append(z3.And(hit, lift(s2.data[i, j]) != lift(D[i, c])))
            dis += [lift(a) != lift(b) for a, b in zip(s.ts, fr.ts)]
            dis += [lift(s.df) != lift(fr.df), lift(s.dt) != lift(fr.dt)]
        if s.metadata.get('note') != 'x':
            py.append('metadata')
        if fr.metadata.get('drift_rate') != 1.5 or fr.metadata.get('note') != 'x':
            py.append(f"parent's user metadata changed to {fr.metadata.get('drift_rate')!r}, {fr.metadata.get('note')!r}")
        r, m = core.check(base + [z3.Or(*dis)], timeout_ms=60000)
        recs.append(q(name, r))
        if r == 'sat' or py:
            lv, rv = (int(str(m.eval(li_, model_completion=True))), int(str(m.eval(ri_, model_completion=True)))) if r == 'sat' else (0, 1)
            if r != 'sat':
                recs.append(q(name + ':py', 'sat', detail=str(py)))
            recs.append(cex(f"C17:slice:{'attrs' if py else 'registration'}", f"slice [{lv},{rv}) does not carry the parent's columns/axes/attributes {py}", dict(fn='slice', T=T, Fc=Fc, asc=asc, l=lv, r=rv), name=name if r == 'sat' else name + ':py'))
    r, _ = core.check(pre + [z3.Not(z3.Or(*conds))])
    recs.append(q(f"{tag}:split-complete", r, leaves=len(leaves)))
    return recs


def job_dedrift(T, Fc, asc, geom, sign, via_metadata, gapped=False):
    """gapped: the frame's time axis is not the default one (a consolidated cadence: absolute times with slew gaps);
    rows are still shifted by their row index, round(|d| * i * dt / df), and the axis is carried over as it is"""
    recs = []
    tag = f"C17:dedrift:{(T, Fc, asc, geom, sign, via_metadata)}" + (':gapped' if gapped else '')
    g = inject.GEOMS[geom]
    dfv, dtv = g['df'], g['dt']
    d = Sym(z3.Real('drift'))
    t0 = Sym(z3.Real('t_start'))
    lim = (Fc + 1) * dfv / (T * dtv)
    pre = [d.t >= 0, d.t <= RV(lim)] if sign > 0 else [d.t < 0, d.t >= RV(-lim)]
    if gapped:
        pre = pre + [z3.Real('t_gap') >= 0, z3.Real('t_gap') <= 1000, z3.Real('t_abs') >= 0]
    D = sym_data(T, Fc)
    again = [None]

    def run():
        fr = make_frame(T, Fc, asc, Sym(RV(dfv)), Sym(RV(dtv)), Sym(RV(g['fch1'])), t_start=t0, source_name='SRC_B')
        fr.data = D.copy()
        if gapped:
            fr.ts = fr.ts + npx.sarr([Sym(z3.Real('t_abs')) + (i // 2) * Sym(z3.Real('t_gap')) for i in range(T)])
        if via_metadata:
            fr.add_metadata({'drift_rate': d})
            out = DD.dedrift(fr)
            # deriving does not change the parent: the rate it records is still d and a second derivation is the same
            again[0] = (fr.metadata.get('drift_rate'), DD.dedrift(fr))
        else:
            out = DD.dedrift(fr, d)
            again[0] = None
        fr.data[0, 0] = Sym(z3.Real('poison'))
        return fr, out, again[0]
    with patches():
        leaves = core.explore(run, pre, cap=3000, catch=(ValueError, IndexError, TypeError, KeyError, AssertionError))
    ad = z3.If(d.t >= 0, d.t, -d.t)
    off = lambda i: lift(core.rne(Sym(ad * i * RV(dtv) / RV(dfv))))
    maxoff = off(T)
    conds = []
    for k, leaf in enumerate(leaves):
        conds.append(leaf.cond())
        name = f"{tag}:leaf{k}"
        base = pre + leaf.pc + leaf.side
        mk_pl = lambda m: dict(fn='dedrift', T=T, Fc=Fc, asc=asc, geom=geom, drift=core.model_float(m, d), via_metadata=via_metadata, gapped=gapped, t_gap=core.model_float(m, z3.Real('t_gap')) if gapped else 0.0)
        if leaf.kind == 'exc':
            # ValueError exactly when no channels would be left
            ok_exc = isinstance(leaf.value, ValueError)
            r, m = core.check(base + ([maxoff < Fc] if ok_exc else []), timeout_ms=60000)
            recs.append(q(name + ':reject-iff-empty', r, detail=repr(leaf.value)))
            if r == 'sat':
                recs.append(cex('C17:dedrift:raise', f'dedrift raised {leaf.value!r} although channels remain', mk_pl(m), name=name + ':reject-iff-empty'))
            continue
        fr, out, rep = leaf.value
        W = out.data.shape[1]
        dis, py = common_claims(out, (asc, fr.df, fr.dt, t0, 'SRC_B'))
        if rep is not None:
            kept, out2 = rep
            if kept is None or out2.data.shape != out.data.shape:
                py.append(f"second de-drift of the same parent: shape {out2.data.shape} vs {out.data.shape}, recorded rate {kept!r}")
            else:
                dis.append(lift(kept) != d.t)
                dis += [lift(a) != lift(b) for a, b in zip(out2.data.flat, out.data.flat)]
                dis += [lift(a) != lift(b) for a, b in zip(out2.fs, out.fs)]
        dis.append(maxoff >= Fc)                      # must have been rejected
        dis.append(RV(W) != Fc - maxoff)
        if out.data.shape[0] != T or len(out.fs) != W or len(out.ts) != T:
            py.append('shape')
        else:
            for i in range(T):
                sh = off(i) if sign > 0 else maxoff - off(i)
                for j in range(W):
                    for c in range(Fc):
                        dis.append(z3.And(sh + j == c, lift(out.data[i, j]) != lift(D[i, c])))
                    dis.append(z3.Or(sh + j < 0, sh + j > Fc - 1))
            # row 0 keeps its frequencies: derived fs[j] = parent fs of the column row 0 came from
            sh0 = RV(0) if sign > 0 else maxoff
            for j in range(W):
                for c in range(Fc):
                    dis.append(z3.And(sh0 + j == c, lift(out.fs[j]) != lift(fr.fs[c])))
            if not gapped:        # (what time axis a frame derived from a gapped one carries is not part of the statement)
                dis += [lift(a) != lift(b) for a, b in zip(out.ts, fr.ts)]
            dis += [lift(out.df) != lift(fr.df), lift(out.dt) != lift(fr.dt)]
            # a linear path lands on one column to within one channel (centre deviation <= 1/2 per row)
            for i in range(T):
                dev = ad * i * RV(dtv) / RV(dfv) - off(i)
                dis.append(z3.Or(dev > RV(0.5), dev < RV(-0.5)))
        r, m = core.check(base + [z3.Or(*dis)], timeout_ms=120000)
        recs.append(q(name, r))
        if r == 'sat' or py:
            if r != 'sat':
                recs.append(q(name + ':py', 'sat', detail=str(py)))
                r2, m = core.check(base)
            recs.append(cex(f"C17:dedrift:{'attrs' if py else 'registration'}", f"de-drifted frame does not hold the shifted parent rows / axes / attributes {py}", mk_pl(m), name=name if r == 'sat' else name + ':py'))
    r, _ = core.check(pre + [z3.Not(z3.Or(*conds))], timeout_ms=60000)
    recs.append(q(f"{tag}:split-complete", r, leaves=len(leaves)))
    tw = 'unsat'
    for leaf in leaves:
        if leaf.kind == 'ok' and leaf.value[1].data.shape[1] < Fc:
            r, _ = core.check(pre + leaf.pc)
            tw = r
            break
    recs.append(q(f"{tag}:twin", tw if T * Fc > 1 else 'sat', expect='sat'))
    return recs


def job_integrate(T, Fc, asc, derived=None):
    """derived='slice': the integrated frame is itself a slice (channels 1..Fc of an Fc+2 channel parent), so its own axes
    differ from whatever the parent recorded"""
    recs = []
    tag = f"C17:integrate:{(T, Fc, asc)}" + (f":of-{derived}" if derived else '')
    df, dt, fch1, pre = geom_syms()
    t0 = Sym(z3.Real('t_start'))
    if derived == 'slice':
        DP = sym_data(T, Fc + 2)
        D = DP[:, 1:Fc + 1].copy()
    else:
        D = sym_data(T, Fc)

    def run():
        if derived == 'slice':
            parent = make_frame(T, Fc + 2, asc, df, dt, fch1, t_start=t0, source_name='SRC_C')
            parent.data = DP.copy()
            fr = parent.get_slice(1, Fc + 1)
        else:
            fr = make_frame(T, Fc, asc, df, dt, fch1, t_start=t0, source_name='SRC_C')
            fr.data = D.copy()
        out = {}
        for axis in ('t', 'f', 0, 1):
            for mode in ('mean', 'sum'):
                out[(axis, mode)] = IG.integrate(fr, axis=axis, mode=mode)
        # the object-returning form, for every spelling of the axis (names, integers, NumPy integers)
        for axis in ('t', 'f', 0, 1, np.int64(0), np.int64(1)):
            out[('frame', repr(axis))] = (axis, IG.integrate(fr, axis=axis, mode='mean', as_frame=True))
        out['spec'] = IG.spectrum(fr)
        out['spec_sum'] = IG.spectrum(fr, mode='sum')
        out['tser'] = IG.timeseries(fr)
        out['arr'] = IG.integrate(D, axis='t', mode='mean')
        # an operation applied to the result of another: integrating a Spectrum / TimeSeries object again
        out['sp_t'] = IG.integrate(out['spec'], axis='t', mode='mean')        # one row: the spectrum itself
        out['sp_f'] = IG.integrate(out['spec'], axis='f', mode='sum')         # its total
        out['ts_f'] = IG.integrate(out['tser'], axis='f', mode='sum')         # one column: the series itself
        out['ts_t'] = IG.integrate(out['tser'], axis='t', mode='mean')        # its mean
        return fr, out
    with patches():
        leaf = core.run_single(run, pre)
    if leaf.kind == 'exc' or isinstance(leaf.value, BaseException):
        r, _ = core.check(pre + leaf.pc + leaf.side, timeout_ms=30000)
        recs.append(q(tag + ':noexc', r, detail=repr(leaf.value)))
        if r == 'sat':
            recs.append(cex('C17:integrate:raise', f'integration raised {leaf.value!r}', dict(fn='integrate', T=T, Fc=Fc, asc=asc, derived=derived), name=tag + ':noexc'))
        return recs
    fr, out = leaf.value
    Dt = [[lift(D[i, j]) for j in range(Fc)] for i in range(T)]
    colsum = [sum((Dt[i][j] for i in range(1, T)), Dt[0][j]) for j in range(Fc)]
    rowsum = [sum((Dt[i][j] for j in range(1, Fc)), Dt[i][0]) for i in range(T)]
    dis, py = [], []

    def vec(name, v, want):
        if np.shape(v) != (len(want),):
            py.append(f'{name} shape {np.shape(v)}')
            return
        for a, b in zip(v, want):
            dis.append(z3.simplify(lift(a) - b, som=True) != 0)
    for axis in ('t', 0):
        vec(f'{axis}/mean', out[(axis, 'mean')], [c / T for c in colsum])
        vec(f'{axis}/sum', out[(axis, 'sum')], colsum)
    for axis in ('f', 1):
        vec(f'{axis}/mean', out[(axis, 'mean')], [c / Fc for c in rowsum])
        vec(f'{axis}/sum', out[(axis, 'sum')], rowsum)
    vec('array input', out['arr'], [c / T for c in colsum])
    vec('integrate(spectrum, t)', out['sp_t'], [c / T for c in colsum])
    vec('integrate(spectrum, f)', out['sp_f'], [sum(([c / T for c in colsum])[1:], colsum[0] / T)])
    vec('integrate(timeseries, f)', out['ts_f'], [c / Fc for c in rowsum])
    vec('integrate(timeseries, t)', out['ts_t'], [sum(([c / Fc for c in rowsum])[1:], rowsum[0] / Fc) / T])
    sp, sps, tsr = out['spec'], out['spec_sum'], out['tser']
    if sp.data.shape != (1, Fc) or tsr.data.shape != (T, 1) or len(sp.fs) != Fc or len(tsr.ts) != T:
        py.append('wrapper shapes')
    else:
        vec('spectrum', list(sp.data[0]), [c / T for c in colsum])
        vec('spectrum sum', list(sps.data[0]), colsum)
        vec('timeseries', list(tsr.data[:, 0]), [c / Fc for c in rowsum])
        dis += [lift(a) != lift(b) for a, b in zip(sp.fs, fr.fs)]
        dis += [lift(a) != lift(b) for a, b in zip(tsr.ts, fr.ts)]
        if derived == 'slice':
            # the slice's own channel centres, from the parent geometry: parent channel 1+j
            # (data columns are always in increasing frequency; a descending parent's fch1 is its last column)
            fmin_p = lift(fch1) if asc else lift(fch1) - (Fc + 1) * lift(df)
            dis += [lift(sp.fs[j]) != fmin_p + (1 + j) * lift(df) for j in range(Fc)]
        dis += [lift(sp.df) != lift(fr.df), lift(tsr.dt) != lift(fr.dt), lift(sp.dt) != lift(fr.dt) * T, lift(tsr.df) != lift(fr.df) * Fc]
    for key, val in out.items():
        if not (isinstance(key, tuple) and key[0] == 'frame'):
            continue
        axis, w = val
        along_f = axis in ('f', 1)
        if along_f:
            if not isinstance(w, TS.TimeSeries) or w.data.shape != (T, 1) or len(w.ts) != T:
                py.append(f'integrate(axis={axis!r}, as_frame=True) is a {type(w).__name__} of shape {getattr(w.data, "shape", None)}, expected a TimeSeries ({T}, 1)')
                continue
            vec(f'as_frame {axis!r}', list(w.data[:, 0]), [c / Fc for c in rowsum])
            dis += [lift(a) != lift(b) for a, b in zip(w.ts, fr.ts)] + [lift(w.dt) != lift(fr.dt)]
        else:
            if not isinstance(w, SP.Spectrum) or w.data.shape != (1, Fc) or len(w.fs) != Fc:
                py.append(f'integrate(axis={axis!r}, as_frame=True) is a {type(w).__name__} of shape {getattr(w.data, "shape", None)}, expected a Spectrum (1, {Fc})')
                continue
            vec(f'as_frame {axis!r}', list(w.data[0]), [c / T for c in colsum])
            dis += [lift(a) != lift(b) for a, b in zip(w.fs, fr.fs)] + [lift(w.df) != lift(fr.df)]
        d2, p2 = common_claims(w, (asc, fr.df, fr.dt, t0, 'SRC_C'))
        dis += d2
        py += p2
    for w in (sp, tsr):
        d2, p2 = common_claims(w, (asc, fr.df, fr.dt, t0, 'SRC_C'))
        dis += d2
        py += p2
    r, m = core.check(pre + leaf.side + [z3.Or(*dis)], timeout_ms=120000)
    recs.append(q(tag, r))
    pl = dict(fn='integrate', T=T, Fc=Fc, asc=asc, derived=derived)
    if r == 'sat':
        recs.append(cex('C17:integrate' + (f':of-{derived}' if derived else ''), 'integration result / wrapper axes differ from per-column / per-row mean or sum with the parent axes', pl, name=tag))
    r0, _ = core.check([RV(int(not py)) != 1])
    recs.append(q(tag + ':attrs', r0, trivial=True, detail=str(py)))
    if py:
        recs.append(cex('C17:integrate:attrs', f'integration wrapper attributes: {py}', pl, name=tag + ':attrs'))
    return recs


def job_integrate_normalized(T, Fc, axis, mode):
    """normalize=True: the integrated vector v is returned as (v - mean(v)) / std(v), identically as a plain array,
    as a wrapper object (as_frame=True) and through spectrum()/timeseries()"""
    recs = []
    tag = f"C17:integrate-normalized:{(T, Fc, axis, mode)}"
    df, dt, fch1, pre = geom_syms()
    D = sym_data(T, Fc)

    def run():
        fr = make_frame(T, Fc, True, df, dt, fch1, t_start=Sym(z3.Real('t_start')), source_name='SRC_N')
        fr.data = D.copy()
        arr = IG.integrate(fr, axis=axis, mode=mode, normalize=True)
        obj = IG.integrate(fr, axis=axis, mode=mode, normalize=True, as_frame=True)
        wrap = (IG.timeseries if axis in ('f', 1) else IG.spectrum)(fr, mode=mode, normalize=True)
        return arr, obj, wrap
    with patches():
        leaf = core.run_single(run, pre)
    arr, obj, wrap = leaf.value
    n = T if axis in ('f', 1) else Fc
    Dt = [[lift(D[i, j]) for j in range(Fc)] for i in range(T)]
    if axis in ('f', 1):
        v = [sum(Dt[i][1:], Dt[i][0]) for i in range(T)]
        v = [x / Fc for x in v] if mode == 'mean' else v
    else:
        v = [sum((Dt[i][j] for i in range(1, T)), Dt[0][j]) for j in range(Fc)]
        v = [x / T for x in v] if mode == 'mean' else v
    m = sum(v[1:], v[0]) / n
    var = sum(((x - m) * (x - m) for x in v[1:]), (v[0] - m) * (v[0] - m)) / n
    sref = z3.Real('std_ref')
    base = pre + leaf.side + [sref >= 0, sref * sref == var, var > 0]
    pl = dict(fn='integrate_normalized', T=T, Fc=Fc, axis=str(axis), mode=mode)
    shapes_ok = np.shape(arr) == (n,) and np.size(obj.data) == n and np.size(wrap.data) == n
    if not shapes_ok:
        recs.append(q(tag + ':shape', 'sat', detail=f"{np.shape(arr)} {np.shape(obj.data)} {np.shape(wrap.data)}"))
        recs.append(cex('C17:integrate-normalized:shape', 'normalised integration returns another shape', pl, name=tag + ':shape'))
        return recs
    ov, wv = list(np.asarray(obj.data).flat), list(np.asarray(wrap.data).flat)
    # the same numbers in all three forms
    dis = [lift(a) != lift(b) for a, b in zip(arr, ov)] + [lift(a) != lift(b) for a, b in zip(arr, wv)]
    r, mm = core.check(base + [z3.Or(*dis)], timeout_ms=120000)
    recs.append(q(tag + ':forms-agree', r))
    if r == 'sat':
        recs.append(cex('C17:integrate-normalized:forms', 'normalised integration differs between the plain array, as_frame=True and spectrum()/timeseries()', pl, name=tag + ':forms-agree'))
    # and they are (v - mean) / std
    dis = [lift(a) * sref != x - m for a, x in zip(arr, v)]
    r, mm = core.check(base + [z3.Or(*dis)], timeout_ms=120000)
    recs.append(q(tag + ':value', r))
    if r == 'sat':
        recs.append(cex('C17:integrate-normalized:value', 'normalised integration is not (v - mean(v)) / std(v)', pl, name=tag + ':value'))
    recs.append(q(tag + ':twin', core.check(base + [lift(arr[0]) != 0], timeout_ms=60000)[0], expect='sat'))
    return recs


def replay_integrate_normalized(p):
    import setigen as stg
    rng = np.random.default_rng(2)
    fr = stg.Frame(fchans=max(p['Fc'], 6), tchans=max(p['T'], 5), df=2.0, dt=4.0, fch1=4096.0, seed=0)
    fr.data = rng.normal(10, 2, fr.shape)
    bad = []
    for axis, ax in (('t', 0), ('f', 1), (0, 0), (1, 1)):
        for mode in ('mean', 'sum'):
            v = fr.data.mean(axis=ax) if mode == 'mean' else fr.data.sum(axis=ax)
            want = (v - v.mean()) / v.std()
            a = stg.integrate(fr, axis=axis, mode=mode, normalize=True)
            o = stg.integrate(fr, axis=axis, mode=mode, normalize=True, as_frame=True)
            w = (stg.timeseries if ax == 1 else stg.spectrum)(fr, mode=mode, normalize=True)
            for nm, got in (('array', a), ('as_frame', np.asarray(o.data).ravel()), ('spectrum/timeseries', np.asarray(w.data).ravel())):
                if got.shape != want.shape or not np.allclose(got, want, rtol=1e-9, atol=1e-9):
                    bad.append(f"axis={axis} mode={mode} {nm}: {got[:3]} != (v-mean)/std {want[:3]}")
    return bool(bad), '; '.join(bad[:2]) or 'normalised integration ok'


# ------------------------------------------------------------------ concrete oracles
def _parent(p, rng):
    import setigen as stg
    g = inject.GEOMS.get(p.get('geom') or 'g1')
    fr = stg.Frame(fchans=p['Fc'], tchans=p['T'], df=g['df'], dt=g['dt'], fch1=g['fch1'], ascending=p['asc'], t_start=p.get('t0', 123456.5), source_name=p.get('name', 'SRC_X'), seed=0)
    fr.data = rng.normal(10, 2, (p['T'], p['Fc']))
    fr.add_metadata({'note': 'x'})
    return fr


def _attrs(child, fr):
    bad = []
    for k in ('ascending', 'df', 'dt', 't_start', 'source_name'):
        if getattr(child, k) != getattr(fr, k):
            bad.append(f"{k}: {getattr(child, k)!r} != parent {getattr(fr, k)!r}")
    return bad


def replay_slice(p):
    rng = np.random.default_rng(0)
    fr = _parent(p, rng)
    D = fr.data.copy()
    try:
        s = fr.get_slice(p['l'], p['r'])
    except Exception as e:
        return True, f"get_slice({p['l']},{p['r']}) raised {e!r}"
    fr.data[0, 0] = -1e9
    bad = _attrs(s, fr)
    width = len(range(*slice(p['l'], p['r']).indices(p['Fc'])))
    if s.data.shape != (p['T'], width) or not np.array_equal(s.data, D[:, p['l']:p['r']]):
        bad.append('data columns')
    elif not np.allclose(s.fs, fr.fs[p['l']:p['r']], rtol=1e-12, atol=0):
        bad.append(f'fs {s.fs} != {fr.fs[p["l"]:p["r"]]}')
    if s.metadata.get('note') != 'x':
        bad.append('metadata')
    return bool(bad), '; '.join(bad) or 'slice ok'


def replay_dedrift(p):
    import setigen as stg
    rng = np.random.default_rng(0)
    fr = _parent(p, rng)
    D = fr.data.copy()
    d = p['drift']
    T, Fc = p['T'], p['Fc']
    if p.get('gapped'):
        fr.ts = fr.ts + 1.7e9 + (np.arange(T) // 2) * max(p.get('t_gap', 0.0), 37.5)
    offs = [int(np.round(abs(d) * i * fr.dt / fr.df)) for i in range(T + 1)]
    mo = offs[T]
    try:
        if p.get('via_metadata'):
            fr.add_metadata({'drift_rate': d})
            out = stg.dedrift(fr)
        else:
            out = stg.dedrift(fr, d)
    except ValueError as e:
        return mo < Fc, f"dedrift({d}) raised ValueError although max offset {mo} < {Fc} channels" if mo < Fc else 'rejected correctly'
    except Exception as e:
        return True, f"dedrift({d}) raised {e!r}"
    if mo >= Fc:
        return True, f"dedrift({d}) accepted a rate leaving no channels (max offset {mo}, {Fc} channels)"
    bad = _attrs(out, fr)
    W = Fc - mo
    if p.get('via_metadata'):
        if fr.metadata.get('drift_rate') != d:
            bad.append(f"de-drifting changed the rate recorded in the parent's metadata from {d!r} to {fr.metadata.get('drift_rate')!r}")
        out2 = stg.dedrift(fr)
        if out2.data.shape != out.data.shape or not np.array_equal(out2.data, out.data) or not np.array_equal(out2.fs, out.fs):
            bad.append(f"de-drifting the same parent a second time gives shape {out2.data.shape} instead of {out.data.shape} / other values")
    if not np.array_equal(fr.data, D) or fr.metadata.get('note') != 'x':
        bad.append("parent data / metadata changed")
    if out.data.shape != (T, W):
        bad.append(f"shape {out.data.shape} != {(T, W)}")
    else:
        for i in range(T):
            sh = offs[i] if d >= 0 else mo - offs[i]
            if not np.array_equal(out.data[i], D[i, sh:sh + W]):
                bad.append(f"row {i} is not the parent row shifted by {sh}")
                break
        sh0 = 0 if d >= 0 else mo
        if not np.allclose(out.fs, fr.fs[sh0:sh0 + W], rtol=1e-12, atol=0):
            bad.append(f"fs {out.fs} != parent fs[{sh0}:{sh0 + W}] {fr.fs[sh0:sh0 + W]}")
    return bool(bad), '; '.join(bad) or 'dedrift ok'


def replay_integrate(p):
    import setigen as stg
    rng = np.random.default_rng(0)
    if p.get('derived') == 'slice':
        q_ = dict(p, Fc=p['Fc'] + 2)
        parent = _parent(q_, rng)
        fr = parent.get_slice(1, p['Fc'] + 1)
        want_fs = parent.fs[1:p['Fc'] + 1]
    else:
        fr = _parent(p, rng)
        want_fs = fr.fs.copy()
    D = fr.data.copy()
    bad = []
    if not np.allclose(stg.spectrum(fr).fs, want_fs, rtol=0, atol=1e-6):
        bad.append(f"spectrum frequencies {stg.spectrum(fr).fs[:2]}.., the integrated frame's own are {want_fs[:2]}..")
    for axis, ax in (('t', 0), ('f', 1), (0, 0), (1, 1)):
        if not np.allclose(stg.integrate(fr, axis=axis, mode='mean'), D.mean(axis=ax)) or not np.allclose(stg.integrate(fr, axis=axis, mode='sum'), D.sum(axis=ax)):
            bad.append(f'integrate axis={axis}')
    for axis in ('t', 'f', 0, 1, np.int64(0), np.int64(1)):
        w = stg.integrate(fr, axis=axis, mode='mean', as_frame=True)
        if axis in ('f', 1):
            if type(w).__name__ != 'TimeSeries' or w.data.shape != (fr.tchans, 1) or not np.allclose(w.ts, fr.ts) or not np.isclose(w.dt, fr.dt) or not np.allclose(w.data[:, 0], D.mean(axis=1)):
                bad.append(f"integrate(axis={axis!r}, as_frame=True): {type(w).__name__} with dt={w.dt}, shape {w.data.shape}; expected a TimeSeries on the parent's time axis (dt={fr.dt})")
        elif type(w).__name__ != 'Spectrum' or w.data.shape != (1, fr.fchans) or not np.allclose(w.fs, fr.fs) or not np.isclose(w.df, fr.df) or not np.allclose(w.data[0], D.mean(axis=0)):
            bad.append(f"integrate(axis={axis!r}, as_frame=True): {type(w).__name__} with df={w.df}, shape {w.data.shape}; expected a Spectrum on the parent's frequency axis")
    sp, ts = stg.spectrum(fr), stg.timeseries(fr)
    try:
        again = [np.allclose(stg.integrate(sp, axis='t', mode='mean'), D.mean(axis=0)), np.allclose(stg.integrate(sp, axis='f', mode='sum'), [D.mean(axis=0).sum()]),
                 np.allclose(stg.integrate(ts, axis='f', mode='sum'), D.mean(axis=1)), np.allclose(stg.integrate(ts, axis='t', mode='mean'), [D.mean()])]
        if not all(again):
            bad.append(f"integrating a Spectrum / TimeSeries object again: (spectrum,t) (spectrum,f) (series,f) (series,t) correct = {again}")
    except Exception as e:
        bad.append(f"integrating a Spectrum / TimeSeries object again raised {type(e).__name__}: {e}")
    if not np.allclose(sp.data[0], D.mean(axis=0)) or not np.allclose(sp.fs, fr.fs) or not np.allclose(ts.data[:, 0], D.mean(axis=1)) or not np.allclose(ts.ts, fr.ts):
        bad.append('spectrum/timeseries values or axes')
    bad += [f"spectrum {b}" for b in _attrs(sp, fr) if not b.startswith('dt')] + [f"timeseries {b}" for b in _attrs(ts, fr) if not b.startswith('df')]
    return bool(bad), '; '.join(bad) or 'integrate ok'


def _also_at_zero(fn):
    """the oracle on an ordinary parent, then on one whose start time is exactly 0 and whose source name is empty (values a
    truthiness test would mistake for 'not given')"""
    def run(p):
        bad, msg = fn(p)
        if not bad:
            bad, msg = fn(dict(p, t0=0.0, name=''))
            if bad:
                msg = f"parent with t_start=0.0 and source_name='': {msg}"
        return bad, msg
    return run


REPLAYS = {'slice': _also_at_zero(replay_slice), 'dedrift': _also_at_zero(replay_dedrift), 'integrate': replay_integrate, 'integrate_normalized': replay_integrate_normalized}


def main():
    ck = Check('C17', 'Derived frames (slice, de-drift, integrate) keep data and axis registration')
    ck.functions = ['slice.get_slice', 'Frame.get_slice', 'dedrift.dedrift', 'integrate.integrate', 'integrate.spectrum', 'integrate.timeseries', 'Frame.from_data',
                    'Frame.check_waterfall', 'Spectrum.__init__', 'TimeSeries.__init__', 'Frame.__init__']
    ck.files = ['setigen/slice.py', 'setigen/dedrift.py', 'setigen/integrate.py', 'setigen/spectrum.py', 'setigen/timeseries.py', 'setigen/frame.py']
    ck.stubs = ['sigma_clip -> identity (normalisation outside the claim)']
    ck.assumptions = ['slice bounds 0 <= l < r <= fchans', 'de-drift on concrete dyadic geometries with the drift rate an arbitrary real up to one channel beyond the frame limit', 'exact reals', 'normalize=True: sigma clipping is the identity stub; claimed for vectors of non-zero variance on a 2x3 frame']
    shapes = [(1, 1), (2, 4), (3, 5)] if not ck.thorough else [(1, 1), (2, 4), (3, 5), (4, 8), (3, 6)]
    ck.bounds = dict(shapes=shapes, geometries='symbolic (slice, integrate) / dyadic g1,g2 (de-drift)')
    jobs = []
    for (T, Fc) in shapes:
        for asc in (False, True):
            jobs.append(('job_slice', (T, Fc, asc, None)))
            jobs.append(('job_integrate', (T, Fc, asc)))
            jobs.append(('job_integrate', (T, Fc, asc, 'slice')))
            for geom in (('g1',) if not ck.thorough else ('g1', 'g2')):
                for sign in (1, -1):
                    jobs.append(('job_dedrift', (T, Fc, asc, geom, sign, False)))
            jobs.append(('job_dedrift', (T, Fc, asc, 'g1', 1, True)))
            if T >= 2:
                jobs.append(('job_dedrift', (T, Fc, asc, 'g1', -1 if asc else 1, False, True)))
    for axis in ('t', 'f'):
        for mode in ('mean', 'sum'):
            jobs.append(('job_integrate_normalized', (2, 3, axis, mode)))
    ck.run_jobs('props.C17', jobs, timeout_s=1500)
    ck.finish()


if __name__ == '__main__':
    main()
