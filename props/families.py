"""C01 (families): every shipped path / profile factory's closure, executed on
symbolic arguments, equals its documented closed form over the same
uninterpreted transcendental functions."""
import math
import time

import numpy as np
import z3

from symx import core, npx
from symx.core import Sym, lift, UF, RV
from symx.report import q, cex
from props.frame_common import frame_patches, f_profiles, t_profiles, paths, bp_profiles, func_utils

FWHM_M = 2 * np.sqrt(2 * np.log(2))   # the documented FWHM factor 2*sqrt(2 ln 2)
TWO_PI = 2 * np.pi


def S(name):
    return Sym(z3.Real(name))


class RngStub:
    """numpy Generator stub: k-th draw of each kind is a fresh symbol"""

    def __init__(self, seed=None):
        self.n = 0
        self.draws = []

    def _draw(self, kind, size):
        if size is None:
            self.n += 1
            v = S(f'{kind}_{self.n}')
            self.draws.append((kind, v))
            return v
        shape = (size,) if isinstance(size, int) else tuple(size)
        a = np.empty(shape, dtype=object)
        for idx in np.ndindex(shape):
            self.n += 1
            a[idx] = S(f'{kind}_{self.n}')
            self.draws.append((kind, a[idx]))
        return a.view(npx.SymArr)

    def uniform(self, lo=0.0, hi=1.0, size=None):
        u = self._draw('U', size)
        return lo + (hi - lo) * u

    def normal(self, loc=0.0, scale=1.0, size=None):
        z = self._draw('Z', size)
        return loc + scale * z

    def standard_normal(self, size=None):
        return self._draw('Z', size)


def _times(n):
    return npx.sarr([S(f't{i}') for i in range(n)])


def fam_list():
    return ['constant_path', 'squared_path', 'sine_path', 'rfi_uniform_stationary', 'rfi_normal_walk',
            'constant_t', 'sine_t', 'box_f', 'gaussian_f', 'multiple_gaussian_f', 'lorentzian_f', 'voigt_f',
            'sinc2_f_trunc', 'sinc2_f_fwhm_notrunc', 'constant_bp', 'func_utils', 'periodic_gaussian_t', 'units']


def run_family(name):
    """-> (pre, pairs [(impl, spec)], inputs dict for payload)"""
    pre, pairs, inputs = [], [], {}
    proxy = npx.NPProxy(rng_factory=lambda seed: RngStub(seed))
    with frame_patches(proxy=proxy):
        if name in ('constant_path', 'squared_path', 'sine_path'):
            f0, d, per, amp = S('f_start'), S('drift'), S('period'), S('amp')
            t = _times(3)
            pre = [per.t != 0]
            if name == 'constant_path':
                out = paths.constant_path(f0, d)(t)
                spec = [lift(f0) + lift(d) * lift(x) for x in t]
            elif name == 'squared_path':
                out = paths.squared_path(f0, d)(t)
                spec = [lift(f0) + RV(0.5) * lift(d) * lift(x) * lift(x) for x in t]
            else:
                out = paths.sine_path(f0, d, per, amp)(t)
                spec = [lift(f0) + lift(amp) * UF('SIN')(RV(TWO_PI) * lift(x) / lift(per)) + lift(d) * lift(x) for x in t]
            pairs = list(zip(list(out), spec))
            inputs = dict(f_start=f0, drift=d, period=per, amp=amp, t=list(t))
        elif name.startswith('rfi_'):
            f0, d, spread = S('f_start'), S('drift'), S('spread')
            t = _times(3)
            st, rt = ('uniform', 'stationary') if name == 'rfi_uniform_stationary' else ('normal', 'random_walk')
            p = paths.simple_rfi_path(f0, d, spread, spread_type=st, rfi_type=rt, seed=5)
            out = p(t)
            draws = [z3.Real(f"{'U' if st == 'uniform' else 'Z'}_{k + 1}") for k in range(3)]
            if st == 'uniform':
                offs = [-lift(spread) / 2 + (lift(spread) / 2 - (-lift(spread) / 2)) * u for u in draws]
            else:
                offs = [(lift(spread) / RV(FWHM_M)) * z for z in draws]
            if rt == 'random_walk':
                offs = [sum(offs[1:k + 1], offs[0]) for k in range(3)]
            spec = [lift(f0) + lift(d) * lift(x) + o for x, o in zip(t, offs)]
            pairs = list(zip(list(out), spec))
            inputs = dict(f_start=f0, drift=d, spread=spread, t=list(t))
        elif name == 'constant_t':
            lv = S('level')
            t = _times(3)
            out = t_profiles.constant_t_profile(lv)(t)
            pairs = [(o, lift(lv)) for o in out]
            out2 = t_profiles.constant_t_profile(lv)(t[0])
            pairs.append((out2, lift(lv)))
            inputs = dict(level=lv, t=list(t))
        elif name == 'sine_t':
            per, ph, amp, lv = S('period'), S('phase'), S('amp'), S('level')
            pre = [per.t != 0]
            t = _times(3)
            out = t_profiles.sine_t_profile(per, ph, amp, lv)(t)
            spec = [lift(amp) * UF('SIN')(RV(TWO_PI) * (lift(x) + lift(ph)) / lift(per)) + lift(lv) for x in t]
            pairs = list(zip(list(out), spec))
            inputs = dict(period=per, phase=ph, amp=amp, level=lv, t=list(t))
        elif name.endswith('_f') or name.startswith('sinc2'):
            w = S('width')
            pre = [w.t > 0]
            f = npx.sarr([[S('f0'), S('f1')], [S('f2'), S('f3')]])
            fc = npx.sarr([[S('c0'), S('c0')], [S('c1'), S('c1')]])
            sig = lift(w) / RV(FWHM_M)
            gauss = lambda x, x0, s: UF('EXP')(-((x - x0) * (x - x0)) / (2 * (s * s)))
            if name == 'box_f':
                out = f_profiles.box_f_profile(w)(f, fc)
                spec = lambda x, c: z3.If(z3.If(x - c >= 0, x - c, c - x) < lift(w) / 2, RV(1), RV(0))
            elif name == 'gaussian_f':
                out = f_profiles.gaussian_f_profile(w)(f, fc)
                spec = lambda x, c: gauss(x, c, sig)
            elif name == 'multiple_gaussian_f':
                out = f_profiles.multiple_gaussian_f_profile(w)(f, fc)
                spec = lambda x, c: gauss(x, c - 100, sig) / 4 + gauss(x, c, sig) + gauss(x, c + 100, sig) / 4
            elif name == 'lorentzian_f':
                out = f_profiles.lorentzian_f_profile(w)(f, fc)
                spec = lambda x, c: 1 / (1 + ((x - c) / (lift(w) / 2)) * ((x - c) / (lift(w) / 2)))
            elif name == 'voigt_f':
                lw = S('l_width')
                pre = [w.t > 0, lw.t > 0]
                out = f_profiles.voigt_f_profile(w, lw)(f, fc)
                gam = lift(lw) / 2
                rt2 = RV(np.sqrt(2))
                V = lambda x, c: UF('WOFZ_RE', 2)(((x - c) / sig) / rt2, (gam / sig) / rt2)
                spec = lambda x, c: V(x, c) / V(c, c)
                inputs['l_width'] = lw
            elif name == 'sinc2_f_trunc':
                out = f_profiles.sinc2_f_profile(w)(f, fc)
                zc = lift(w) / 2

                def spec(x, c):
                    s = UF('SINC')((x - c) / zc)
                    return z3.If(z3.If(x - c >= 0, x - c, c - x) < zc, s * s, RV(0))
            else:
                out = f_profiles.sinc2_f_profile(w, width_mode='fwhm', trunc=False)(f, fc)
                zc = (lift(w) / 2) / RV(0.442946470689452)

                def spec(x, c):
                    s = UF('SINC')((x - c) / zc)
                    return s * s
            pairs = [(out[idx], spec(lift(f[idx]), lift(fc[idx]))) for idx in np.ndindex(f.shape)]
            inputs.update(dict(width=w, f=list(f.ravel()), fc=list(fc.ravel())))
        elif name == 'constant_bp':
            lv = S('level')
            out = bp_profiles.constant_bp_profile(lv)(_times(3))
            pairs = [(out, lift(lv))]
            out1 = bp_profiles.constant_bp_profile()(_times(2))
            pairs.append((out1, RV(1)))
            inputs = dict(level=lv)
        elif name == 'units':
            # every factory that documents unit-carrying parameters, called with quantities (MHz, kHz, kHz/s, ms) and
            # with the same values as plain SI numbers: the closures agree at arbitrary arguments
            from props.frame_common import SQ
            fM, dk, pms, ak, wk, w2k = S('f_start_MHz'), S('drift_kHz_s'), S('period_ms'), S('amp_kHz'), S('width_kHz'), S('width2_kHz')
            pre = [pms.t > 0, wk.t > 0, w2k.t > 0]
            f0, d, per, amp, w, w2 = fM * 1000000, dk * 1000, pms / 1000, ak * 1000, wk * 1000, w2k * 1000
            qf0, qd, qper, qamp, qw, qw2 = SQ(fM, 'MHz'), SQ(dk, 'kHz / s'), SQ(pms, 'ms'), SQ(ak, 'kHz'), SQ(wk, 'kHz'), SQ(w2k, 'kHz')
            t = _times(2)
            ff, fc = S('f'), S('f_center')
            with frame_patches(proxy=proxy, units=True):
                cases = [
                    ('constant_path', paths.constant_path(qf0, qd)(t), paths.constant_path(f0, d)(t)),
                    ('squared_path', paths.squared_path(qf0, qd)(t), paths.squared_path(f0, d)(t)),
                    ('sine_path', paths.sine_path(qf0, qd, qper, qamp)(t), paths.sine_path(f0, d, per, amp)(t)),
                    ('simple_rfi_path', paths.simple_rfi_path(qf0, qd, qw, spread_type='uniform', rfi_type='stationary', seed=5)(t),
                     paths.simple_rfi_path(f0, d, w, spread_type='uniform', rfi_type='stationary', seed=5)(t)),
                    ('sine_t_profile', t_profiles.sine_t_profile(qper, 0.25, 2.0, 3.0)(t), t_profiles.sine_t_profile(per, 0.25, 2.0, 3.0)(t)),
                    ('box_f_profile', [f_profiles.box_f_profile(qw)(ff, fc)], [f_profiles.box_f_profile(w)(ff, fc)]),
                    ('gaussian_f_profile', [f_profiles.gaussian_f_profile(qw)(ff, fc)], [f_profiles.gaussian_f_profile(w)(ff, fc)]),
                    ('multiple_gaussian_f_profile', [f_profiles.multiple_gaussian_f_profile(qw)(ff, fc)], [f_profiles.multiple_gaussian_f_profile(w)(ff, fc)]),
                    ('lorentzian_f_profile', [f_profiles.lorentzian_f_profile(qw)(ff, fc)], [f_profiles.lorentzian_f_profile(w)(ff, fc)]),
                    ('voigt_f_profile', [f_profiles.voigt_f_profile(qw, qw2)(ff, fc)], [f_profiles.voigt_f_profile(w, w2)(ff, fc)]),
                    ('sinc2_f_profile', [f_profiles.sinc2_f_profile(qw)(ff, fc)], [f_profiles.sinc2_f_profile(w)(ff, fc)]),
                ]
            for nm, a, b in cases:
                pairs += list(zip(list(a), list(b)))
            inputs = dict(f_start_MHz=fM, drift_kHz_s=dk, period_ms=pms, amp_kHz=ak, width_kHz=wk, width2_kHz=w2k)
        elif name == 'func_utils':
            x, x0, s, g = S('x'), S('x0'), S('sigma'), S('gamma')
            pre = [s.t > 0, g.t > 0]
            pairs.append((func_utils.gaussian(x, x0, s), UF('EXP')(-((x.t - x0.t) * (x.t - x0.t)) / (2 * (s.t * s.t)))))
            pairs.append((func_utils.lorentzian(x, x0, g), 1 / (1 + ((x.t - x0.t) / g.t) * ((x.t - x0.t) / g.t))))
            pairs.append((func_utils.voigt(x, x0, s, g), UF('WOFZ_RE', 2)(((x.t - x0.t) / s.t) / RV(np.sqrt(2)), (g.t / s.t) / RV(np.sqrt(2)))))
            # degenerate Voigt: sigma == 0 -> Lorentzian, gamma == 0 -> Gaussian (concrete zeros)
            pairs.append((func_utils.voigt(x, x0, 0, g), 1 / (1 + ((x.t - x0.t) / g.t) * ((x.t - x0.t) / g.t))))
            pairs.append((func_utils.voigt(x, x0, s, 0), UF('EXP')(-((x.t - x0.t) * (x.t - x0.t)) / (2 * (s.t * s.t)))))
            gw, lw = S('gw'), S('lw')
            r = func_utils.voigt_fwhm(gw, lw)
            rad = RV(0.2166) * lw.t * lw.t + gw.t * gw.t
            # sqrt is algebraic: result r satisfies (r - 0.5346 lw)^2 = rad and r - 0.5346 lw >= 0
            e = lift(r) - RV(0.5346) * lw.t
            pairs.append((Sym(z3.If(z3.And(e >= 0, e * e == rad), RV(0), RV(1))), RV(0)))
            inputs = dict(x=x, x0=x0, sigma=s, gamma=g, gw=gw, lw=lw)
        elif name == 'periodic_gaussian_t':
            # concrete times / period / phase (pulse bookkeeping needs concrete pulse indices);
            # symbolic pulse width, amplitude, level, floor, arrival offsets and sign draws
            pw, ow, amp, lv, ml = S('pulse_width'), S('offset_width'), S('amp'), S('level'), S('min_level')
            pre = [pw.t > 0]
            tt = np.array([0.0, 3.0, 7.5, 10.0])
            period, phase = 10.0, Sym(RV(1.0))
            prof = t_profiles.periodic_gaussian_t_profile(pw, period, phase=phase, pulse_offset_width=ow,
                                                          pulse_direction='rand', pnum=3, amplitude=amp,
                                                          level=lv, min_level=ml, seed=3)
            out = prof(tt)
            # specification: pulses k-1,k,k+1 around k = round((t+phase)/period - 1/4); pulse k centred at
            # (4k+1)/4*period - phase + offset_k; sign_k = +1 if u_k < 1/2 else -1; floor at min_level
            ks = np.round((tt + 1.0) / period - 0.25)
            uniq = sorted(set(float(k + d) for k in ks for d in (-1, 0, 1)))
            zs = {k: z3.Real(f'Z_{i + 1}') for i, k in enumerate(uniq)}
            us = {k: z3.Real(f'U_{len(uniq) + i + 1}') for i, k in enumerate(uniq)}
            sig_off = lift(ow) / RV(FWHM_M)
            sig_p = lift(pw) / RV(FWHM_M)
            spec = []
            for t_, k_ in zip(tt, ks):
                acc = RV(0)
                for d in (-1, 0, 1):
                    k = float(k_ + d)
                    cen = RV((4.0 * k + 1.0) / 4.0 * period - 1.0) + (RV(0) + sig_off * zs[k])
                    sgn = z3.If(RV(0) + (RV(1) - RV(0)) * us[k] < RV(0.5), RV(1), RV(-1))
                    x = RV(float(t_))
                    acc = acc + sgn * lift(amp) * UF('EXP')(-((x - cen) * (x - cen)) / (2 * (sig_p * sig_p)))
                v = acc + lift(lv)
                spec.append(z3.If(v > lift(ml), v, lift(ml)))
            pairs = list(zip(list(out), spec))
            inputs = dict(pulse_width=pw, offset_width=ow, amp=amp, level=lv, min_level=ml)
        else:
            raise KeyError(name)
    return pre, pairs, inputs


def job_family(name, tier):
    recs = []
    leaves_pairs = []

    def run():
        return run_family(name)
    leaves = core.explore(run, [], cap=300)
    conds = []
    for li, leaf in enumerate(leaves):
        qn = f"C01:family:{name}:leaf{li}"
        if leaf.kind == 'exc':
            recs.append(q(qn, 'sat', detail=f"raised {type(leaf.value).__name__}: {leaf.value}"))
            recs.append(cex(f"C01:family:{name}:raise", f"{name} raised {leaf.value!r}", dict(fn='family', name=name, vals={}), name=qn))
            continue
        pre, pairs, inputs = leaf.value
        conds.append(leaf.cond())
        dis = [lift(a) != lift(b) for a, b in pairs]
        asser = pre + leaf.pc + leaf.side + [z3.Or(*dis)]
        t0 = time.time()
        r, m = core.check(asser, timeout_ms=60000)
        recs.append(q(qn, r, ms=(time.time() - t0) * 1000, terms=len(dis)))
        if r == 'sat':
            vals = {}
            for k, v in inputs.items():
                vals[k] = [core.model_float(m, e) for e in v] if isinstance(v, list) else core.model_float(m, v)
            recs.append(cex(f"C01:family:{name}", f"{name} closure differs from its documented formula", dict(fn='family', name=name, vals=vals), name=qn))
    # vacuity twin: on some reachable path a deliberately wrong formula must be refuted
    twin = 'unsat'
    for leaf in leaves:
        if leaf.kind != 'ok':
            continue
        pre, pairs, _ = leaf.value
        r, _ = core.check(pre + leaf.pc + leaf.side + [lift(pairs[0][0]) != lift(pairs[0][1]) + 1], timeout_ms=30000)
        if r == 'sat':
            twin = 'sat'
            break
    recs.append(q(f"C01:family:{name}:twin", twin, expect='sat'))
    return recs


def jobs(tier):
    return [('job_family', (n, tier)) for n in fam_list()]


# ------------------------------------------------------------- concrete oracle
def replay_family(p):
    """on the solver's inputs, then -- for frequency profiles -- on a grid that does not contain the line centre
    (a profile must be a pointwise function of (f, f_center): evaluating it on other columns must not change it)"""
    bad, msg = _replay_family(p)
    v = p.get('vals') or {}
    if not bad and (p['name'].endswith('_f') or p['name'].startswith('sinc2')) and v.get('width') and 'fc' in v:
        w = float(v['width'])
        fc0 = float(np.ravel(v['fc'])[0])
        for offs in ([0.3, 0.9, 2.1, -1.4], [0.45], [-0.2, 0.0, 0.2]):
            v2 = dict(v, f=[fc0 + w * o for o in offs], fc=[fc0] * len(offs))
            bad, msg = _replay_family(dict(p, vals=v2))
            if bad:
                return bad, f"on columns at {offs} widths from the centre: {msg}"
    return bad, msg


def _replay_family(p):
    import setigen as stg
    from scipy.special import wofz
    name, v = p['name'], p['vals']
    if name == 'units':
        import astropy.units as u
        t = np.array([0.0, 3.5, 11.0])
        f, fc = np.linspace(990.0, 1010.0, 9), 1000.0
        cases = [
            ('constant_path', stg.constant_path(1e-3 * u.MHz, 2e-3 * u.kHz / u.s)(t), stg.constant_path(1e3, 2.0)(t)),
            ('squared_path', stg.squared_path(1e-3 * u.MHz, 2e-3 * u.kHz / u.s)(t), stg.squared_path(1e3, 2.0)(t)),
            ('sine_path', stg.sine_path(1e-3 * u.MHz, 2e-3 * u.kHz / u.s, 7000 * u.ms, 0.004 * u.kHz)(t), stg.sine_path(1e3, 2.0, 7.0, 4.0)(t)),
            ('simple_rfi_path', stg.simple_rfi_path(1e-3 * u.MHz, 2e-3 * u.kHz / u.s, 0.006 * u.kHz, seed=5)(t), stg.simple_rfi_path(1e3, 2.0, 6.0, seed=5)(t)),
            ('sine_t_profile', stg.sine_t_profile(7000 * u.ms, 0.25, 2.0, 3.0)(t), stg.sine_t_profile(7.0, 0.25, 2.0, 3.0)(t)),
            ('periodic_gaussian_t_profile', stg.periodic_gaussian_t_profile(pulse_width=2000 * u.ms, period=7000 * u.ms, phase=0.5, pulse_offset_width=100 * u.ms, pulse_direction='up', pnum=2, amplitude=1.0, level=0.1, seed=3)(t),
             stg.periodic_gaussian_t_profile(pulse_width=2.0, period=7.0, phase=0.5, pulse_offset_width=0.1, pulse_direction='up', pnum=2, amplitude=1.0, level=0.1, seed=3)(t)),
        ]
        for nm in ('box_f_profile', 'gaussian_f_profile', 'multiple_gaussian_f_profile', 'lorentzian_f_profile', 'sinc2_f_profile'):
            cases.append((nm, getattr(stg, nm)(0.006 * u.kHz)(f, fc), getattr(stg, nm)(6.0)(f, fc)))
        cases.append(('voigt_f_profile', stg.voigt_f_profile(0.006 * u.kHz, 3e-6 * u.MHz)(f, fc), stg.voigt_f_profile(6.0, 3.0)(f, fc)))
        bad = [nm for nm, a, b in cases if not np.allclose(a, b, rtol=1e-9, atol=1e-12)]
        return bool(bad), f"factories giving other values for unit-carrying than for plain SI arguments: {bad}" if bad else 'unit-carrying factory arguments agree with plain numbers'
    if not v:
        return False, 'no concrete inputs recorded'
    fw = 2 * math.sqrt(2 * math.log(2))
    g = lambda x, c, s: np.exp(-(x - c) ** 2 / (2 * s ** 2))
    t = np.array(v.get('t', [0.0]))
    try:
        if name == 'constant_path':
            got, want = stg.constant_path(v['f_start'], v['drift'])(t), v['f_start'] + v['drift'] * t
        elif name == 'squared_path':
            got, want = stg.squared_path(v['f_start'], v['drift'])(t), v['f_start'] + 0.5 * v['drift'] * t ** 2
        elif name == 'sine_path':
            got = stg.sine_path(v['f_start'], v['drift'], v['period'], v['amp'])(t)
            want = v['f_start'] + v['amp'] * np.sin(2 * np.pi * t / v['period']) + v['drift'] * t
        elif name == 'constant_t':
            got, want = stg.constant_t_profile(v['level'])(t), np.full(t.shape, v['level'])
        elif name == 'sine_t':
            got = stg.sine_t_profile(v['period'], v['phase'], v['amp'], v['level'])(t)
            want = v['amp'] * np.sin(2 * np.pi * (t + v['phase']) / v['period']) + v['level']
        elif name == 'constant_bp':
            got, want = np.array([stg.constant_bp_profile(v['level'])(t)]), np.array([v['level']])
        elif name.endswith('_f') or name.startswith('sinc2'):
            f, fc, w = np.array(v['f']), np.array(v['fc']), v['width']
            s = w / fw
            if name == 'box_f':
                got, want = stg.box_f_profile(w)(f, fc), (np.abs(f - fc) < w / 2).astype(float)
            elif name == 'gaussian_f':
                got, want = stg.gaussian_f_profile(w)(f, fc), g(f, fc, s)
            elif name == 'multiple_gaussian_f':
                got, want = stg.multiple_gaussian_f_profile(w)(f, fc), g(f, fc - 100, s) / 4 + g(f, fc, s) + g(f, fc + 100, s) / 4
            elif name == 'lorentzian_f':
                got, want = stg.lorentzian_f_profile(w)(f, fc), 1 / (1 + ((f - fc) / (w / 2)) ** 2)
            elif name == 'voigt_f':
                gam = v['l_width'] / 2
                V = lambda x, c: np.real(wofz(((x - c) + 1j * gam) / s / np.sqrt(2)))
                got, want = stg.voigt_f_profile(w, v['l_width'])(f, fc), V(f, fc) / V(fc, fc)
            elif name == 'sinc2_f_trunc':
                zc = w / 2
                got, want = stg.sinc2_f_profile(w)(f, fc), np.where(np.abs(f - fc) < zc, np.sinc((f - fc) / zc), 0) ** 2
            else:
                zc = (w / 2) / 0.442946470689452
                got, want = stg.sinc2_f_profile(w, width_mode='fwhm', trunc=False)(f, fc), np.sinc((f - fc) / zc) ** 2
        else:
            return False, f'family {name}: no concrete oracle (rng-dependent); counterexample not replayable'
    except Exception as e:
        return True, f"{name} raised {type(e).__name__}: {e}"
    got = np.asarray(got, dtype=float)
    ok = got.shape == np.asarray(want).shape and np.allclose(got, want, rtol=1e-9, atol=1e-12)
    return (not ok), f"{name}: got {got!r} want {np.asarray(want)!r}"
