"""C11 -- synthetic noise: requested distribution parameters and consistent SNR bookkeeping.

That NumPy's chisquare / normal samplers have their documented moments is a statistical fact about compiled code and
is trusted.  What setigen does with the draws is affine bookkeeping, decided here (E1, draws as terms):
 chi2(...) == X * x_mean / k with k = 4*round(df*dt) (hence mean x_mean and variance 2 x_mean^2/k from E X = k, Var X = 2k),
 reported deviation squared == 2 x_mean^2 / k, gaussian == x_mean + x_std*Z, truncated >= floor for EVERY draw,
 returned array == data_after - data_before, table sampling uses table entries (one common index when shared),
 first-noise estimates == requested parameters (else a re-estimate is made), intensity/SNR inverse relations,
 stream deviations add in quadrature including the array background.
"""
import time

import numpy as np
import z3

from symx import core, npx, shadow
from symx.core import Sym, lift, RV
from symx.report import Check, q, cex, note
from props.frame_common import F as FR, frame_patches, sym_data, geom_syms
from props.volt_common import DS, A, volt_patches
from props.C12 import Gen, factory, DRAW, KINDS, ENTROPY
from setigen import distributions as DIST, sample_from_obs as SFO


def proxy():
    return npx.NPProxy(rng_factory=factory)


class ClipSpy:
    def __init__(self):
        self.calls = 0

    def __call__(self, data, *a, **k):
        self.calls += 1
        return data


def patches(px, spy):
    return frame_patches(proxy=px, extra=[(DIST, dict(np=px)), (SFO, dict(np=px, **shadow.DEFAULT_BUILTINS)), (FR, dict(sigma_clip=spy))])


def draw(kind, seed, k):
    return DRAW(RV(KINDS[kind]), RV(seed), RV(k))


def job_add_noise(T, Fc, ntype, prior):
    """prior: 'zero' (fresh frame), 'content' (symbolic prior data and estimates), 'zeroed' (after zero_data)"""
    recs = []
    tag = f"C11:add_noise:{(T, Fc, ntype, prior)}"
    if ntype == 'chi2':
        df, dt, fch1, pre = geom_syms()       # degrees of freedom 4*round(df*dt) for every resolution
        pre = pre + [df.t * dt.t >= 1]
    else:
        df, dt, fch1, pre = Sym(RV(2.0)), Sym(RV(4.0)), Sym(RV(4096.0)), []
    xm, xs, xmin = Sym(z3.Real('x_mean')), Sym(z3.Real('x_std')), Sym(z3.Real('x_min'))
    pre = pre + [xs.t >= 0]
    D = sym_data(T, Fc)
    spy = ClipSpy()
    pl = dict(fn='add_noise', T=T, Fc=Fc, ntype=ntype, prior=prior)

    def run():
        spy.calls = 0
        fr = FR.Frame(fchans=Fc, tchans=T, df=df, dt=dt, fch1=fch1, seed=17)
        if prior == 'content':
            fr.data = D.copy()
            fr.noise_mean, fr.noise_std = Sym(z3.Real('nm0')), Sym(z3.Real('ns0'))
        elif prior in ('zeroed', 'zeroed_int'):
            fr.data = D.copy()
            if prior == 'zeroed_int':
                # the frame held integer-typed data (counts) before it was emptied: emptied means float zeros again
                fr.data = fr.data.astype(npx.SymDType('i'))
            fr.noise_mean, fr.noise_std = Sym(z3.Real('nm0')), Sym(z3.Real('ns0'))
            fr.zero_data()
        before = fr.data.copy()
        calls0 = spy.calls
        if ntype == 'chi2':
            n = fr.add_noise(xm)
        elif ntype == 'gaussian':
            n = fr.add_noise(xm, xs, noise_type='gaussian')
        else:
            n = fr.add_noise(xm, xs, xmin, noise_type='normal')
        return fr, n, before, spy.calls - calls0
    px = proxy()
    with patches(px, spy):
        leaves = core.explore(run, pre, cap=40)
    conds = []
    for li, leaf in enumerate(leaves):
        conds.append(leaf.cond())
        name = f"{tag}:leaf{li}"
        base = pre + leaf.pc + leaf.side
        if leaf.kind == 'exc':
            r, m = core.check(base)
            recs.append(q(name, r, detail=repr(leaf.value)))
            if r == 'sat':
                recs.append(cex('C11:add_noise:raise', f'add_noise raised {leaf.value!r}', pl, name=name))
            continue
        fr, n, before, reest = leaf.value
        k = 4 * lift(core.rne(Sym(df.t * dt.t)))
        dis = []
        if n.shape != (T, Fc):
            dis.append(z3.BoolVal(True))
        else:
            idx = 0
            for i in range(T):
                for j in range(Fc):
                    nv = lift(n[i, j])
                    if ntype == 'chi2':
                        dis.append(z3.simplify(nv - draw('chisq', 17, idx) * xm.t / k, som=True) != 0)
                    elif ntype == 'gaussian':
                        dis.append(z3.simplify(nv - (xm.t + xs.t * draw('normal', 17, idx)), som=True) != 0)
                    else:
                        g = xm.t + xs.t * draw('normal', 17, idx)
                        dis.append(nv != z3.If(g > xmin.t, g, xmin.t))
                        dis.append(nv < xmin.t)                               # never below the floor
                    dis.append(z3.simplify(lift(fr.data[i, j]) - lift(before[i, j]) - nv, som=True) != 0)   # returned == added
                    idx += 1
        dis.append(lift(fr.chi2_df) != k)
        first = prior in ('zero', 'zeroed', 'zeroed_int')
        if first:
            dis.append(lift(fr.noise_mean) != xm.t)
            if ntype == 'chi2':
                dis.append(lift(fr.noise_std) * lift(fr.noise_std) * k != 2 * xm.t * xm.t)     # std^2 = 2 x_mean^2 / k
            else:
                dis.append(lift(fr.noise_std) != xs.t)
        dis = [d for d in dis if not z3.is_false(z3.simplify(d))]
        r, m = core.check(base + ([z3.Or(*dis)] if dis else [z3.BoolVal(False)]), timeout_ms=120000)
        recs.append(q(name, r))
        if r == 'sat':
            mf = lambda t: core.model_float(m, t)
            pl2 = dict(pl, x_mean=mf(xm), x_std=mf(xs), x_min=mf(xmin), df=mf(df), dt=mf(dt))
            recs.append(cex(f"C11:add_noise:{ntype}:{'floor' if ntype == 'truncated' else 'value'}", f'{ntype} noise: value / floor / returned==added / estimates obligation fails', pl2, name=name))
        # re-estimate made exactly when this is not the first noise (set_to_param decided on symbolic estimates forks)
        if not first:
            zero_case, _ = core.check(base + [z3.Real('nm0') == 0, z3.Real('ns0') == 0])
            want = 0 if zero_case == 'sat' and core.check(base + [z3.Or(z3.Real('nm0') != 0, z3.Real('ns0') != 0)])[0] == 'unsat' else 1
        else:
            want = 0
        rr, _ = core.check([RV(reest) != want])
        recs.append(q(name + ':re-estimate-iff-not-first', rr, trivial=True, detail=f"{reest} sigma_clip calls"))
        if rr == 'sat':
            _, mm = core.check(base)
            pri = [core.model_float(mm, z3.Real('nm0')), core.model_float(mm, z3.Real('ns0'))] if mm is not None else [5.0, 0.0]
            recs.append(cex('C11:add_noise:estimates', f'noise estimates: {reest} re-estimates, expected {want}', dict(pl, prior_estimates=pri), name=name + ':re-estimate-iff-not-first'))
    r, _ = core.check(pre + [z3.Not(z3.Or(*conds))])
    recs.append(q(f"{tag}:split-complete", r, leaves=len(leaves)))
    return recs


def job_errors():
    recs = []
    px = proxy()
    with patches(px, ClipSpy()):
        fr = FR.Frame(fchans=2, tchans=2, df=2.0, dt=4.0, fch1=4096.0, seed=1)
        outcomes = []
        for kw in (dict(x_mean=1.0, noise_type='gaussian'), dict(x_mean=1.0, noise_type='bogus'), dict(x_mean=1.0, x_std=1.0, noise_type='poisson')):
            try:
                fr.add_noise(**kw)
                outcomes.append('accepted')
            except ValueError:
                outcomes.append('ValueError')
        for kw in (dict(x_mean_array=np.array([1.0, 2.0]), x_std_array=np.array([1.0]), noise_type='gaussian', share_index=True),
                   dict(x_mean_array=np.array([1.0, 2.0]), x_std_array=np.array([1.0, 2.0]), x_min_array=np.array([1.0]), noise_type='gaussian', share_index=True)):
            try:
                fr.add_noise_from_obs(**kw)
                outcomes.append('accepted')
            except IndexError:
                outcomes.append('IndexError')
    ok = outcomes == ['ValueError', 'ValueError', 'ValueError', 'IndexError', 'IndexError']
    r, _ = core.check([RV(int(ok)) != 1])
    recs.append(q("C11:errors", r, trivial=True, detail=str(outcomes)))
    if not ok:
        recs.append(cex('C11:errors', f'invalid requests: {outcomes}', dict(fn='errors'), name="C11:errors"))
    return recs


def job_from_obs(ntype, share, with_min, nlen):
    recs = []
    tag = f"C11:from_obs:{(ntype, share, with_min, nlen)}"
    T, Fc = 1, 2
    means = npx.sarr([Sym(z3.Real(f'tm_{i}')) for i in range(nlen)])
    stds = npx.sarr([Sym(z3.Real(f'ts_{i}')) for i in range(nlen)])
    mins = npx.sarr([Sym(z3.Real(f'tn_{i}')) for i in range(nlen)])
    pre = [lift(s) >= 0 for s in stds]
    D = sym_data(T, Fc)
    pl = dict(fn='from_obs', ntype=ntype, share=share, with_min=with_min, nlen=nlen)

    def run():
        fr = FR.Frame(fchans=Fc, tchans=T, df=2.0, dt=4.0, fch1=4096.0, seed=17)
        fr.data = D.copy()
        fr.noise_mean, fr.noise_std = Sym(RV(1)), Sym(RV(1))
        n = fr.add_noise_from_obs(means, stds, mins if with_min else None, share_index=share, noise_type=ntype)
        return fr, n, fr.rng.k
    px = proxy()
    with patches(px, ClipSpy()):
        leaves = core.explore(run, pre, cap=200)
    k = 4 * round(2.0 * 4.0)
    conds = []
    leaf_alts = []
    for li, leaf in enumerate(leaves):
        conds.append(leaf.cond())
        name = f"{tag}:leaf{li}"
        base = pre + leaf.pc + leaf.side
        if leaf.kind == 'exc':
            r, m = core.check(base)
            recs.append(q(name, r, detail=repr(leaf.value)))
            if r == 'sat':
                recs.append(cex('C11:from_obs:raise', f'add_noise_from_obs raised {leaf.value!r}', pl, name=name))
            continue
        fr, n, ndraws = leaf.value
        # the noise must be expressible with table entries: exists indices (a, b, c) such that ... -- quantified by
        # enumerating the finite index combinations inside one formula
        alts = []          # (indices used {table: i}, formula)
        nv = [lift(n[0, j]) for j in range(Fc)]
        npix = T * Fc
        first_pixel_draw = ndraws - npix
        for a in range(nlen):
            if ntype == 'chi2':
                alts.append(({'mean': a}, z3.And(*[nv[j] == draw('chisq', 17, first_pixel_draw + j) * lift(means[a]) / k for j in range(Fc)])))
                continue
            for b in (range(nlen) if not share else [a]):
                for c in ((range(nlen) if not share else [a]) if with_min else [None]):
                    cand_means = [('mean', lift(means[a]))] if share else [('mean', lift(means[a])), ('std-as-mean', lift(stds[b]))]          # no-share: mean = max(mean entry, std entry)
                    for which, mu in cand_means:
                        cond = []
                        for j in range(Fc):
                            g = mu + lift(stds[b]) * draw('normal', 17, first_pixel_draw + j)
                            cond.append(nv[j] == (z3.If(g > lift(mins[c]), g, lift(mins[c])) if with_min else g))
                        used = {'std': b}
                        if which == 'mean':
                            used['mean'] = a
                        if c is not None:
                            used['min'] = c
                        alts.append((used, z3.And(*cond)))
        leaf_alts.append((base, alts))
        dis = [z3.Not(z3.Or(*[f for _, f in alts]))]
        for j in range(Fc):
            dis.append(lift(fr.data[0, j]) - lift(D[0, j]) != nv[j])
        r, m = core.check(base + [z3.Or(*dis)], timeout_ms=120000)
        recs.append(q(name, r, alternatives=len(alts)))
        if r == 'sat':
            recs.append(cex(f"C11:from_obs:{'share' if share else 'noshare'}", 'noise sampled from tables is not built from table entries (one common index when shared) / returned != added', pl, name=name))
    # sampling FROM the table: every entry of every table can be the one that is used (generic, pairwise distinct entries)
    tabs = {'mean': means, 'std': stds, 'min': mins}
    generic = []
    for tb in tabs.values():
        generic += [lift(tb[i]) != lift(tb[j]) for i in range(nlen) for j in range(i)] + [lift(e) > 0 for e in tb]
    generic += [lift(x) != lift(y) for x in means for y in stds]
    generic += [draw('chisq' if ntype == 'chi2' else 'normal', 17, kk) > 1 for kk in range(0, 12)]
    generic += [draw('normal', 17, kk) != draw('normal', 17, kk2) for kk in range(12) for kk2 in range(kk)]
    used_tabs = ['mean'] if ntype == 'chi2' else (['mean', 'std'] + (['min'] if with_min else []))
    for tb in used_tabs:
        for i in range(nlen):
            reached = False
            for base, alts in leaf_alts:
                others = [f for u, f in alts if u.get(tb) != i]
                for u, f in alts:
                    if u.get(tb) == i:
                        # this entry explains the noise and no combination avoiding it does
                        r, _ = core.check(base + generic + [f] + [z3.Not(o) for o in others], timeout_ms=60000)
                        if r == 'sat':
                            reached = True
                            break
                if reached:
                    break
            recs.append(q(f"{tag}:entry-selectable:{tb}[{i}]", 'sat' if reached else 'unsat', expect='sat'))
            if not reached:
                recs.append(cex('C11:from_obs:entry-never-used', f"entry {i} of the {tb} table (length {nlen}) can never be the one sampled", pl, name=f"{tag}:entry-selectable:{tb}[{i}]"))
    sides = [c for leaf in leaves for c in leaf.side]
    r, _ = core.check(pre + sides + [z3.Not(z3.Or(*conds))])
    recs.append(q(f"{tag}:split-complete", r, leaves=len(leaves)))
    return recs


def job_snr(T):
    recs = []
    ns, snr, inten = Sym(z3.Real('noise_std')), Sym(z3.Real('snr')), Sym(z3.Real('intensity'))
    px = proxy()
    pre = []
    with patches(px, ClipSpy()):
        def run():
            fr = FR.Frame(fchans=2, tchans=T, df=2.0, dt=4.0, fch1=4096.0, seed=1)
            fr.noise_std = ns
            out = {}
            for nm, f, arg in (('I', fr.get_intensity, snr), ('S', fr.get_snr, inten)):
                try:
                    out[nm] = f(arg)
                except ValueError as e:
                    out[nm] = e
            if not isinstance(out['I'], Exception):
                out['SI'] = fr.get_snr(out['I'])
                out['IS'] = fr.get_intensity(out['S'])
            return out
        leaves = core.explore(run, pre, cap=8)
    conds = []
    for li, leaf in enumerate(leaves):
        conds.append(leaf.cond())
        out = leaf.value
        base = leaf.pc + leaf.side
        name = f"C11:snr:{T}:leaf{li}"
        if isinstance(out['I'], Exception) or isinstance(out['S'], Exception):
            r, m = core.check(base + [ns.t != 0])
            recs.append(q(name + ':raises-iff-no-noise', r))
            if r == 'sat':
                recs.append(cex('C11:snr', 'get_intensity / get_snr raise although noise_std != 0', dict(fn='snr', T=T), name=name + ':raises-iff-no-noise'))
            continue
        rt = RV(T ** 0.5)
        dis = [ns.t == 0, z3.simplify(lift(out['I']) * rt - snr.t * ns.t, som=True) != 0, z3.simplify(lift(out['S']) * ns.t - inten.t * rt, som=True) != 0,
               lift(out['SI']) != snr.t, lift(out['IS']) != inten.t]
        r, m = core.check(base + [z3.Or(*dis)], timeout_ms=60000)
        recs.append(q(name, r))
        if r == 'sat':
            recs.append(cex('C11:snr', 'intensity(snr) = snr*noise_std/sqrt(tchans) / snr(intensity) inverse relation fails', dict(fn='snr', T=T), name=name))
    r, _ = core.check([z3.Not(z3.Or(*conds))])
    recs.append(q(f"C11:snr:{T}:split-complete", r))
    return recs


def job_quadrature(seq):
    """seq: string over 's' (stream add_noise) and 'b' (background add_noise), length <= 3"""
    recs = []
    px = proxy()
    vs = [Sym(z3.Real(f'v_std_{i}')) for i in range(len(seq))]
    pre = [v.t >= 0 for v in vs]
    with volt_patches(proxy=px):
        def run():
            arr = A.MultiAntennaArray(2, sample_rate=1024.0, num_pols=1, delays=[0, 1], seed=3)
            st = arr.antennas[0].x
            other = arr.antennas[1].x
            for i_, (c, v) in enumerate(zip(seq, vs)):
                # (noise sources may ride on a non-zero mean: a DC offset is not noise power)
                (st if c == 's' else arr.bg_x).add_noise(Sym(z3.Real(f'v_mean_{i_}')), v)
            return st.get_total_noise_std(), other.get_total_noise_std()
        leaf = core.run_single(run, pre)
    tot, tot_other = leaf.value
    want = sum([v.t * v.t for v in vs], RV(0))
    want_other = sum([v.t * v.t for c, v in zip(seq, vs) if c == 'b'], RV(0))
    r, m = core.check(pre + leaf.side + [z3.Or(lift(tot) * lift(tot) != want, lift(tot) < 0, lift(tot_other) * lift(tot_other) != want_other)], timeout_ms=60000)
    recs.append(q(f"C11:quadrature:{seq}", r))
    if seq == 's':
        rt, _ = core.check(pre + leaf.side + [lift(tot) != 0])
        recs.append(q("C11:quadrature:twin", rt, expect='sat'))
    if r == 'sat':
        recs.append(cex('C11:quadrature', f'total noise deviation is not the quadrature sum after add_noise sequence {seq}', dict(fn='quadrature', seq=seq), name=f"C11:quadrature:{seq}"))
    return recs


OBS_DT = 1.4316557653333333
SMALL_TABLE = np.array([[1.0, 0.1, 0.5], [2.0, 0.2, 0.6], [3.5, 0.3, 0.7]])


def job_default_tables(ntype, dts):
    """add_noise_from_obs() without tables: the packaged observation tables (here a 3-row stand-in returned by np.load),
    scaled to EACH frame's own time resolution; frames of different dt in one session"""
    recs = []
    tag = f"C11:default-tables:{(ntype, tuple(dts))}"

    class PX(npx.NPProxy):
        def load(self, *a, **k):
            return SMALL_TABLE.copy()
    px = PX(rng_factory=factory)

    def run():
        out = []
        for dt_ in dts:
            fr = FR.Frame(fchans=2, tchans=1, df=2.0, dt=dt_, fch1=4096.0, seed=17)
            fr.add_noise_from_obs(noise_type=ntype)
            out.append((fr.noise_mean, fr.noise_std))
        return out
    with patches(px, ClipSpy()):
        leaves = core.explore(run, [], cap=200)
    conds = []
    for li, leaf in enumerate(leaves):
        conds.append(leaf.cond())
        name = f"{tag}:leaf{li}"
        base = leaf.pc + leaf.side
        if leaf.kind == 'exc':
            r, m = core.check(base)
            recs.append(q(name, r, detail=repr(leaf.value)))
            if r == 'sat':
                recs.append(cex('C11:default-tables:raise', f'add_noise_from_obs() raised {leaf.value!r}', dict(fn='default_tables', ntype=ntype, dts=list(dts)), name=name))
            continue
        dis = []
        for dt_, (nm, ns) in zip(dts, leaf.value):
            sc = RV(dt_) / RV(OBS_DT)
            means = [RV(v) * sc for v in SMALL_TABLE[:, 0]]
            stds = [RV(v) * sc for v in SMALL_TABLE[:, 1]]
            far = lambda a, b: z3.Or(a - b > RV(1e-12) * b, b - a > RV(1e-12) * b)        # the scaling is one binary64 product
            if ntype == 'chi2':
                dis.append(z3.And(*[far(lift(nm), mv) for mv in means]))
            else:
                dis.append(z3.And(*[far(lift(nm), mv) for mv in means + stds]))
                dis.append(z3.And(*[far(lift(ns), sv) for sv in stds]))
        r, m = core.check(base + [z3.Or(*dis)], timeout_ms=60000)
        recs.append(q(name, r))
        if r == 'sat':
            recs.append(cex('C11:default-tables', f'with the packaged tables, a frame (dt in {dts}) records noise parameters that are not table entries scaled to its own dt', dict(fn='default_tables', ntype=ntype, dts=list(dts)), name=name))
    sides = [c for leaf in leaves for c in leaf.side]
    r, _ = core.check(sides + [z3.Not(z3.Or(*conds))] if conds else [])
    recs.append(q(f"{tag}:split-complete", r, leaves=len(leaves)))
    return recs


def replay_default_tables(p):
    import pathlib
    import setigen as stg
    tab = np.load(pathlib.Path(stg.__file__).parent / 'assets' / 'sample_noise_params.npy')
    msgs = []
    for k, dt_ in enumerate(list(p['dts']) + [1.4316557653333333, 36.5]):
        fr = stg.Frame(fchans=8, tchans=4, df=2.0, dt=dt_, fch1=4096.0, seed=k)
        fr.add_noise_from_obs(noise_type=p['ntype'])
        sc = dt_ / 1.4316557653333333
        cols = [tab[:, 0] * sc] if p['ntype'] == 'chi2' else [tab[:, 0] * sc, tab[:, 1] * sc]
        if not any(np.any(np.isclose(c, fr.noise_mean, rtol=1e-12, atol=0)) for c in cols):
            msgs.append(f"frame {k} (dt={dt_}): recorded mean {fr.noise_mean!r} is not an entry of the packaged table scaled by dt/obs_dt = {sc!r}")
    return bool(msgs), '; '.join(msgs[:2]) or 'packaged tables are scaled to each frame'


def job_quadrature_pols(order):
    """two polarisations, two antennas: noise added to one polarisation's background (and to single streams) reaches
    exactly the streams of that polarisation; order = sequence over 'X','Y' (background x / y) and 'a','b' (own streams)"""
    recs = []
    px = proxy()
    vs = [Sym(z3.Real(f'v_std_{i}')) for i in range(len(order))]
    pre = [v.t >= 0 for v in vs]
    with volt_patches(proxy=px):
        def run():
            arr = A.MultiAntennaArray(2, sample_rate=1024.0, num_pols=2, delays=[0, 1], seed=3)
            tgt = {'X': arr.bg_x, 'Y': arr.bg_y, 'a': arr.antennas[0].x, 'b': arr.antennas[1].y}
            for i_, (c, v) in enumerate(zip(order, vs)):
                tgt[c].add_noise(Sym(z3.Real(f'v_mean_{i_}')), v)
            return [[ant.x.get_total_noise_std(), ant.y.get_total_noise_std()] for ant in arr.antennas]
        leaf = core.run_single(run, pre)
    tot = leaf.value
    dis = []
    for ai in range(2):
        for pi, pol in enumerate('XY'):
            want = sum([v.t * v.t for c, v in zip(order, vs) if c == pol or (c == 'a' and (ai, pi) == (0, 0)) or (c == 'b' and (ai, pi) == (1, 1))], RV(0))
            dis += [lift(tot[ai][pi]) * lift(tot[ai][pi]) != want, lift(tot[ai][pi]) < 0]
    r, m = core.check(pre + leaf.side + [z3.Or(*dis)], timeout_ms=60000)
    recs.append(q(f"C11:quadrature-pols:{order}", r))
    if r == 'sat':
        recs.append(cex('C11:quadrature:pols', f'after the add_noise sequence {order} a stream\'s total deviation is not its own noise and its own polarisation\'s background in quadrature', dict(fn='quadrature_pols', order=order), name=f"C11:quadrature-pols:{order}"))
    return recs


def replay_quadrature_pols(p):
    from setigen.voltage import antenna as an
    arr = an.MultiAntennaArray(2, sample_rate=1024.0, num_pols=2, delays=[0, 1], seed=3)
    tgt = {'X': arr.bg_x, 'Y': arr.bg_y, 'a': arr.antennas[0].x, 'b': arr.antennas[1].y}
    vs = [1.5, 0.7, 2.0, 0.3][:len(p['order'])]
    for i_, (c, v) in enumerate(zip(p['order'], vs)):
        tgt[c].add_noise((3.0, -1.5, 0.0, 7.0)[i_], v)
    msgs = []
    for ai, ant in enumerate(arr.antennas):
        for pi, (pol, st) in enumerate(zip('XY', (ant.x, ant.y))):
            want = np.sqrt(sum(v * v for c, v in zip(p['order'], vs) if c == pol or (c == 'a' and (ai, pi) == (0, 0)) or (c == 'b' and (ai, pi) == (1, 1))))
            if not np.isclose(st.get_total_noise_std(), want):
                msgs.append(f"antenna {ai} pol {pol}: total {st.get_total_noise_std()!r}, expected {want!r}")
    return bool(msgs), f"sequence {p['order']}: " + ('; '.join(msgs) or 'per-polarisation quadrature sums ok')


# ------------------------------------------------------------------ concrete oracles
LARGE = (17, 70001)          # more than 2**20 samples, odd sizes


def _large_noise(ntype):
    """a frame of more than a million samples (executed concretely): the noise added is the seeded generator's draws for
    the WHOLE frame, mapped as documented -- block-wise drawing must not leave rows out"""
    import setigen as stg
    T, Fc = LARGE
    fr = stg.Frame(fchans=Fc, tchans=T, df=2.0, dt=4.0, fch1=4096.0, seed=17)
    ref = np.random.default_rng(17)
    k = 4 * round(2.0 * 4.0)
    if ntype == 'chi2':
        n = fr.add_noise(3.0)
        want = ref.chisquare(df=k, size=(T, Fc)) * 3.0 / k
    elif ntype == 'gaussian':
        n = fr.add_noise(3.0, 1.0, noise_type='gaussian')
        want = ref.normal(3.0, 1.0, (T, Fc))
    else:
        n = fr.add_noise(3.0, 1.0, 2.5, noise_type='normal')
        want = np.maximum(ref.normal(3.0, 1.0, (T, Fc)), 2.5)
    if n.shape != want.shape:
        return f"{ntype} noise of shape {n.shape} for a {LARGE} frame"
    if not np.array_equal(fr.data, n):
        return f"{ntype}: returned noise is not what was added ({LARGE} frame)"
    rows = [i for i in range(T) if not np.allclose(n[i], want[i], rtol=1e-12, atol=1e-12)]
    if rows:
        return f"{ntype} noise on a {LARGE} frame: rows {rows[:5]} are not the seeded draws mapped as documented (row {rows[0]} has mean {float(np.mean(n[rows[0]])):.3g}, the draws give {float(np.mean(want[rows[0]])):.3g})"
    return None


def job_large_noise(ntype):
    recs = []
    msg = _large_noise(ntype)
    name = f"C11:large-frame-noise:{ntype}"
    r, _ = core.check([RV(int(msg is None)) != 1])
    recs.append(q(name, r, trivial=True, shape=str(LARGE), detail=msg or ''))
    if msg:
        recs.append(cex('C11:large-frame-noise', msg, dict(fn='large_noise', ntype=ntype), name=name))
    return recs


def replay_large_noise(p):
    msg = _large_noise(p['ntype'])
    return bool(msg), msg or 'large-frame noise is the mapped draws'


def replay_add_noise(p):
    import setigen as stg
    gdf, gdt = abs(p.get('df', 2.0)) or 2.0, abs(p.get('dt', 4.0)) or 4.0
    fr = stg.Frame(fchans=64, tchans=64, df=gdf, dt=gdt, fch1=4096.0, seed=17)
    xm, xs, xmin = p.get('x_mean', 3.0), abs(p.get('x_std', 1.0)) or 1.0, p.get('x_min', 2.5)
    if p['prior'] == 'content':
        fr.add_noise(5.0)
    elif p['prior'] in ('zeroed', 'zeroed_int'):
        try:
            for dt_ in ((np.int64, np.float32) if p['prior'] == 'zeroed_int' else (np.float64,)):
                g = stg.Frame(fchans=8, tchans=4, df=gdf, dt=gdt, fch1=4096.0, seed=17)
                g.data = (np.arange(32).reshape(4, 8) * 3).astype(dt_)
                g.zero_data()
                ng = g.add_noise(xm, xs, noise_type='gaussian')
                if not np.array_equal(g.data, ng):
                    return True, f"a frame that held {np.dtype(dt_).name} data, emptied, then given noise: data differs from the returned noise by up to {float(np.max(np.abs(g.data - ng))):.3g} (data dtype {g.data.dtype})"
        except Exception as e:
            return True, f"a frame that held other than float64 data, emptied with zero_data(): add_noise raised {type(e).__name__}: {e}"
    before = fr.data.copy()
    k = 4 * round(gdf * gdt)
    msgs = []
    if fr.chi2_df != k:
        msgs.append(f'degrees of freedom {fr.chi2_df} for df*dt={gdf * gdt!r}, expected 4*round(df*dt)={k}')
    if p['ntype'] == 'chi2':
        n = fr.add_noise(xm)
        ref = np.random.default_rng(17)
        if p['prior'] == 'content':
            ref.chisquare(df=k, size=(64, 64))
        want = ref.chisquare(df=k, size=(64, 64)) * xm / k
        if not np.allclose(n, want):
            msgs.append('chi2 noise is not X*x_mean/k of the seeded draws')
        if p['prior'] != 'content' and not np.isclose(fr.noise_std ** 2, 2 * xm ** 2 / k):
            msgs.append(f'reported std^2 {fr.noise_std ** 2} != 2 x_mean^2/k')
    else:
        n = fr.add_noise(xm, xs, xmin if p['ntype'] == 'truncated' else None, noise_type='gaussian')
        if p['ntype'] == 'truncated' and np.min(n) < xmin:
            msgs.append(f'{int(np.sum(n < xmin))} samples below the floor {xmin!r} (min {np.min(n)})')
    if not np.array_equal(fr.data - before, n) and not np.allclose(fr.data - before, n, rtol=1e-12, atol=1e-12):
        msgs.append('returned array != data_after - data_before')
    if p['prior'] != 'content' and fr.noise_mean != xm:
        msgs.append('first-noise estimate != requested mean')
    # estimates after noise is added to a frame that is NOT empty (whatever its recorded estimates were, unless both
    # are zero): the sigma-clipped re-estimate of the data
    from astropy.stats import sigma_clip
    for (nm0, ns0) in [tuple(p.get('prior_estimates', (5.0, 0.0))), (5.0, 0.0), (0.0, 2.0), (3.0, 1.0)]:
        if nm0 == 0 and ns0 == 0:
            continue
        g = stg.Frame(fchans=32, tchans=16, df=gdf, dt=gdt, fch1=4096.0, seed=3)
        g.data = np.full(g.shape, 5.0) + np.arange(32)[None, :] * 0.01
        g.noise_mean, g.noise_std = nm0, ns0
        if p['ntype'] == 'chi2':
            g.add_noise(xm)
        else:
            g.add_noise(xm, xs, xmin if p['ntype'] == 'truncated' else None, noise_type='gaussian')
        c = sigma_clip(g.data, sigma=3, maxiters=5, masked=False)
        if not (np.isclose(g.noise_mean, np.mean(c)) and np.isclose(g.noise_std, np.std(c))):
            msgs.append(f"frame with content and recorded estimates ({nm0}, {ns0}): after adding noise the estimates are ({g.noise_mean!r}, {g.noise_std!r}), the sigma-clipped data give ({np.mean(c)!r}, {np.std(c)!r})")
            break
    return bool(msgs), '; '.join(msgs) or 'noise bookkeeping ok'


def replay_from_obs(p):
    """real generator: over many seeds the parameters recorded by an empty frame (= the sampled table entries) are
    table entries, from one common index when shared, and every entry of a short table gets used"""
    import setigen as stg
    rng = np.random.default_rng(0)
    msgs = []
    # two regimes of tables: means well above the deviations, and rows whose deviation exceeds the mean
    for n, (mlo, mhi, slo, shi) in [(n_, r_) for n_ in sorted({p['nlen'], 1, 2, 3}) for r_ in ((5, 9, 0.5, 1.5), (0.2, 2.0, 0.5, 3.0), (1.0, 2.0, 0.5, 1.0))]:
        # (third regime: floors from brighter observations than the means -- every floor entry above every mean)
        means, stds, mins = rng.uniform(mlo, mhi, n), rng.uniform(slo, shi, n), (rng.uniform(3, 5, n) if shi == 1.0 else (rng.uniform(-3, 0.1, n) if mhi < 5 else rng.uniform(1, 4, n)))
        seen = {'mean': set(), 'std': set()}
        for seed in range(60 * n):
            fr = stg.Frame(fchans=64, tchans=4, df=2.0, dt=4.0, fch1=4096.0, seed=seed)
            try:
                noise = fr.add_noise_from_obs(means, stds, mins if p['with_min'] else None, share_index=p['share'], noise_type=p['ntype'])
            except Exception as e:
                return True, f"tables of length {n}: raised {e!r}"
            if not np.array_equal(fr.data, noise):
                return True, "returned noise is not what was added"
            im = [i for i in range(n) if np.isclose(fr.noise_mean, means[i], rtol=1e-12)]
            if p['ntype'] == 'chi2':
                if not im:
                    return True, f"chi2: recorded mean {fr.noise_mean} is not an entry of the table {means}"
                seen['mean'].add(im[0])
                continue
            isd = [i for i in range(n) if np.isclose(fr.noise_std, stds[i], rtol=1e-12)]
            if not isd:
                return True, f"recorded deviation {fr.noise_std} is not an entry of the table {stds}"
            seen['std'].add(isd[0])
            if p['share']:
                if not im or im[0] != isd[0]:
                    return True, f"shared index: mean {fr.noise_mean} / deviation {fr.noise_std} are not the same row of the tables"
                seen['mean'].add(im[0])
            elif im:
                seen['mean'].add(im[0])
            elif not np.isclose(fr.noise_mean, fr.noise_std):
                return True, f"recorded mean {fr.noise_mean} is neither a mean entry nor the sampled deviation"
            if p['with_min']:
                fl = np.min(noise)
                if not any(abs(fl - m) < 1e-12 or fl > m for m in mins):
                    return True, f"floor {fl} is not a table entry"
        need = ['mean'] if p['ntype'] == 'chi2' else (['mean', 'std'] if p['share'] else ['std'])
        for tb in need:
            if seen[tb] != set(range(n)):
                msgs.append(f"{tb} table of length {n}: entries {sorted(set(range(n)) - seen[tb])} never sampled in {60 * n} seeds")
    return bool(msgs), '; '.join(msgs) or 'table sampling ok'


def replay_errors(p):
    import setigen as stg
    fr = stg.Frame(fchans=4, tchans=4, df=2.0, dt=4.0, fch1=4096.0, seed=1)
    out = []
    for kw in (dict(x_mean=1.0, noise_type='gaussian'), dict(x_mean=1.0, noise_type='bogus'), dict(x_mean=1.0, x_std=1.0, noise_type='poisson')):
        try:
            fr.add_noise(**kw)
            out.append('accepted')
        except ValueError:
            out.append('ValueError')
        except Exception as e:
            out.append(type(e).__name__)
    for kw in (dict(x_mean_array=np.array([1.0, 2.0]), x_std_array=np.array([1.0]), noise_type='gaussian', share_index=True),
               dict(x_mean_array=np.array([1.0, 2.0]), x_std_array=np.array([1.0, 2.0]), x_min_array=np.array([1.0]), noise_type='gaussian', share_index=True)):
        try:
            fr.add_noise_from_obs(**kw)
            out.append('accepted')
        except IndexError:
            out.append('IndexError')
        except Exception as e:
            out.append(type(e).__name__)
    ok = out == ['ValueError', 'ValueError', 'ValueError', 'IndexError', 'IndexError']
    return (not ok), f"invalid requests gave {out}"


def _narrow_int_means():
    """chi-squared noise whose mean is handed over as a NumPy fixed-width integer (scalar, or drawn from an integer table):
    the recorded estimates are those of the same mean given as a float (executed concretely: integer wrap-around is not
    part of the exact-real model)"""
    import setigen as stg
    import warnings
    msgs = []
    with warnings.catch_warnings():
        warnings.simplefilter('ignore')
        for val, ty in ((4000000, np.int32), (300, np.int16), (200, np.uint8), (4000000, np.int64)):
            ref = stg.Frame(fchans=8, tchans=4, df=2.0, dt=4.0, fch1=4096.0, seed=1)
            ref.add_noise(float(val))
            a = stg.Frame(fchans=8, tchans=4, df=2.0, dt=4.0, fch1=4096.0, seed=1)
            a.add_noise(ty(val))
            b = stg.Frame(fchans=8, tchans=4, df=2.0, dt=4.0, fch1=4096.0, seed=1)
            b.add_noise_from_obs(np.array([val], dtype=ty), noise_type='chi2')
            for how, fr in (('add_noise', a), ('add_noise_from_obs', b)):
                if not (np.isfinite(fr.noise_std) and np.isclose(fr.noise_std, ref.noise_std, rtol=1e-12) and np.isclose(fr.noise_mean, ref.noise_mean, rtol=1e-12)):
                    msgs.append(f"{how}(mean {ty.__name__}({val})): recorded deviation {fr.noise_std!r}, with a float mean {ref.noise_std!r}")
    return msgs


def job_narrow_int_means():
    recs = []
    msgs = _narrow_int_means()
    r, _ = core.check([RV(len(msgs)) != 0])
    recs.append(q("C11:estimates:narrow-integer-mean", r, trivial=True, detail='; '.join(msgs[:2])))
    if msgs:
        recs.append(cex('C11:estimates:narrow-int', '; '.join(msgs[:2]), dict(fn='narrow_int'), name="C11:estimates:narrow-integer-mean"))
    return recs


def replay_narrow_int(p):
    msgs = _narrow_int_means()
    return bool(msgs), '; '.join(msgs[:3]) or 'estimates agree for NumPy integer means'


def _returned_kept():
    """the array a noise call returns is the noise THAT call added, also when the caller keeps it while the frame is used
    further (executed concretely: aliasing of arrays is not part of the value model): after a second noise call, an
    injected signal and an in-place edit of the frame, the kept array still equals its value at return, and the frame
    holds the sum of everything added"""
    import setigen as stg
    msgs = []
    calls = {'chi2': lambda fr: fr.add_noise(3.0),
             'gaussian': lambda fr: fr.add_noise(3.0, 1.0, noise_type='gaussian'),
             'truncated': lambda fr: fr.add_noise(3.0, 1.0, 2.5, noise_type='normal'),
             'from_obs': lambda fr: fr.add_noise_from_obs(SMALL_TABLE[:, 0], SMALL_TABLE[:, 1], SMALL_TABLE[:, 2], noise_type='gaussian'),
             'from_obs_chi2': lambda fr: fr.add_noise_from_obs(SMALL_TABLE[:, 0], noise_type='chi2')}
    for prior in ('fresh', 'zeroed', 'signal'):
        for how, call in calls.items():
            fr = stg.Frame(fchans=6, tchans=4, df=2.0, dt=4.0, fch1=4096.0, seed=9)
            if prior == 'zeroed':
                fr.add_noise(1.0)
                fr.zero_data()
            elif prior == 'signal':
                fr.add_constant_signal(fr.get_frequency(2), 0.0, 5.0, 4.0, f_profile_type='box')
            before = fr.data.copy()
            n1 = call(fr)
            snap = n1.copy()
            if not np.array_equal(fr.data, before + snap):
                msgs.append(f"{how} on a {prior} frame: returned noise is not what was added")
                continue
            n2 = call(fr)
            snap2 = n2.copy()
            fr.add_constant_signal(fr.get_frequency(3), 0.0, 2.0, 4.0, f_profile_type='box')
            fr.data *= 2.0
            if not np.array_equal(n1, snap) or not np.array_equal(n2, snap2):
                which = 'first' if not np.array_equal(n1, snap) else 'second'
                msgs.append(f"{how} on a {prior} frame: the array returned by the {which} call changed when the frame was used further (it no longer is the noise that call added; max change {float(np.max(np.abs((n1 if which == 'first' else n2) - (snap if which == 'first' else snap2)))):.3g})")
    return msgs


def job_returned_kept():
    recs = []
    msgs = _returned_kept()
    r, _ = core.check([RV(len(msgs)) != 0])
    recs.append(q("C11:returned-noise-kept", r, trivial=True, detail='; '.join(msgs[:2])))
    if msgs:
        recs.append(cex('C11:returned-noise-kept', '; '.join(msgs[:2]), dict(fn='returned_kept'), name="C11:returned-noise-kept"))
    return recs


def replay_returned_kept(p):
    msgs = _returned_kept()
    return bool(msgs), '; '.join(msgs[:3]) or 'returned arrays keep their value'


def replay_snr(p):
    import setigen as stg
    msgs = []
    fr = stg.Frame(fchans=8, tchans=p.get('T', 4), df=2.0, dt=4.0, fch1=4096.0, seed=1)
    for f in (fr.get_intensity, fr.get_snr):
        try:
            f(3.0)
            msgs.append('no ValueError without noise')
        except ValueError:
            pass
    fr.add_noise(5.0)
    for s in (0.5, 10.0, 123.4):
        i = fr.get_intensity(s)
        if not np.isclose(i, s * fr.noise_std / np.sqrt(fr.tchans)) or not np.isclose(fr.get_snr(i), s) or not np.isclose(fr.get_intensity(fr.get_snr(s)), s):
            msgs.append(f"snr {s}: intensity {i}, back {fr.get_snr(i)}")
    return bool(msgs), '; '.join(msgs) or 'SNR relations ok'


def replay_quadrature(p):
    from setigen.voltage import antenna as an
    arr = an.MultiAntennaArray(2, sample_rate=1024.0, num_pols=1, delays=[0, 1], seed=3)
    st, other = arr.antennas[0].x, arr.antennas[1].x
    vs = [1.5, 0.7, 2.0][:len(p['seq'])]
    for c, v in zip(p['seq'], vs):
        (st if c == 's' else arr.bg_x).add_noise(2.5, v)
    want = np.sqrt(sum(v * v for v in vs))
    want_o = np.sqrt(sum(v * v for c, v in zip(p['seq'], vs) if c == 'b'))
    bad = not (np.isclose(st.get_total_noise_std(), want) and np.isclose(other.get_total_noise_std(), want_o))
    return bad, f"sequence {p['seq']}: total {st.get_total_noise_std()} (expected {want}), other antenna {other.get_total_noise_std()} (expected {want_o})"


REPLAYS = {'returned_kept': replay_returned_kept, 'narrow_int': replay_narrow_int, 'large_noise': replay_large_noise, 'add_noise': replay_add_noise, 'from_obs': replay_from_obs, 'errors': replay_errors, 'snr': replay_snr, 'quadrature': replay_quadrature, 'quadrature_pols': replay_quadrature_pols, 'default_tables': replay_default_tables}


def main():
    ck = Check('C11', 'Synthetic noise has the requested distribution; SNR bookkeeping is consistent')
    ck.functions = ['Frame.add_noise', 'Frame.add_noise_from_obs', 'Frame.zero_data', 'Frame._update_noise_frame_stats', 'Frame.get_intensity', 'Frame.get_snr', 'distributions.chi2',
                    'distributions.gaussian', 'distributions.truncated_gaussian', 'sample_from_obs.sample_gaussian_params', 'DataStream.add_noise', 'DataStream.get_total_noise_std', 'BackgroundDataStream.add_noise']
    ck.files = ['setigen/frame.py', 'setigen/distributions.py', 'setigen/sample_from_obs.py', 'setigen/voltage/data_stream.py']
    ck.stubs = ['numpy Generator -> draw terms DRAW(kind, seed, k)', 'sigma_clip -> identity with a call counter', 'sqrt -> algebraic (s >= 0, s*s = v)']
    ck.assumptions = ['RESTRICTED claim: the distributional law of NumPy samplers (E X = k, Var X = 2k for chi-squared; normal moments) is trusted; decided are the affine maps, the floor, returned==added, table sampling structure, estimate bookkeeping, SNR relations and quadrature sums',
                      'df*dt >= 1; table lengths 2..3; shapes <= 2x3']
    jobs = []
    for ntype in ('chi2', 'gaussian', 'truncated'):
        for prior in ('zero', 'content', 'zeroed', 'zeroed_int'):
            jobs.append(('job_add_noise', (2, 2 if ntype != 'chi2' else 3, ntype, prior)))
    jobs.append(('job_errors', ()))
    jobs.append(('job_narrow_int_means', ()))
    jobs.append(('job_returned_kept', ()))
    for ntype in ('chi2', 'gaussian', 'truncated'):
        jobs.append(('job_large_noise', (ntype,)))
    for ntype in ('chi2', 'gaussian'):
        for share in (True, False):
            for with_min in ((False, True) if ntype == 'gaussian' else (False,)):
                for nlen in ((1, 2) if not ck.thorough else (1, 2, 3)):
                    jobs.append(('job_from_obs', (ntype, share, with_min, nlen)))
    for T in (1, 4, 16):
        jobs.append(('job_snr', (T,)))
    for ntype in ('chi2', 'gaussian'):
        jobs.append(('job_default_tables', (ntype, (4.0, 8.0))))
    for order in ('X', 'Y', 'XY', 'YX', 'XaY', 'bYX', 'XYab'):
        jobs.append(('job_quadrature_pols', (order,)))
    for seq in ('s', 'b', 'ss', 'sb', 'bs', 'bb', 'ssb', 'sbs', 'bbs', 'sss'):
        jobs.append(('job_quadrature', (seq,)))
    ck.bounds = dict(shapes='2x2 / 2x3', tables='2 (thorough 3) entries, symbolic', noise_sequences='<= 3 add_noise calls on stream / background')
    ck.run_jobs('props.C11', jobs, timeout_s=900)
    ck.finish()


if __name__ == '__main__':
    main()
