"""C07 -- voltage frequency registration: the written header locates every tone.

Locating a spectral peak through PFB + quantisers in noise is not encodable; given the DFT shift theorem the statement
reduces to a chain of arithmetic conventions, each decided by E1 on the real code:
  1 stream phase convention (sign by orientation, instantaneous frequency f_start + drift*t relative to fch1)
  2 coarse channel k of channelize is DFT bin k (C08) and recorded rows are start_chan.. (C02)      [checked there]
  3 header: OBSFREQ - OBSBW/2 + (c + 1/2) CHAN_BW == fch1 +- (start_chan + c) fs/P; get_raw_params inverts it
  4 fine channelisation order of get_pfb_waterfall (fftshift per coarse channel, concatenation, integration, trimming)
  5 get_waterfall_from_raw == get_pfb_waterfall of the decoded block with the REQUESTED fftlength / int_factor and header skip
"""
import time

import numpy as np
import z3

from symx import core, npx, shadow
from symx.core import Sym, SymC, lift, RV, UF
from symx.report import Check, q, cex, note
from props.volt_common import B, DS, RU, WF, PF, Q, volt_patches, MemFS, MemFile, cparts, dft_term, sym_stream
from props import C02

TWO_PI = 2 * np.pi


def job_phase(asc):
    """argument of the cosine (run with an identity `cos`): +-2pi((f-fch1)t + d t^2/2) + phase; its increment over
    any h is +-2pi((f - fch1 + d t) h + d h^2/2), i.e. instantaneous frequency f + d t relative to fch1"""
    recs = []
    names = ('sr', 'fch1', 'f_start', 'drift', 'phase', 't', 'h')
    V = {n: Sym(z3.Real(n)) for n in names}
    px = npx.NPProxy()
    px.cos = lambda a, **k: a
    with volt_patches(proxy=px):
        s = DS.DataStream(sample_rate=V['sr'], fch1=V['fch1'], ascending=asc, t_start=0, seed=1)
        s.add_constant_signal(V['f_start'], V['drift'], 1, V['phase'])
        f = s.signal_sources[0]
        a0 = f(npx.sarr([V['t']]))[0]
        a1 = f(npx.sarr([V['t'] + V['h']]))[0]
    sg = 1 if asc else -1
    t, h = V['t'].t, V['h'].t
    want0 = sg * RV(TWO_PI) * ((V['f_start'].t - V['fch1'].t) * t + RV(0.5) * V['drift'].t * t * t) + V['phase'].t
    inc = sg * RV(TWO_PI) * ((V['f_start'].t - V['fch1'].t + V['drift'].t * t) * h + RV(0.5) * V['drift'].t * h * h)
    for name, d in (('phase', lift(a0) - want0), ('instantaneous-frequency', (lift(a1) - lift(a0)) - inc)):
        d = z3.simplify(d, som=True)
        r, m = core.check([d != 0], timeout_ms=60000)
        recs.append(q(f"C07:stream:{asc}:{name}", r))
        if r == 'sat':
            recs.append(cex(f"C07:stream:{'asc' if asc else 'desc'}", f'chirp {name} convention: cos argument differs from +-2pi((f-fch1)t + d t^2/2) + phase', dict(fn='phase', asc=asc), name=f"C07:stream:{asc}:{name}"))
    r, _ = core.check([lift(a0) != 0])
    recs.append(q(f"C07:stream:{asc}:twin", r, expect='sat'))
    return recs


def job_header(asc, nant):
    """OBSFREQ / OBSBW / CHAN_BW locate recorded channel c at fch1 +- (start_chan + c) fs/P; get_raw_params inverts"""
    recs = []
    tag = f"C07:header:{(asc, nant)}"
    sr, fch1 = Sym(z3.Real('sample_rate')), Sym(z3.Real('fch1'))
    sci, nci, ci = z3.Int('start_chan'), z3.Int('num_chans'), z3.Int('c')
    sc, nc = Sym(z3.ToReal(sci), True), Sym(z3.ToReal(nci), True)
    P = 16
    pre = [sr.t > 0, sci >= 0, nci >= 1, ci >= 0, ci < nci]
    kappa = RV(1e-6) * RV(1e6)

    def run():
        be, ant, ws = C02.build(P, 2, 2, 1, 2, nant, 8, 0, 2, 2, asc=asc)
        # symbolic configuration (the constructor's derived quantities recomputed by its own formulas)
        be.sample_rate, be.fch1, be.start_chan, be.num_chans = sr, fch1, sc, nc
        be.tbin = be.num_branches / be.sample_rate
        be.chan_bw = 1 / be.tbin
        if not be.ascending:
            be.chan_bw = -be.chan_bw
        be.num_blocks, be.obs_length = 1, be.time_per_block
        hd = be._header_populate_configuration({})
        with shadow.patched(RU, read_header=lambda fn: {k: v for k, v in hd.items()}):
            rp = RU.get_raw_params('/mem/x', start_chan=sc)
        return be, hd, rp
    with volt_patches():
        leaves = core.explore(run, pre, cap=8)
    for li, leaf in enumerate(leaves):
        if leaf.kind == 'exc':
            recs.append(q(f"{tag}:leaf{li}", 'sat', detail=repr(leaf.value)))
            recs.append(cex('C07:header:raise', f'header population / read-back raised {leaf.value!r}', dict(fn='header', asc=asc, nant=nant), name=f"{tag}:leaf{li}"))
            continue
        be, hd, rp = leaf.value
        base = pre + leaf.pc + leaf.side
        sg = 1 if asc else -1
        cw = sr.t / P
        c = z3.ToReal(ci)
        # frequency of recorded channel c computed from the file's own header (MHz)
        f_hdr = lift(hd['OBSFREQ']) - lift(hd['OBSBW']) / 2 + (c + RV(0.5)) * lift(hd['CHAN_BW'])
        f_true = (fch1.t + sg * (z3.ToReal(sci) + c) * cw) * RV(1e-6)
        d1 = z3.simplify(f_hdr - f_true, som=True)
        dis = [d1 != 0, lift(hd['CHAN_BW']) != sg * cw * RV(1e-6), lift(hd['OBSBW']) != sg * cw * z3.ToReal(nci) * RV(1e-6),
               lift(hd['OBSNCHAN']) != z3.ToReal(nci) * nant, lift(hd['TBIN']) != P / sr.t]
        r, m = core.check(base + [z3.Or(*dis)], timeout_ms=60000)
        recs.append(q(f"{tag}:leaf{li}:header-locates-channel", r))
        if r == 'sat':
            recs.append(cex(f"C07:header:{'asc' if asc else 'desc'}", 'OBSFREQ - OBSBW/2 + (c+1/2) CHAN_BW is not fch1 +- (start_chan + c) fs/P', dict(fn='header', asc=asc, nant=nant), name=f"{tag}:leaf{li}:header-locates-channel"))
        dis = [z3.simplify(lift(rp['fch1']) - kappa * fch1.t, som=True) != 0, z3.simplify(lift(rp['chan_bw']) - kappa * sg * cw, som=True) != 0,
               lift(rp['num_chans']) != z3.ToReal(nci), lift(rp['num_antennas']) != nant]
        r, m = core.check(base + [z3.Or(*dis)], timeout_ms=60000)
        recs.append(q(f"{tag}:leaf{li}:get_raw_params-inverts", r))
        asc_back = rp['ascending']
        okasc = bool(asc_back) == asc if not isinstance(asc_back, core.SymB) else None
        if okasc is None:
            r2, _ = core.check(base + [core.liftb(asc_back) != z3.BoolVal(asc)], timeout_ms=30000)
            okasc = r2 == 'unsat'
        recs.append(q(f"{tag}:leaf{li}:orientation-read-back", 'unsat' if okasc else 'sat'))
        if r == 'sat' or not okasc:
            recs.append(cex(f"C07:readback:{'asc' if asc else 'desc'}", 'get_raw_params does not reproduce fch1 / chan_bw / orientation', dict(fn='header', asc=asc, nant=nant),
                            name=f"{tag}:leaf{li}:get_raw_params-inverts" if r == 'sat' else f"{tag}:leaf{li}:orientation-read-back"))
    kok = abs(1e-6 * 1e6 - 1) <= 2 ** -52
    recs.append(q(f"{tag}:scale-factor-1e-6*1e6-within-1ulp", 'unsat' if kok else 'sat', trivial=True))
    return recs


def fine_spec(xs, c, tau, j, L, intf):
    """sum over pols and integrations of |DFT_{(j - L/2) mod L}|^2 / L of coarse channel c"""
    k = (j - L // 2) % L
    acc = RV(0)
    for x in xs:                     # per polarisation: x[time, chan]
        for m_ in range(intf):
            t0 = (tau * intf + m_) * L
            vals = [cparts(x[t0 + b, c]) for b in range(L)]
            re, im = dft_term(vals, k, L)
            acc = acc + (re * re + im * im) / (RV(L ** 0.5) * RV(L ** 0.5))     # the code divides by the binary64 sqrt(L) before squaring
    return acc


def job_fine(L, intf, npol, nchan, nspec):
    recs = []
    tag = f"C07:fine:{(L, intf, npol, nchan, nspec)}"
    ntime = nspec * L + (1 if L > 1 else 0)       # one extra sample: must be trimmed
    xs = [npx.sarr(np.array([[SymC(Sym(z3.Real(f'x{p}r_{t}_{c}')), Sym(z3.Real(f'x{p}i_{t}_{c}'))) for c in range(nchan)] for t in range(ntime)], dtype=object)) for p in range(npol)]
    with volt_patches():
        out = WF.get_pfb_waterfall(xs[0], xs[1] if npol == 2 else None, fftlength=L, int_factor=intf)
    ntau = nspec // intf
    pl = dict(fn='fine', L=L, intf=intf, npol=npol, nchan=nchan, nspec=nspec)
    if out.shape != (ntau, nchan * L):
        recs.append(q(tag, 'sat', detail=f"shape {out.shape} != {(ntau, nchan * L)}"))
        recs.append(cex('C07:fine:shape', f'get_pfb_waterfall shape {out.shape}, expected {(ntau, nchan * L)}', pl, name=tag))
        return recs
    dis = []
    for tau in range(ntau):
        for c in range(nchan):
            for j in range(L):
                d = z3.simplify(lift(out[tau, c * L + j]) - fine_spec(xs, c, tau, j, L, intf), som=True)
                if not (z3.is_rational_value(d) and d.numerator_as_long() == 0):
                    dis.append(d != 0)
    r, m = core.check(list(core.GLOBAL_SIDE) + ([z3.Or(*dis)] if dis else [z3.BoolVal(False)]), timeout_ms=120000)
    recs.append(q(tag, r, by_solver=len(dis)))
    if r == 'sat':
        recs.append(cex('C07:fine:order', 'fine channelisation order / integration differs from fftshift-per-coarse-channel, concatenated, summed over int_factor and pols', pl, name=tag))
    return recs


def job_reducer(L, intf, ncards, directio, prior=None):
    """get_waterfall_from_raw on an in-memory file with symbolic data bytes.
    prior = (ncards0, directio0): a different recording stood at the same path before and was read / reduced there
    (what the readers return describes the file as it is now)"""
    recs = []
    tag = f"C07:reducer:{(L, intf, ncards, directio)}" + (f":after{prior}" if prior else '')
    fs = MemFS()
    nchan, T = 2, L * intf * 2
    block_size = nchan * T * 4
    if prior:
        f0 = fs.open('/mem/r.0000.raw', 'wb')
        hd0 = {f'P{i:02d}': i for i in range(prior[0])}
        hd0.update({'BLOCSIZE': block_size, 'NBITS': 8})
        if prior[1] is not None:
            hd0['DIRECTIO'] = prior[1]
        for k, v in hd0.items():
            f0.write(RU.format_header_line(k, v).encode())
        f0.write(f"{'END':<80}".encode())
        if prior[1] not in (None, 0):
            f0.write(bytearray(-(80 * (len(hd0) + 1)) % 512))
        f0.write(bytes(block_size + 600))
        f0.close()
        with volt_patches(opener=fs.open):
            RU.read_header('/mem/r.0000.raw')
            WF.get_waterfall_from_raw('/mem/r.0000.raw', block_size, nchan, int_factor=intf, fftlength=L)
        fs.files.pop('/mem/r.0000.raw', None)
        fs.files.pop('__flat__/mem/r.0000.raw', None)
    hd = {f'K{i:02d}': i for i in range(ncards)}
    hd.update({'BLOCSIZE': block_size, 'NBITS': 8})
    if directio is not None:
        hd['DIRECTIO'] = directio
    items = [Sym(z3.ToReal(z3.Int(f'b_{i}')), True) for i in range(block_size)]
    f = fs.open('/mem/r.0000.raw', 'wb')
    n = 0
    for k, v in hd.items():
        f.write(RU.format_header_line(k, v).encode())
        n += 1
    f.write(f"{'END':<80}".encode())
    n += 1
    if directio not in (None, 0):
        f.write(bytearray(-(80 * n) % 512))
    f.write(npx.SymBytes(items))
    f.write(npx.SymBytes([Sym(z3.Real(f'next_{i}')) for i in range(600)]))     # what follows must not be read as data
    pl = dict(fn='reducer', L=L, intf=intf, ncards=ncards, directio=directio, prior=list(prior) if prior else None)
    with volt_patches(opener=fs.open):
        leaves = core.explore(lambda: WF.get_waterfall_from_raw('/mem/r.0000.raw', block_size, nchan, int_factor=intf, fftlength=L), [], cap=4)
    leaf = leaves[0]
    if leaf.kind == 'exc' or len(leaves) != 1:
        recs.append(q(tag, 'sat', detail=repr(leaf.value)))
        recs.append(cex('C07:reducer:raise', f'get_waterfall_from_raw raised {leaf.value!r}', pl, name=tag))
        return recs
    out = leaf.value
    # decoded block: row c, time t, pol p, re/im
    xs = []
    for p in range(2):
        a = np.empty((T, nchan), dtype=object)
        for c in range(nchan):
            for t in range(T):
                a[t, c] = SymC(items[c * T * 4 + t * 4 + 2 * p], items[c * T * 4 + t * 4 + 2 * p + 1])
        xs.append(a)
    ntau = (T // L) // intf
    if out.shape != (ntau, nchan * L):
        recs.append(q(tag, 'sat', detail=f"shape {out.shape} != {(ntau, nchan * L)}"))
        recs.append(cex('C07:reducer:args', f'get_waterfall_from_raw(fftlength={L}, int_factor={intf}) returned shape {out.shape}, expected {(ntau, nchan * L)}', pl, name=tag))
        return recs
    dis = []
    for tau in range(ntau):
        for c in range(nchan):
            for j in range(L):
                d = z3.simplify(lift(out[tau, c * L + j]) - fine_spec(xs, c, tau, j, L, intf), som=True)
                if not (z3.is_rational_value(d) and d.numerator_as_long() == 0):
                    dis.append(d != 0)
    r, m = core.check(list(core.GLOBAL_SIDE) + leaf.side + ([z3.Or(*dis)] if dis else [z3.BoolVal(False)]), timeout_ms=120000)
    recs.append(q(tag, r, by_solver=len(dis)))
    if r == 'sat':
        recs.append(cex('C07:reducer:values', 'quick-look reducer output is not the fine channelisation of the first data block with the requested FFT length / integration / header skip', pl, name=tag))
    return recs


# ------------------------------------------------------------------ concrete oracles
def replay_phase(p):
    from setigen.voltage import data_stream as ds
    sr, fch1, f0, d, ph = 1000.0, 100.0, 180.0, 3000.0, 0.3
    s = ds.DataStream(sample_rate=sr, fch1=fch1, ascending=p['asc'], t_start=0.0, seed=1)
    s.add_constant_signal(f0, d, 1.0, ph)
    ts = np.arange(200) / sr
    got = s.signal_sources[0](ts)
    phs = 2 * np.pi * ((f0 - fch1) * ts + 0.5 * d * ts ** 2)
    want = np.cos((phs if p['asc'] else -phs) + ph)
    return (not np.allclose(got, want, atol=1e-9)), f"chirp differs from cos(+-2pi((f-fch1)t + d t^2/2)+phase): max err {np.max(np.abs(got - want))}"


def replay_header(p):
    from props import C20
    from setigen.voltage import raw_utils as ru
    import os
    import shutil
    import tempfile
    d = tempfile.mkdtemp(prefix='c07_', dir='/var/tmp')
    msgs = []
    try:
        from setigen.voltage import backend as bk, polyphase_filterbank as pf, quantization as qz, antenna as an
        for sc, nc in ((0, 2), (3, 4), (5, 1)):
            nant = p['nant']
            src = an.Antenna(sample_rate=1024.0, fch1=5000.0, ascending=p['asc'], num_pols=2, seed=1) if nant == 1 else an.MultiAntennaArray(nant, sample_rate=1024.0, fch1=5000.0, ascending=p['asc'], num_pols=2, delays=[0] * nant, seed=1)
            be = bk.RawVoltageBackend(src, qz.RealQuantizer(), pf.PolyphaseFilterbank(num_taps=2, num_branches=32), qz.ComplexQuantizer(), start_chan=sc, num_chans=nc,
                                      block_size=2 * nant * nc * 4 * 2, blocks_per_file=2, num_subblocks=1)
            stem = os.path.join(d, f'h{sc}')
            be.record(stem, num_blocks=1, length_mode='num_blocks', header_dict={}, verbose=False, load_template=False)
            h = ru.read_header(stem + '.0000.raw')
            sg = 1 if p['asc'] else -1
            for c in range(nc):
                f_hdr = float(h['OBSFREQ']) - float(h['OBSBW']) / 2 + (c + 0.5) * float(h['CHAN_BW'])
                f_true = (5000.0 + sg * (sc + c) * 1024.0 / 32) * 1e-6
                if abs(f_hdr - f_true) > 1e-12:
                    msgs.append(f"start_chan={sc}: header places channel {c} at {f_hdr} MHz, true {f_true}")
            rp = ru.get_raw_params(stem, start_chan=sc)
            if abs(rp['fch1'] - 5000.0) > 1e-6 or abs(rp['chan_bw'] - sg * 32.0) > 1e-9 or rp['ascending'] != p['asc']:
                msgs.append(f"get_raw_params -> fch1={rp['fch1']} chan_bw={rp['chan_bw']} ascending={rp['ascending']}")
    except Exception as e:
        msgs.append(f"raised {type(e).__name__}: {e}")
    finally:
        shutil.rmtree(d, ignore_errors=True)
    return bool(msgs), '; '.join(msgs[:3]) or 'header registration ok'


def np_fine(xs, L, intf):
    ntime, nchan = xs[0].shape
    nspec = ntime // L
    ntau = nspec // intf
    out = np.zeros((ntau, nchan * L))
    for x in xs:
        for c in range(nchan):
            for tau in range(ntau):
                for m in range(intf):
                    seg = x[(tau * intf + m) * L:(tau * intf + m + 1) * L, c]
                    spec = np.array([np.sum(seg * np.exp(-2j * np.pi * np.arange(L) * k / L)) for k in range(L)])
                    for j in range(L):
                        out[tau, c * L + j] += abs(spec[(j - L // 2) % L]) ** 2 / L
    return out


def replay_fine(p):
    from setigen.voltage import waterfall as wf
    rng = np.random.default_rng(0)
    L, intf, npol, nchan, nspec = p['L'], p['intf'], p['npol'], p['nchan'], p['nspec']
    xs = [rng.normal(size=(nspec * L + 1, nchan)) + 1j * rng.normal(size=(nspec * L + 1, nchan)) for _ in range(npol)]
    got = wf.get_pfb_waterfall(xs[0], xs[1] if npol == 2 else None, fftlength=L, int_factor=intf)
    want = np_fine(xs, L, intf)
    return (got.shape != want.shape or not np.allclose(got, want, rtol=1e-9, atol=1e-9)), f"get_pfb_waterfall shape {got.shape} vs {want.shape}"


def replay_reducer(p):
    import os
    import shutil
    import tempfile
    from setigen.voltage import waterfall as wf, raw_utils as ru
    L, intf = p['L'], p['intf']
    nchan, T = 2, L * intf * 2
    bs = nchan * T * 4
    rng = np.random.default_rng(1)
    blk = rng.integers(-100, 100, size=bs).astype(np.int8)
    d = tempfile.mkdtemp(prefix='c07_', dir='/var/tmp')
    try:
        fn = os.path.join(d, 'r.0000.raw')
        if p.get('prior'):
            hd0 = {f'P{i:02d}': i for i in range(p['prior'][0])}
            hd0.update({'BLOCSIZE': bs, 'NBITS': 8})
            if p['prior'][1] is not None:
                hd0['DIRECTIO'] = p['prior'][1]
            with open(fn, 'wb') as f:
                for k, v in hd0.items():
                    f.write(ru.format_header_line(k, v).encode())
                f.write(f"{'END':<80}".encode())
                if p['prior'][1] not in (None, 0):
                    f.write(bytearray(-(80 * (len(hd0) + 1)) % 512))
                f.write(bytes(bs + 600))
            ru.read_header(fn)
            wf.get_waterfall_from_raw(fn, bs, nchan, int_factor=intf, fftlength=L)
        hd = {f'K{i:02d}': i for i in range(p['ncards'])}
        hd.update({'BLOCSIZE': bs, 'NBITS': 8})
        if p['directio'] is not None:
            hd['DIRECTIO'] = p['directio']
        with open(fn, 'wb') as f:
            n = 0
            for k, v in hd.items():
                f.write(ru.format_header_line(k, v).encode())
                n += 1
            f.write(f"{'END':<80}".encode())
            n += 1
            if p['directio'] not in (None, 0):
                f.write(bytearray(-(80 * n) % 512))
            f.write(blk.tobytes())
            f.write(bytes(600))
        try:
            got = wf.get_waterfall_from_raw(fn, bs, nchan, int_factor=intf, fftlength=L)
        except Exception as e:
            return True, f"get_waterfall_from_raw raised {e!r}"
    finally:
        shutil.rmtree(d, ignore_errors=True)
    rb = blk.reshape(nchan, -1).astype(float)
    xs = [(rb[:, 0::4] + 1j * rb[:, 1::4]).T, (rb[:, 2::4] + 1j * rb[:, 3::4]).T]
    want = np_fine(xs, L, intf)
    return (got.shape != want.shape or not np.allclose(got, want, rtol=1e-9, atol=1e-9)), f"reducer(fftlength={L}, int_factor={intf}) shape {got.shape}, expected {want.shape}"


REPLAYS = {'phase': replay_phase, 'header': replay_header, 'fine': replay_fine, 'reducer': replay_reducer}


def main():
    ck = Check('C07', 'Voltage frequency registration: the written header locates every tone')
    ck.functions = ['DataStream.add_constant_signal (closure)', 'RawVoltageBackend._header_populate_configuration', 'raw_utils.get_raw_params', 'waterfall.get_pfb_waterfall',
                    'waterfall.get_waterfall_from_raw', 'raw_utils.get_header_size', 'raw_utils.read_header']
    ck.files = ['setigen/voltage/data_stream.py', 'setigen/voltage/backend.py', 'setigen/voltage/raw_utils.py', 'setigen/voltage/waterfall.py']
    ck.stubs = ['cos -> identity (to expose its argument)', 'numpy.fft -> exact DFT (lengths 1,2,4)', 'read_header -> the dictionary the writer produced (text formatting of floats outside)', 'open() -> in-memory file with symbolic data bytes']
    ck.assumptions = ['RESTRICTED claim: the registration chain (phase convention, header arithmetic, inverse mapping, fine-channel order, reducer pass-through); locating a spectral peak through PFB + quantisers in noise is outside the technique',
                      'DFT shift theorem (a tone at baseband frequency nu lands in bin round(nu/bin width)) is trusted mathematics', 'coarse-channel = DFT bin and row selection are C08 / C02',
                      '1e-6 * 1e6 scale factor accounted exactly (within 1 ulp of 1)']
    jobs = []
    for asc in (True, False):
        jobs.append(('job_phase', (asc,)))
        for nant in (1, 2):
            jobs.append(('job_header', (asc, nant)))
    fine = [(L, intf, npol) for L in (1, 2, 4) for intf in (1, 2, 3) for npol in (1, 2)]
    fine += [(3, 1, 1), (3, 2, 2), (5, 1, 1)]          # odd lengths: the centre bin is not where an even-length split puts it
    if ck.thorough:
        fine += [(8, 1, 1), (8, 2, 2), (4, 4, 2), (3, 2, 1), (6, 1, 2), (7, 1, 1), (5, 2, 2)]
    for (L, intf, npol) in fine:
        if L == 4 and intf == 3 and not ck.thorough:
            continue
        jobs.append(('job_fine', (L, intf, npol, 2, intf * 2 + (1 if intf > 1 else 0))))
    for (L, intf) in ((1, 1), (2, 1), (1, 2), (2, 3), (4, 2), (4, 1)) + (((2, 4), (4, 3), (1, 5)) if ck.thorough else ()):      # FFT lengths with an exact DFT (1, 2, 4); others make the queries non-linear (z3: unknown)
        for ncards, directio in ((3, None), (5, 0), (9, 1), (28, 1), (29, 1), (30, 0)):   # 28 user cards + BLOCSIZE, NBITS, DIRECTIO + END = 32 cards = 5 * 512 bytes: aligned
            if not ck.thorough and (L, intf) in ((4, 2),) and ncards not in (3, 28):
                continue
            jobs.append(('job_reducer', (L, intf, ncards, directio)))
    for (L, intf, ncards, directio, prior) in ((2, 1, 5, 0, (12, 1)), (1, 2, 9, 1, (3, None)), (2, 3, 3, None, (28, 1)), (4, 1, 28, 1, (5, 0))):
        jobs.append(('job_reducer', (L, intf, ncards, directio, prior)))
    ck.bounds = dict(fftlength='1,2,3,4,5 (fine channelisation; thorough also 6,7,8), 1,2,4 (reducer)', int_factor='1..3', pols='1-2', header='symbolic sample_rate, fch1, start_chan, num_chans, channel c; P=16', reducer_headers='3..30 cards, DIRECTIO absent/0/1 (incl. aligned)')
    ck.run_jobs('props.C07', jobs, timeout_s=900)
    ck.finish()


if __name__ == '__main__':
    main()
