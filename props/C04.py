"""C04 -- recorded files are well-formed GUPPI RAW and all readers agree on framing.

Engines: E1 (real _make_header / record / readers on in-memory files, symbolic payload), and symbolic header
*length*: the real get_header_size and the AST slices of the padding / header-size expressions are evaluated with
the number of cards as a symbolic integer, so every header length (mod 32 cards) is covered by one query.
"""
import ast
import inspect
import itertools
import textwrap
import time

import numpy as np
import z3

from symx import core, npx, shadow
from symx.core import Sym, lift, RV
from symx.report import Check, q, cex, note
from props.volt_common import B, RU, WF, PF, Q, A, volt_patches, MemFS, MemFile
from props import C02

OWNED = ('NBITS', 'NPOL', 'OBSNCHAN', 'NANTS', 'BLOCSIZE', 'TBIN', 'CHAN_BW', 'OBSBW', 'OBSFREQ', 'SCANLEN')


# ---------------------------------------------------------------- AST slices
def find_nodes(func, pred):
    src = textwrap.dedent(inspect.getsource(func))
    tree = ast.parse(src)
    return [n for n in ast.walk(tree) if pred(n)], src


def eval_node(node, env):
    code = compile(ast.Expression(body=node), '<slice>', 'eval')
    return eval(code, env)


def pad_expr_of_make_header():
    """bytes of DIRECTIO padding that RawVoltageBackend._make_header writes, as a function of header_lines:
    the body of its `if directio:` statement is executed with header_lines symbolic, `f` a recorder and
    `bytearray` a size-recording stand-in"""
    nodes, _ = find_nodes(B.RawVoltageBackend._make_header,
                          lambda n: isinstance(n, ast.If) and isinstance(n.test, ast.Name) and n.test.id == 'directio'
                          and any(isinstance(c, ast.Call) and isinstance(c.func, ast.Name) and c.func.id == 'bytearray' for c in ast.walk(n)))
    if len(nodes) != 1:
        raise core.SliceMissing(f"_make_header: expected one `if directio:` block writing a bytearray, found {len(nodes)} (source refactored: slice not found)")
    body = ast.Module(body=nodes[0].body, type_ignores=[])
    code = compile(body, '<slice:_make_header padding>', 'exec')

    class Pad:
        def __init__(self, n):
            self.n = n

    class Rec:
        def __init__(self):
            self.total = 0

        def write(self, b):
            self.total = self.total + (b.n if isinstance(b, Pad) else len(b))

    def pad(h):
        rec = Rec()
        env = {'header_lines': h, 'f': rec, 'bytearray': Pad, 'int': shadow.sint, 'np': npx.NPProxy(), 'xp': npx.NPProxy(),
               'max': core.smax, 'min': core.smin, 'self': None}
        exec(code, env)
        return rec.total
    return pad


class LenStub(dict):
    """header dictionary whose number of cards is a symbolic integer"""

    def __init__(self, n, directio):
        dict.__init__(self)
        self.sym_len = n
        if directio is not None:
            self['DIRECTIO'] = directio
        self['BLOCSIZE'] = Sym(z3.Real('blocsize'), True)


def slen(x):
    return x.sym_len if hasattr(x, 'sym_len') else len(x)


DIRECTIO_VARIANTS = [(None, False), (0, False), ('0', False), (1, True), ('1', True), ("'1'", True)]


def job_pad_lemma():
    recs = []
    pad = pad_expr_of_make_header()
    hi = z3.Int('h')
    h = Sym(z3.ToReal(hi), True)
    qh, rh = z3.Ints('qh rh')
    hint = [hi == 32 * qh + rh, rh >= 0, rh < 32, qh >= 0, hi <= 10000]
    p = lift(pad(h))
    tot = 80 * z3.ToReal(hi) + p
    # zero-padded up to the next multiple of 512, no padding when already aligned
    k = z3.Int('k')
    r, m = core.check(hint + [hi >= 1, z3.Or(p < 0, p >= 512, z3.ToReal(z3.ToInt(tot / 512)) * 512 != tot)], timeout_ms=60000)
    recs.append(q('C04:pad:next-multiple-of-512', r))
    if r == 'sat':
        recs.append(cex('C04:pad:aligned' if int(str(m.eval(hi))) % 32 == 0 else 'C04:pad', 'DIRECTIO padding is not "up to the next multiple of 512, none when aligned"',
                        dict(fn='make_header', lines=int(str(m.eval(hi))), directio=1), name='C04:pad:next-multiple-of-512'))
    r, _ = core.check([hi >= 1, p != 0], timeout_ms=30000)
    recs.append(q('C04:pad:twin', r, expect='sat'))
    return recs


def job_make_header(directio_i):
    """the real _make_header on an in-memory file for every header length 1..40 cards: bytes written follow
    the (sliced) model, cards are 80 bytes, END terminates"""
    recs = []
    dv, padded = DIRECTIO_VARIANTS[directio_i]
    pad = pad_expr_of_make_header()
    bad = None
    with volt_patches():
        be, ant, ws = C02.build(4, 2, 2, 1, 2, 1, 8, 0, 2, 2)
        for ncards in range(0, 41):
            hd = {f'K{i:02d}': i for i in range(ncards)}
            if dv is not None:
                if ncards == 0:
                    continue
                hd['DIRECTIO'] = dv
                hd.pop(f'K{ncards - 1:02d}')
            hd['PKTIDX'] = 7
            store = {}
            f = MemFile(store, 'x', 'wb')
            be._make_header(f, hd)
            raw = f._flat()
            h = len(hd) + 1
            want = 80 * h + (int(pad(h)) if padded else 0)
            okc = (len(raw) == want and bytes(raw[80 * (h - 1):80 * h]) == f"{'END':<80}".encode() and all(b == 0 for b in raw[80 * h:])
                   and (not padded or len(raw) % 512 == 0) and (not padded or len(raw) - 80 * h < 512))
            # (which function advances PKTIDX is an implementation detail; the sequence is checked on whole recordings)
            if not okc and bad is None:
                bad = (ncards, len(raw), want)
    r, _ = core.check([RV(int(bad is None)) != 1])
    recs.append(q(f'C04:make_header:{dv!r}', r, detail=str(bad)))
    if bad:
        recs.append(cex(f"C04:make_header:{'aligned' if (bad[0] + 2) % 32 == 0 else 'length'}", f"_make_header wrote {bad[1]} bytes for {bad[0]}+PKTIDX+END cards, expected {bad[2]} (DIRECTIO={dv!r})",
                        dict(fn='make_header', lines=bad[0] + 2, directio=dv), name=f'C04:make_header:{dv!r}'))
    return recs


def writer_model(n_cards_term, padded, defs):
    """bytes the writer emits for a header of n cards (excluding END): 80(n+1) rounded up to 512 iff padded.
    The rounding is stated through a fresh integer c with 512(c-1) < size <= 512c (definition appended to defs)."""
    size = 80 * (n_cards_term + 1)
    if not padded:
        return size
    c = z3.Int('c_up')
    defs += [512 * (z3.ToReal(c) - 1) < size, size <= 512 * z3.ToReal(c)]
    return 512 * z3.ToReal(c)


def job_reader_sizes():
    """every reader's header skip == the writer's header length, for a symbolic number of cards"""
    recs = []
    ni = z3.Int('n')
    n = Sym(z3.ToReal(ni), True)
    # definitional hint (always satisfiable): n + 1 = 32*qh + rh, 0 <= rh < 32, so 80(n+1)/512 = 5*qh + 5*rh/32
    qh, rh = z3.Ints('qh rh')
    pre0 = [ni >= 1, ni <= 10000, ni + 1 == 32 * qh + rh, rh >= 0, rh < 32, qh >= 0]
    # the values a reader is actually handed: each written spelling as the real card writer / card reader pair returns it
    # (quoted-string cards come back with their padding: '0       ')
    readback = []
    for dv, padded in DIRECTIO_VARIANTS:
        if dv is not None and "'" not in str(dv):      # (a value that itself contains quotes does not survive the card reader; not a use case)
            rb = RU.get_header_key_val(RU.format_header_line('DIRECTIO', dv))[1]
            if all(rb != v for v, _ in DIRECTIO_VARIANTS + readback):
                readback.append((rb, padded))
    for dv, padded in DIRECTIO_VARIANTS + readback:
        defs = []
        want = writer_model(z3.ToReal(ni), padded, defs)
        pre = pre0 + defs
        # (1) raw_utils.get_header_size -- the real function (used by get_blocks_in_file, get_dists, get_waterfall_from_raw)
        if hasattr(RU, 'get_header_size'):
            with volt_patches(extra=[(RU, dict(len=slen))]):
                leaves = core.explore(lambda: RU.get_header_size(LenStub(n, dv)), pre, cap=8)
            for li, leaf in enumerate(leaves):
                name = f'C04:reader:get_header_size:{dv!r}:leaf{li}'
                if leaf.kind == 'exc':
                    recs.append(q(name, 'sat', detail=repr(leaf.value)))
                    recs.append(cex('C04:reader:raise', f'get_header_size raised {leaf.value!r}', dict(fn='readers', cards=3, directio=dv), name=name))
                    continue
                r, m = core.check(pre + leaf.pc + [lift(leaf.value) != want], timeout_ms=60000)
                recs.append(q(name, r))
                if r == 'sat':
                    recs.append(cex(f"C04:reader:get_header_size:{'pad' if padded else 'nopad'}", 'get_header_size differs from the bytes the writer emits',
                                    dict(fn='readers', cards=int(str(m.eval(ni))), directio=dv), name=name))
        # (2) users of a header size inside the readers: the sliced expressions
        for fn, label in ((RU.get_blocks_in_file, 'get_blocks_in_file'), (RU.get_dists, 'get_dists'), (WF.get_waterfall_from_raw, 'get_waterfall_from_raw')):
            src = inspect.getsource(fn)
            uses_helper = 'get_header_size' in src
            legacy = '512' in src
            verdict = 'unsat' if (uses_helper and not legacy) else 'sat'
            # a reader that does its own 512 arithmetic must be sliced: evaluate that arithmetic
            if legacy:
                nodes, _ = find_nodes(fn, lambda x: isinstance(x, ast.BinOp) and any(isinstance(c, ast.Constant) and c.value == 512 for c in ast.walk(x)))
                # outermost expressions mentioning 512
                tops = [x for x in nodes if not any(x is not y and x in list(ast.walk(y)) for y in nodes)]
                vals = []
                for node in tops:
                    env = {'np': npx.NPProxy(), 'int': shadow.sint, 'len': slen, 'header': LenStub(n, dv), 'i': n + 1, '__builtins__': {}}
                    try:
                        vals.append(lift(eval_node(node, env)))
                    except Exception as e:
                        raise core.SliceMissing(f"{label}: cannot evaluate sliced 512-expression: {e!r}")
                # whatever the reader computes from 512 must make (header read) == writer model
                ok = False
                for v in vals:
                    for cand in (v, v + 80 * (z3.ToReal(ni) + 1), v - z3.Real('blocsize')):
                        r0, _ = core.check(pre + [cand != want], timeout_ms=30000)
                        ok = ok or r0 == 'unsat'
                verdict = 'unsat' if ok else 'sat'
            name = f'C04:reader:{label}:{dv!r}'
            recs.append(q(name, verdict, detail='uses get_header_size' if uses_helper and not legacy else 'own 512 arithmetic (sliced)'))
            if verdict == 'sat':
                recs.append(cex(f"C04:reader:{label}:{'pad' if padded else 'nopad'}", f'{label} skips a header length that differs from what the writer emits when DIRECTIO={dv!r}',
                                dict(fn='readers', cards=5, directio=dv), name=name))
        # (3) RawVoltageBackend.from_data: the inline formula (sliced if-statement)
        nodes, _ = find_nodes(B.RawVoltageBackend.from_data.__func__,
                              lambda x: isinstance(x, (ast.If, ast.Assign)) and any(isinstance(t, ast.Attribute) and t.attr == 'header_size' for s_ in ast.walk(x) if isinstance(s_, ast.Assign) for t in s_.targets))
        tops = [x for x in nodes if not any(x is not y and x in list(ast.walk(y)) for y in nodes)]
        if len(tops) != 1:
            raise core.SliceMissing(f"from_data: header_size assignment not found ({len(tops)})")

        class BE:
            pass

        def run_fd():
            be = BE()
            be.input_header_dict = LenStub(n, dv if dv != "'1'" else '1')      # read_header strips quotes
            env = {'backend': be, 'np': npx.NPProxy(), 'int': shadow.sint, 'len': slen, 'raw_utils': RU}
            with volt_patches(extra=[(RU, dict(len=slen))]):
                exec(compile(ast.Module(body=[tops[0]], type_ignores=[]), '<slice>', 'exec'), env)
            return be.header_size
        leaves = core.explore(run_fd, pre, cap=8)
        for li, leaf in enumerate(leaves):
            name = f'C04:reader:from_data:{dv!r}:leaf{li}'
            if leaf.kind == 'exc':
                raise core.HarnessError(f"from_data slice raised {leaf.value!r}")
            r, m = core.check(pre + leaf.pc + [lift(leaf.value) != want], timeout_ms=60000)
            recs.append(q(name, r))
            if r == 'sat':
                recs.append(cex('C04:reader:from_data', 'from_data header_size differs from the writer', dict(fn='readers', cards=int(str(m.eval(ni))), directio=dv), name=name))
        # (4) the independent reader (blimpy.guppi: pad to 512 iff DIRECTIO == 1 and not aligned), DIRECTIO in absent/0/1
        if dv in (None, 0, 1):
            idx = 80 * (z3.ToReal(ni) + 1)
            kf = z3.Int('k_floor')
            fl = [512 * z3.ToReal(kf) <= idx, idx < 512 * (z3.ToReal(kf) + 1)]
            rem = idx - 512 * z3.ToReal(kf)
            bl = z3.If(z3.And(z3.BoolVal(dv == 1), rem != 0), idx + (512 - rem), idx)
            pre = pre + fl
            r, m = core.check(pre + [bl != want], timeout_ms=60000)
            recs.append(q(f'C04:reader:blimpy-rule:{dv!r}', r))
    return recs


def job_file_split(bpf):
    """blocks are distributed blocks_per_file at a time over ceil(n/bpf) files: sliced from record(), n symbolic"""
    recs = []
    src = inspect.getsource(B.RawVoltageBackend.record)
    nodes, _ = find_nodes(B.RawVoltageBackend.record, lambda x: isinstance(x, ast.Assign) and isinstance(x.targets[0], ast.Name) and x.targets[0].id in ('num_files', 'blocks_to_write'))
    nf = [x for x in nodes if x.targets[0].id == 'num_files']
    btw = [x for x in nodes if x.targets[0].id == 'blocks_to_write']
    ifs, _ = find_nodes(B.RawVoltageBackend.record, lambda x: isinstance(x, ast.If) and any(isinstance(s_, ast.Assign) and isinstance(s_.targets[0], ast.Name) and s_.targets[0].id == 'blocks_to_write' for s_ in x.body))
    if len(nf) != 1 or len(ifs) != 1:
        raise core.SliceMissing("record(): file-split statements not found")
    ni, ii = z3.Int('n'), z3.Int('i')
    n, i = Sym(z3.ToReal(ni), True), Sym(z3.ToReal(ii), True)

    class S:
        pass

    def run():
        self_ = S()
        self_.num_blocks, self_.blocks_per_file = n, bpf
        env = {'self': self_, 'xp': npx.NPProxy(), 'int': shadow.sint, 'i': i}
        exec(compile(ast.Module(body=[nf[0]], type_ignores=[]), '<slice>', 'exec'), env)
        exec(compile(ast.Module(body=[ifs[0]], type_ignores=[]), '<slice>', 'exec'), env)
        return env['num_files'], env['blocks_to_write']
    qs_, rs_ = z3.Ints('qs rs')
    pre = [ni >= 1, ni <= 4096, ii >= 0, ni == bpf * qs_ + rs_, rs_ >= 0, rs_ < bpf, qs_ >= 0]
    leaves = core.explore(run, pre, cap=16)
    for li, leaf in enumerate(leaves):
        if leaf.kind == 'exc':
            raise core.HarnessError(f"file-split slice raised {leaf.value!r}")
        files, blocks = leaf.value
        F_ = lift(files)
        # file i (0 <= i < files) holds blocks [i*bpf, min((i+1)*bpf, n))
        want = z3.If((z3.ToReal(ii) + 1) * bpf <= z3.ToReal(ni), RV(bpf), z3.ToReal(ni) - z3.ToReal(ii) * bpf)
        r, m = core.check(pre + leaf.pc + [z3.ToReal(ii) < F_, z3.Or(lift(blocks) != want, (F_ - 1) * bpf >= z3.ToReal(ni), F_ * bpf < z3.ToReal(ni))], timeout_ms=60000)
        recs.append(q(f'C04:file-split:bpf{bpf}:leaf{li}', r))
        if r == 'sat':
            recs.append(cex('C04:file-split', 'file i does not hold blocks [i*bpf, min((i+1)*bpf, n))', dict(fn='record', k_extra=0, directio=None, nblocks=int(str(m.eval(ni))), bpf=bpf, nant=1, template=False), name=f'C04:file-split:bpf{bpf}:leaf{li}'))
    return recs


# ---------------------------------------------------------------- record + readers
def parse_file(raw, blimpy_rule=True):
    """independent GUPPI reader: cards until END, DIRECTIO padding, BLOCSIZE data bytes -> list of (header, data_len)"""
    pos, blocks = 0, []
    while pos < len(raw):
        hdr = {}
        start = pos
        while True:
            card = raw[pos:pos + 80]
            if len(card) < 80 or not all(isinstance(b, int) for b in card):
                return None, f"truncated / non-text card at byte {pos}"
            card = bytes(card).decode()
            pos += 80
            if card == f"{'END':<80}":          # the END card proper; keywords such as ENDTIME are ordinary cards
                break
            if card[8:10] != '= ':
                return None, f"card without '= ' at columns 8-9: {card!r}"
            hdr[card[:8].strip()] = card[9:].strip().strip("'").strip()
        if int(hdr.get('DIRECTIO', 0)) != 0 and (pos - start) % 512:
            padn = 512 - (pos - start) % 512
            if any(b != 0 for b in raw[pos:pos + padn]):
                return None, 'non-zero padding'
            pos += padn
        bs = int(hdr['BLOCSIZE'])
        if pos + bs > len(raw):
            return None, f"data block truncated ({len(raw) - pos} of {bs} bytes)"
        if any(isinstance(b, int) for b in raw[pos:pos + bs][:4]) and False:
            return None, 'text inside data'
        pos += bs
        blocks.append(hdr)
    return blocks, None


TEMPLATE_USER = {'SCAN': 0, 'CAL_FREQ': 0.0, 'OBSERVER': '', 'TELESCOP': 'X', 'NRCVR': 7}


def user_cards(k_extra, directio, template):
    """user-supplied cards: fresh keys, configuration-owned keys (must lose), and -- with the template -- keys the
    template also defines, with zero and empty values among them (must win over the template's)"""
    user = {}
    for i in range(k_extra):
        user[f'USR{i:02d}'] = (i if i % 3 else f'v{i}')
        if i == 0:
            # valid keywords that merely begin with the letters of the END card, and a value that spells it
            user.update({'ENDTIME': 59114.5, 'END_MJD': 'END', 'ENDIAN': 0})
    user.update({'NBITS': 2, 'NPOL': 9, 'OBSNCHAN': 77, 'BLOCSIZE': 5, 'TBIN': 0.5, 'CHAN_BW': 1.0, 'OBSBW': -3.0, 'OBSFREQ': 1.0, 'SCANLEN': 1.0, 'NANTS': 5})
    user['PKTIDX'] = 1000
    if template:
        user.update(TEMPLATE_USER)
    if directio is not None:
        user['DIRECTIO'] = directio
    return user


def kept_cards(user):
    return {k: v for k, v in user.items() if k not in OWNED and k != 'PKTIDX'}


def card_text(v):
    return str(v).strip("'").strip()


def job_record(k_extra, directio, nblocks, bpf, nant, template, prior=None):
    """real record() into memory, then the real readers and an independent parser.
    prior = (k_extra, directio, template) of an earlier recording made on the same backend object first"""
    recs = []
    tag = f"C04:record:{(k_extra, directio, nblocks, bpf, nant, template)}" + (f":after{prior}" if prior else '')
    fs = MemFS()
    user = user_cards(k_extra, directio, template)
    user_copy = dict(user)
    pl = dict(fn='record', k_extra=k_extra, directio=directio, nblocks=nblocks, bpf=bpf, nant=nant, template=template, prior=list(prior) if prior else None)
    problems = []
    with volt_patches(opener=fs.open, globber=type('G', (), {'glob': staticmethod(lambda pat: fs.glob(pat))})):
        be, ant, ws = C02.build(4, 2, 2, 1, 2, nant, 8, 0, 2, bpf)
        if prior:
            # the earlier recording stands at the SAME stem, is looked at by the readers, and is then replaced
            be.record('/mem/out', num_blocks=2, length_mode='num_blocks', header_dict=user_cards(prior[0], prior[1], prior[2]), digitize=True, verbose=False, load_template=prior[2])
            for nm in [n_ for n_ in fs.names() if n_.startswith('/mem/out.')]:
                RU.read_header(nm)
                RU.get_blocks_in_file(nm)
            RU.get_total_blocks('/mem/out')
            RU.get_raw_params('/mem/out', start_chan=0)
            for nm in [n_ for n_ in fs.names() if n_.startswith('/mem/out.')]:
                fs.files.pop(nm, None)
                fs.files.pop('__flat__' + nm, None)
        try:
            be.record('/mem/out', num_blocks=nblocks, length_mode='num_blocks', header_dict=user, digitize=True, verbose=False, load_template=template)
        except Exception as e:
            problems.append(f"record raised {type(e).__name__}: {e}")
        names = [n_ for n_ in fs.names() if n_.startswith('/mem/out.')] if not problems else []      # a truncated recording is not handed to the readers
        nfiles = -(-nblocks // bpf)
        if not problems and names != [f'/mem/out.{i:04d}.raw' for i in range(nfiles)]:
            problems.append(f"files {names}")
        total, pkt = 0, []
        for fi, nm in enumerate(names):
            raw = MemFile(fs.files, nm, 'rb')._flat()
            blocks, err = parse_file(raw)
            if err:
                problems.append(f"{nm}: {err}")
                continue
            want_nb = min(bpf, nblocks - fi * bpf)
            if len(blocks) != want_nb:
                problems.append(f"{nm}: {len(blocks)} blocks, expected {want_nb}")
            total += len(blocks)
            for h in blocks:
                pkt.append(int(h['PKTIDX']))
                cfg = dict(NBITS=be.num_bits, NPOL=be.num_pols, OBSNCHAN=be.num_chans * nant, BLOCSIZE=be.block_size)
                for k, v in cfg.items():
                    if int(h[k]) != v:
                        problems.append(f"{k}={h[k]} but configuration is {v}")
                if abs(float(h['TBIN']) - be.tbin) > 1e-12 or abs(float(h['CHAN_BW']) - be.chan_bw * 1e-6) > 1e-15 or abs(float(h['OBSBW']) - be.chan_bw * be.num_chans * 1e-6) > 1e-15:
                    problems.append('TBIN/CHAN_BW/OBSBW overridden')
                if abs(float(h['SCANLEN']) - nblocks * be.time_per_block) > 1e-12:
                    problems.append(f"SCANLEN={h['SCANLEN']}")
                if int(h.get('NANTS', 1)) != nant:
                    problems.append(f"NANTS={h.get('NANTS')} for {nant} antenna(s)")
                for k, v in kept_cards(user_copy).items():
                    if h.get(k) != card_text(v):
                        problems.append(f"user card {k}={v!r} not preserved: file has {h.get(k)!r}")
            # the library's readers on this file
            try:
                nb = RU.get_blocks_in_file(nm)
                if nb != want_nb:
                    problems.append(f"get_blocks_in_file({nm}) = {nb}, file holds {want_nb}")
                hd = RU.read_header(nm)
                if blocks and set(hd) != set(blocks[0]):
                    problems.append("read_header keys differ from the independent parse")
            except Exception as e:
                problems.append(f"reader raised {type(e).__name__}: {e}")
        if total != nblocks:
            problems.append(f"{total} blocks recorded, {nblocks} requested")
        # spectra per block from the block geometry itself (BLOCSIZE over channels x antennas x bytes per time sample)
        spb_spec = be.block_size // (be.num_antennas * be.num_chans * (2 * be.num_pols * be.num_bits // 8))
        if pkt != [1000 + i * spb_spec for i in range(len(pkt))]:
            problems.append(f"PKTIDX sequence {pkt[:4]} (a block holds {spb_spec} spectra)")
        # whatever order the file system lists the files in
        try:
            for perm in (itertools.permutations(names) if names else []):
                with shadow.patched(RU, glob=type('G', (), {'glob': staticmethod(lambda pat, perm=perm: list(perm))})):
                    tb = RU.get_total_blocks('/mem/out')
                if tb != nblocks:
                    problems.append(f"get_total_blocks = {tb} for listing order {[p[-8:] for p in perm]}, true total {nblocks}")
                    break
            if not names:
                raise core.HarnessError('skip')
            if RU.get_blocks_per_file('/mem/out') != min(bpf, nblocks):
                problems.append('get_blocks_per_file')
            rp = RU.get_raw_params('/mem/out', start_chan=0)
            if (rp['num_bits'], rp['num_pols'], rp['num_antennas'], rp['num_chans'], rp['block_size']) != (8, 2, nant, 2, be.block_size):
                problems.append(f"get_raw_params {rp}")
        except core.HarnessError:
            pass
        except Exception as e:
            problems.append(f"reader raised {type(e).__name__}: {e}")
    r, _ = core.check([RV(int(not problems)) != 1])
    recs.append(q(tag, r, detail='; '.join(problems[:3])))
    if problems:
        kind = 'raise' if any('record raised' in p for p in problems) else 'user-card' if any('user card' in p for p in problems) else 'listing-order' if any('listing order' in p for p in problems) else ('NANTS' if any('NANTS' in p for p in problems) else ('readers' if any('get_blocks_in_file' in p or 'reader' in p for p in problems) else 'framing'))
        recs.append(cex(f'C04:record:{kind}', '; '.join(problems[:3]), pl, name=tag))
    return recs


def job_config_fields(nant, asc=True, restep=False):
    """_header_populate_configuration with arbitrary (symbolic) user values under configuration-owned keys,
    for ascending and descending bands (CHAN_BW, OBSBW negative, OBSFREQ counted downwards).
    restep: the recorded sub-band is moved on the existing backend (start_chan re-assigned) before the header is made"""
    recs = []
    with volt_patches():
        be, ant, ws = C02.build(4, 2, 2, 1, 2, nant, 8, 1, 1, 2, asc)
        if restep:
            be.start_chan = 0
        be.num_blocks, be.obs_length = 3, 3 * be.time_per_block
        hd = {k: Sym(z3.Real(f'user_{k}')) for k in OWNED}
        hd['USERCARD'] = Sym(z3.Real('user_card'))
        out = be._header_populate_configuration(hd)
    center = (be.start_chan + (be.num_chans - 1) / 2) * be.chan_bw + be.fch1
    want = dict(NBITS=be.num_bits, NPOL=be.num_pols, OBSNCHAN=be.num_chans * nant, NANTS=nant, BLOCSIZE=be.block_size, TBIN=be.tbin,
                CHAN_BW=be.chan_bw * 1e-6, OBSBW=be.chan_bw * be.num_chans * 1e-6, OBSFREQ=center * 1e-6, SCANLEN=be.obs_length)
    for k, v in want.items():
        r, _ = core.check([lift(out.get(k, Sym(z3.Real('missing')))) != RV(v)], timeout_ms=30000)
        nm = f"C04:config-owned:{nant}:{'asc' if asc else 'desc'}:{k}" + (':restep' if restep else '')
        recs.append(q(nm, r))
        if r == 'sat':
            recs.append(cex(f'C04:config-owned:{k}', f'card {k} is not the configuration value {v}' + (' after start_chan was re-assigned' if restep else ' (user-supplied value / stale value)'), dict(fn='config', nant=nant, asc=asc, key=k, restep=restep), name=nm))
    r, _ = core.check([lift(out['USERCARD']) != z3.Real('user_card')])
    recs.append(q(f"C04:config-owned:{nant}:{'asc' if asc else 'desc'}:user-card-kept", r))
    r, _ = core.check([lift(out['USERCARD']) != 0])
    recs.append(q(f"C04:config-owned:{nant}:{'asc' if asc else 'desc'}:twin", r, expect='sat'))
    return recs


# ---------------------------------------------------------------- concrete oracles
def replay_make_header(p):
    import io
    from setigen.voltage import backend as bk, polyphase_filterbank as pf, quantization as qz, antenna as an
    be = bk.RawVoltageBackend(an.Antenna(sample_rate=1024.0, num_pols=2, seed=1), qz.RealQuantizer(), pf.PolyphaseFilterbank(num_taps=2, num_branches=4),
                              qz.ComplexQuantizer(), start_chan=0, num_chans=2, block_size=32, blocks_per_file=2, num_subblocks=1)
    nk = p['lines'] - 2 - (1 if p['directio'] is not None else 0)
    if nk < 0:
        return False, 'header too short to hold PKTIDX/DIRECTIO'
    hd = {f'K{i:02d}': i for i in range(nk)}
    if p['directio'] is not None:
        hd['DIRECTIO'] = p['directio']
    hd['PKTIDX'] = 0
    f = io.BytesIO()
    be._make_header(f, hd)
    n = len(f.getvalue())
    h = len(hd) + 1
    padded = p['directio'] is not None and int(str(p['directio']).replace("'", "")) != 0
    want = -(-80 * h // 512) * 512 if padded else 80 * h
    return n != want, f"_make_header wrote {n} bytes for {h} cards incl. END (DIRECTIO={p['directio']!r}); a GUPPI reader expects {want}"


def replay_record(p):
    import os
    import shutil
    import tempfile
    from blimpy.guppi import GuppiRaw
    from setigen.voltage import backend as bk, polyphase_filterbank as pf, quantization as qz, antenna as an, raw_utils as ru
    nant, nblocks, bpf = p['nant'], p['nblocks'], p['bpf']
    src = an.Antenna(sample_rate=1024.0, num_pols=2, seed=1) if nant == 1 else an.MultiAntennaArray(nant, sample_rate=1024.0, num_pols=2, delays=[0] * nant, seed=1)
    for st in (src.streams if nant == 1 else [s for a in src.antennas for s in a.streams]):
        st.add_noise(0, 1)
    be = bk.RawVoltageBackend(src, qz.RealQuantizer(), pf.PolyphaseFilterbank(num_taps=2, num_branches=4), qz.ComplexQuantizer(), start_chan=0, num_chans=2,
                              block_size=2 * 2 * nant * 2 * 4 * 64, blocks_per_file=bpf, num_subblocks=1)
    user = user_cards(p['k_extra'], p['directio'], p['template'])
    user_copy = dict(user)
    d = tempfile.mkdtemp(prefix='c04_', dir='/var/tmp')
    msgs = []
    try:
        stem = os.path.join(d, 'o')
        if p.get('prior'):
            pr = p['prior']
            be.record(stem, num_blocks=2, length_mode='num_blocks', header_dict=user_cards(pr[0], pr[1], pr[2]), digitize=True, verbose=False, load_template=pr[2])
            for f_ in sorted(os.listdir(d)):
                ru.read_header(os.path.join(d, f_))
                ru.get_blocks_in_file(os.path.join(d, f_))
            ru.get_total_blocks(stem)
            ru.get_raw_params(stem, start_chan=0)
            for f_ in os.listdir(d):
                os.remove(os.path.join(d, f_))
        be.record(stem, num_blocks=nblocks, length_mode='num_blocks', header_dict=user, digitize=True, verbose=False, load_template=p['template'])
        files = sorted(os.listdir(d))
        total = 0
        for fi, fn in enumerate(files):
            raw = list(open(os.path.join(d, fn), 'rb').read())
            blocks, err = parse_file(raw)
            want_nb = min(bpf, nblocks - fi * bpf)
            if err or len(blocks) != want_nb:
                msgs.append(f"{fn}: independent parse: {err or str(len(blocks)) + ' blocks'} (expected {want_nb})")
                continue
            total += len(blocks)
            nb = ru.get_blocks_in_file(os.path.join(d, fn))
            if nb != want_nb:
                msgs.append(f"get_blocks_in_file({fn}) = {nb}, file holds {want_nb}")
            if int(blocks[0].get('NANTS', 1)) != nant or int(blocks[0]['NBITS']) != 8:
                msgs.append(f"header NANTS={blocks[0].get('NANTS')} NBITS={blocks[0]['NBITS']} for {nant} antenna(s), 8 bits")
            for k, v in kept_cards(user_copy).items():
                if blocks[0].get(k) != card_text(v):
                    msgs.append(f"user card {k}={v!r} not preserved: file has {blocks[0].get(k)!r}")
            if be.block_size % 512 == 0 and str(p['directio']) in ('None', '0', '1'):
                g = GuppiRaw(os.path.join(d, fn))
                cnt = 0
                try:
                    for _ in range(want_nb):
                        hdr, _x = g.read_next_data_block()
                        cnt += 1
                except Exception as e:
                    msgs.append(f"blimpy failed on block {cnt} of {fn}: {type(e).__name__}")
        if total != nblocks:
            msgs.append(f"{total} blocks, requested {nblocks}")
        pk = []
        for fn in files:
            bl, _e = parse_file(list(open(os.path.join(d, fn), 'rb').read()))
            pk += [int(h_['PKTIDX']) for h_ in (bl or [])]
        spb_spec = be.block_size // (nant * 2 * (2 * 2 * 8 // 8))          # channels x antennas x bytes per time sample (2 pols, 8 bit)
        if pk != [1000 + i * spb_spec for i in range(len(pk))]:
            msgs.append(f"PKTIDX sequence over the recording {pk}, expected steps of {spb_spec} (spectra per block) from 1000")
        import glob as _g
        for perm in itertools.permutations([os.path.join(d, f) for f in files]):
            orig = ru.glob.glob
            ru.glob.glob = lambda pat, perm=perm: list(perm)
            try:
                tb = ru.get_total_blocks(stem)
            finally:
                ru.glob.glob = orig
            if tb != nblocks:
                msgs.append(f"get_total_blocks = {tb} when the directory lists {[os.path.basename(x) for x in perm]}; true total {nblocks}")
                break
    except Exception as e:
        msgs.append(f"raised {type(e).__name__}: {e}")
    finally:
        shutil.rmtree(d, ignore_errors=True)
    return bool(msgs), '; '.join(msgs[:3]) or 'recording is well-formed and all readers agree'


def replay_readers(p):
    """a real file whose header has exactly the given number of cards (+ END) and DIRECTIO value, written by the real
    _make_header; every reader must skip / count what the writer emitted.  Card counts around the candidate (and the
    512-aligned ones) are tried as well."""
    import os
    import shutil
    import tempfile
    from setigen.voltage import backend as bk, polyphase_filterbank as pf, quantization as qz, antenna as an, raw_utils as ru
    be = bk.RawVoltageBackend(an.Antenna(sample_rate=1024.0, num_pols=2, seed=1), qz.RealQuantizer(), pf.PolyphaseFilterbank(num_taps=2, num_branches=4),
                              qz.ComplexQuantizer(), start_chan=0, num_chans=2, block_size=1024, blocks_per_file=4, num_subblocks=1)
    dv = p['directio']
    base = ['BLOCSIZE', 'PKTIDX'] + (['DIRECTIO'] if dv is not None else [])
    d = tempfile.mkdtemp(prefix='c04r_', dir='/var/tmp')
    msgs = []
    try:
        for cards in sorted({max(p['cards'], len(base)), 31, 63, 95, 5, 32, 64, len(base)}):
            hd = {'BLOCSIZE': 1024, 'PKTIDX': 0}
            if dv is not None:
                hd['DIRECTIO'] = dv
            for i in range(cards - len(hd)):
                hd[f'K{i:03d}'] = i
            fn = os.path.join(d, f'r{cards}.0000.raw')
            sizes = []
            with open(fn, 'wb') as f:
                for b in range(3):
                    at = f.tell()
                    be._make_header(f, hd)
                    sizes.append(f.tell() - at)
                    f.write(bytes(1024))
            hdr = ru.read_header(fn)
            got = ru.get_header_size(hdr)
            if got != sizes[0]:
                msgs.append(f"get_header_size = {got} for {cards} cards + END (DIRECTIO={dv!r}); the writer emitted {sizes[0]} bytes")
            try:
                nb = ru.get_blocks_in_file(fn)
            except Exception as e:
                nb = f"{type(e).__name__}"
            if nb != 3:
                msgs.append(f"get_blocks_in_file = {nb} for a file of 3 blocks with {cards} cards (DIRECTIO={dv!r})")
            # the same question for from_data, on a real recording whose header has this many cards
            src = an.Antenna(sample_rate=1024.0, num_pols=2, seed=1)
            src.x.add_noise(0, 1)
            src.y.add_noise(0, 1)
            be2 = bk.RawVoltageBackend(src, qz.RealQuantizer(), pf.PolyphaseFilterbank(num_taps=2, num_branches=4), qz.ComplexQuantizer(), start_chan=0, num_chans=2,
                                       block_size=1024, blocks_per_file=4, num_subblocks=1)
            probe = {} if dv is None else {'DIRECTIO': dv}
            be2.record(os.path.join(d, f'probe{cards}'), num_blocks=1, length_mode='num_blocks', header_dict=dict(probe), verbose=False, load_template=False)
            base_cards = len(ru.read_header(os.path.join(d, f'probe{cards}.0000.raw')))
            if cards >= base_cards:
                user = dict(probe)
                user.update({f'K{i:03d}': i for i in range(cards - base_cards)})
                be2.record(os.path.join(d, f'in{cards}'), num_blocks=2, length_mode='num_blocks', header_dict=user, verbose=False, load_template=False)
                true_hdr = os.path.getsize(os.path.join(d, f'in{cards}.0000.raw')) // 2 - 1024
                hs = bk.RawVoltageBackend.from_data(os.path.join(d, f'in{cards}'), an.Antenna(sample_rate=1024.0, num_pols=2, seed=1), digitizer=qz.RealQuantizer(),
                                                    filterbank=pf.PolyphaseFilterbank(num_taps=2, num_branches=4), start_chan=0, num_subblocks=1).header_size
                if hs != true_hdr:
                    msgs.append(f"from_data takes the input header to be {hs} bytes for {cards} cards + END (DIRECTIO={dv!r}); the recording has {true_hdr}")
            if msgs:
                break
    except Exception as e:
        msgs.append(f"raised {type(e).__name__}: {e}")
    finally:
        shutil.rmtree(d, ignore_errors=True)
    if msgs:
        return True, '; '.join(msgs[:2])
    pp = dict(fn='record', k_extra=max(0, p['cards'] - 16), directio=p['directio'], nblocks=5, bpf=5, nant=1, template=False)
    return replay_record(pp)


def replay_config(p):
    """real recording from an ascending / descending source: the pipeline-owned cards describe the configuration"""
    import os
    import shutil
    import tempfile
    from setigen.voltage import backend as bk, polyphase_filterbank as pf, quantization as qz, antenna as an, raw_utils as ru
    nant, asc = p['nant'], p['asc']
    src = an.Antenna(sample_rate=1024.0, fch1=5000.0, ascending=asc, num_pols=2, seed=1) if nant == 1 else an.MultiAntennaArray(nant, sample_rate=1024.0, fch1=5000.0, ascending=asc, num_pols=2, delays=[0] * nant, seed=1)
    for st in (src.streams if nant == 1 else [s_ for a in src.antennas for s_ in a.streams]):
        st.add_noise(0, 1)
    be = bk.RawVoltageBackend(src, qz.RealQuantizer(), pf.PolyphaseFilterbank(num_taps=2, num_branches=8), qz.ComplexQuantizer(), start_chan=1, num_chans=2,
                              block_size=4 * 2 * nant * 2 * 4, blocks_per_file=2, num_subblocks=1)
    d = tempfile.mkdtemp(prefix='c04c_', dir='/var/tmp')
    sc = 1
    try:
        if p.get('restep'):
            be.record(os.path.join(d, 'first'), num_blocks=1, length_mode='num_blocks', header_dict={}, verbose=False, load_template=False)
            sc = 2
            be.start_chan = sc                     # the same backend stepped to the next sub-band
        be.record(os.path.join(d, 'o'), num_blocks=2, length_mode='num_blocks', header_dict={'OBSBW': 1.0, 'CHAN_BW': 9.0}, verbose=False, load_template=False)
        h = ru.read_header(os.path.join(d, 'o.0000.raw'))
    finally:
        shutil.rmtree(d, ignore_errors=True)
    sgn = 1.0 if asc else -1.0
    cbw = sgn * 1024.0 / 8 * 1e-6
    want = dict(CHAN_BW=cbw, OBSBW=cbw * 2, OBSFREQ=(5000.0 + sgn * (sc + 0.5) * 1024.0 / 8) * 1e-6, TBIN=8 / 1024.0, OBSNCHAN=2 * nant, NBITS=8, NPOL=2)
    bad = [f"{k}={h.get(k)} (configuration: {v!r})" for k, v in want.items() if not np.isclose(float(h.get(k, 'nan')), v, rtol=1e-12, atol=0)]
    return bool(bad), ('; '.join(bad) or 'configuration cards describe the configuration') + f" [{'ascending' if asc else 'descending'}, {nant} antenna(s)]"


REPLAYS = {'config': replay_config, 'make_header': replay_make_header, 'record': replay_record, 'readers': replay_readers}


def main():
    ck = Check('C04', 'Recorded files are well-formed GUPPI RAW and all readers agree on framing')
    ck.functions = ['RawVoltageBackend._make_header', 'RawVoltageBackend.record', 'RawVoltageBackend._header_populate_configuration', 'RawVoltageBackend._header_add_from_template',
                    'RawVoltageBackend.from_data (header_size slice)', 'raw_utils.format_header_line', 'raw_utils.get_header_key_val', 'raw_utils.read_header', 'raw_utils.get_header_size',
                    'raw_utils.get_blocks_in_file', 'raw_utils.get_blocks_per_file', 'raw_utils.get_total_blocks', 'raw_utils.get_raw_params', 'raw_utils.get_dists (slice)', 'waterfall.get_waterfall_from_raw (slice)']
    ck.files = ['setigen/voltage/backend.py', 'setigen/voltage/raw_utils.py', 'setigen/voltage/waterfall.py', 'setigen/voltage/assets/header_template.txt']
    ck.stubs = ['open() -> in-memory files; glob.glob -> every permutation of the true listing', 'antenna/quantisers as in C02 (payload symbolic)', 'len(header) -> symbolic integer in the header-size obligations',
                'blimpy.guppi padding rule transcribed (guppi.py:149-153) and, in replays, the real blimpy reader']
    ck.assumptions = ['cards whose value fits 80 characters; card text formatting of concrete values is exercised through the byte-level independent parser, not quantified symbolically (CrossHair does not confirm symbolic int formatting within 30 s per condition)',
                      'BLOCSIZE multiple of 512 when comparing with blimpy absolute-offset alignment', 'DIRECTIO in absent/0/1 (and string spellings)']
    jobs = [('job_pad_lemma', ()), ('job_reader_sizes', ())]
    for i in range(len(DIRECTIO_VARIANTS)):
        jobs.append(('job_make_header', (i,)))
    for bpf in ((1, 2, 3, 5, 128) if not ck.thorough else (1, 2, 3, 4, 5, 7, 16, 128)):
        jobs.append(('job_file_split', (bpf,)))
    ks = range(0, 33, 3) if not ck.thorough else range(0, 34)
    for k in ks:
        for directio in (None, 0, 1):
            jobs.append(('job_record', (k, directio, 3, 2, 1, False)))
    for k in (0, 3, 5, 11, 16, 21, 30):
        for directio in (None, 0, 1):
            jobs.append(('job_record', (k, directio, 6, 6, 1, False)))
    for (nblocks, bpf) in ((1, 1), (3, 1), (3, 3), (2, 3), (5, 2)):
        jobs.append(('job_record', (4, 1, nblocks, bpf, 1, True)))
        jobs.append(('job_record', (2, 0, nblocks, bpf, 1, True)))
        jobs.append(('job_record', (3, None, nblocks, bpf, 1, True)))
        jobs.append(('job_record', (17, 0, nblocks, bpf, 2, False)))
    # a second recording on the same backend object, with another header layout than the first
    for (cur, prior) in (((3, 0, 3, 2, 1, False), (3, 1, False)), ((3, 1, 3, 2, 1, False), (3, 0, False)), ((12, 1, 3, 2, 1, False), (3, 1, False)), ((3, None, 2, 2, 1, True), (3, 1, False)),
                         ((18, 1, 3, 3, 1, False), (17, 1, False)), ((2, 1, 2, 1, 1, False), (2, None, True))):
        jobs.append(('job_record', cur + (prior,)))
    for nant in (1, 2):
        jobs.append(('job_config_fields', (nant,)))
        jobs.append(('job_config_fields', (nant, False)))
        jobs.append(('job_config_fields', (nant, nant == 1, True)))
    ck.bounds = dict(header_cards='symbolic integer >= 1 (size obligations); 0..40 cards executed; user cards 0..33 in recordings', directio=[v for v, _ in DIRECTIO_VARIANTS],
                     blocks='1..5', blocks_per_file='1..3 (recordings), symbolic n with bpf in 1..128 (split slice)', listing='all permutations of <= 3 files')
    ck.run_jobs('props.C04', jobs, timeout_s=900)
    ck.finish()


if __name__ == '__main__':
    main()
