"""C02 -- recorded RAW samples equal the reference pipeline, whatever the partitioning.

E1: the real RawVoltageBackend.record / collect_data_block / _make_header and the real
PolyphaseFilterbank.channelize (with its cache) run on a symbolic voltage stream S(ant, pol, k); digitiser and
requantiser are element-wise uninterpreted functions per (antenna, polarisation) -- the property's "statistics
from a common prefix" premise -- numpy.fft is the exact DFT, files are in-memory.
"""
import itertools
import time

import numpy as np
import z3

from symx import core, npx
from symx.core import Sym, SymC, lift, RV, UF
from symx.report import Check, q, cex, note
from props.volt_common import (B, PF, Q, A, DS, volt_patches, MemFS, pfb_spec, cparts, diff_terms)

RS = z3.RealSort()
SF = z3.Function('S', RS, RS, RS, RS)          # sample(ant, pol, k)
QD = z3.Function('Qd', RS, RS, RS, RS)         # digitiser(ant, pol, v)
QR = z3.Function('Qr', RS, RS, RS, RS)         # requantiser real part
QI = z3.Function('Qi', RS, RS, RS, RS)


class FakeAntenna(A.Antenna):
    """delivers S(0, pol, k) with a running sample index; records the request sizes"""

    def __init__(self, num_pols, asc=True):
        self.sample_rate = 1024.0
        self.dt = 1 / self.sample_rate
        self.num_pols = num_pols
        self.fch1 = 4096.0
        self.ascending = asc
        self.start_obs = True
        self.t_start = 0.0
        self.k = 0
        self.reqs = []
        self.ant0 = 0

    def reset_start(self):
        self.start_obs = True

    def get_samples(self, n):
        self.reqs.append((n, self.start_obs))
        out = np.empty((1, self.num_pols, n), dtype=object)
        for p in range(self.num_pols):
            for j in range(n):
                out[0, p, j] = Sym(SF(RV(self.ant0), RV(p), RV(self.k + j)))
        self.k += n
        self.t_start += n * self.dt
        self.start_obs = False
        return out.view(npx.SymArr)


class FakeArray(A.MultiAntennaArray):
    def __init__(self, num_antennas, num_pols, asc=True):
        self.sample_rate = 1024.0
        self.dt = 1 / self.sample_rate
        self.num_pols = num_pols
        self.num_antennas = num_antennas
        self.fch1 = 4096.0
        self.ascending = asc
        self.start_obs = True
        self.t_start = 0.0
        self.k = 0
        self.reqs = []

    def reset_start(self):
        self.start_obs = True

    def get_samples(self, n):
        self.reqs.append((n, self.start_obs))
        out = np.empty((self.num_antennas, self.num_pols, n), dtype=object)
        for a in range(self.num_antennas):
            for p in range(self.num_pols):
                for j in range(n):
                    out[a, p, j] = Sym(SF(RV(a), RV(p), RV(self.k + j)))
        self.k += n
        self.start_obs = False
        return out.view(npx.SymArr)


class UQ(Q.RealQuantizer):
    ident = (0, 0)

    def quantize(self, v, custom_std=None):
        a, p = self.ident
        return npx._map(lambda e: Sym(QD(RV(a), RV(p), lift(e))), v)


class UCQ(Q.ComplexQuantizer):
    ident = (0, 0)

    def quantize(self, v, custom_stds=None):
        a, p = self.ident

        def one(e):
            re, im = cparts(e)
            return SymC(Sym(QR(RV(a), RV(p), re)), Sym(QI(RV(a), RV(p), im)))
        return npx._map(one, v)


def build(P, taps, Wb, nsb, npol, nant, bits, start_chan, num_chans, bpf, asc=True):
    ant = FakeAntenna(npol, asc) if nant == 1 else FakeArray(nant, npol, asc)
    fb = PF.PolyphaseFilterbank(num_taps=taps, num_branches=P)
    rq = UCQ(num_bits=bits)
    T = taps * Wb
    bps = 2 * npol * bits // 8
    be = B.RawVoltageBackend(ant, UQ(), fb, rq, start_chan=start_chan, num_chans=num_chans,
                             block_size=T * nant * num_chans * bps, blocks_per_file=bpf, num_subblocks=nsb)
    w = npx.sarr([Sym(z3.Real(f'w_{m}')) for m in range(taps * P)])
    for a in range(nant):
        for p in range(npol):
            be.digitizer[a][p].ident = (a, p)
            be.requantizer[a][p].ident = (a, p)
            be.filterbank[a][p].window = w
    return be, ant, [lift(x) for x in w]


def spec_value(a, p, n, k, P, taps, ws, digitize, sample=None):
    """(re, im) of the recorded sample: antenna a, pol p, spectrum n (global), PFB channel k"""
    xs = {}

    class X:
        def __getitem__(self, i):
            s = SF(RV(a), RV(p), RV(i)) if sample is None else sample(a, p, i)
            return ((QD(RV(a), RV(p), s) if digitize else s), RV(0))
    re, im = pfb_spec(X(), ws, n, k, P, taps)
    return QR(RV(a), RV(p), re), QI(RV(a), RV(p), im)


def block_pairs(block, bi, cfg, ws, digitize, sample=None):
    """pairs (stored term, spec term) for one block given as a (obsnchan, ncol) array or flat list"""
    P, taps, Wb, npol, nant, bits, start_chan, num_chans = cfg
    T = taps * Wb
    bps = 2 * npol * bits // 8
    ncol = T * bps
    pairs = []
    for a in range(nant):
        for c in range(num_chans):
            row = a * num_chans + c
            for t in range(T):
                for p in range(npol):
                    re, im = spec_value(a, p, bi * T + t, start_chan + c, P, taps, ws, digitize, sample)
                    if bits == 8:
                        col = (t * npol + p) * 2
                        pairs.append((block[row * ncol + col], re))
                        pairs.append((block[row * ncol + col + 1], im))
                    else:
                        col = t * npol + p
                        pairs.append((block[row * ncol + col], re * 16 + z3.If(im < 0, im + 16, im)))
    return pairs, nant * num_chans * ncol


def job_record(P, taps, Wb, nsb, npol, nant, bits, start_chan, num_chans, nblocks, bpf, digitize):
    recs = []
    tag = f"C02:{(P, taps, Wb, nsb, npol, nant, bits, start_chan, num_chans, nblocks, bpf, digitize)}"
    fs = MemFS()
    pl = dict(fn='record', P=P, taps=taps, Wb=Wb, nsb=nsb, npol=npol, nant=nant, bits=bits, start_chan=start_chan,
              num_chans=num_chans, nblocks=nblocks, bpf=bpf, digitize=digitize)
    with volt_patches(opener=fs.open):
        be, ant, ws = build(P, taps, Wb, nsb, npol, nant, bits, start_chan, num_chans, bpf)
        be.record('/mem/out', num_blocks=nblocks, length_mode='num_blocks', header_dict={}, digitize=digitize, verbose=False, load_template=False)
    cfg = (P, taps, Wb, npol, nant, bits, start_chan, num_chans)
    # files and blocks: consecutive numbering, bpf blocks per file
    nfiles = -(-nblocks // bpf)
    names = fs.names()
    want_names = [f'/mem/out.{i:04d}.raw' for i in range(nfiles)]
    dis, total, ok = [], 0, names == want_names
    bi = 0
    if ok:
        for fi, nm in enumerate(want_names):
            writes = fs.files[nm]
            data = [w for w in writes if isinstance(w, npx.SymBytes)]
            nb = min(bpf, nblocks - fi * bpf)
            if len(data) != nb:
                ok = False
                break
            for blk in data:
                pairs, size = block_pairs(blk.items, bi, cfg, ws, digitize)
                if len(blk.items) != size:
                    ok = False
                    break
                for got, want in pairs:
                    d = z3.simplify(lift(got) - want, som=True)
                    total += 1
                    if not (z3.is_rational_value(d) and d.numerator_as_long() == 0):
                        dis.append(d != 0)
                bi += 1
    if not ok or bi != nblocks:
        recs.append(q(tag + ':framing', 'sat', detail=f"files {names}"))
        recs.append(cex('C02:framing', 'wrong files / number of blocks per file / block length', pl, name=tag + ':framing'))
        return recs
    t0 = time.time()
    r, m = core.check([z3.Or(*dis)] if dis else [z3.BoolVal(False)], timeout_ms=120000)
    recs.append(q(tag, r, ms=(time.time() - t0) * 1000, terms=total, by_solver=len(dis)))
    if r == 'sat':
        recs.append(cex(f"C02:samples:{'partial' if Wb % max(1, -(-Wb // nsb)) else 'even'}:{bits}bit", 'recorded bytes differ from the reference pipeline (requantised PFB of the digitised stream, in time order)', pl, name=tag))
    # samples drawn from the antenna: warm-up window once, then exactly T*P per block
    drawn = sum(n for n, _ in ant.reqs)
    okd = drawn == nblocks * taps * Wb * P + taps * P and ant.reqs[0][1] and not any(s for _, s in ant.reqs[1:])
    r, _ = core.check([RV(int(okd)) != 1])
    recs.append(q(tag + ':samples-drawn', r, trivial=True, detail=f"{drawn}"))
    if not okd:
        recs.append(cex('C02:samples-drawn', f'antenna asked for {drawn} samples in requests {ant.reqs[:6]}', pl, name=tag + ':samples-drawn'))
    return recs


def build_array(P, taps, Wb, nsb, npol, delays, noise=True, tone=False, t_start=0, bpf=2):
    """backend on the real MultiAntennaArray (call inside volt_patches with the generator-stub proxy)"""
    nant, bits = len(delays), 8
    arr = A.MultiAntennaArray(num_antennas=nant, sample_rate=1024.0, fch1=4096.0, ascending=True, num_pols=npol, delays=list(delays), t_start=t_start, seed=5)
    for ai, ant in enumerate(arr.antennas):
        for pi, st in enumerate(ant.streams):
            if noise:
                st.add_noise(0, 1)
            if tone:
                st.add_constant_signal(4096.0 + 100.0 + 13.0 * ai + 7.0 * pi, 0.0, 1.0)
    for pi, bg in enumerate(arr.bg_streams):
        if noise:
            bg.add_noise(0, 1)
        if tone:
            bg.add_constant_signal(4096.0 + 200.0 + 5.0 * pi, 0.0, 2.0)
    fb = PF.PolyphaseFilterbank(num_taps=taps, num_branches=P)
    T = taps * Wb
    be = B.RawVoltageBackend(arr, UQ(), fb, UCQ(num_bits=bits), start_chan=0, num_chans=P // 2,
                             block_size=T * nant * (P // 2) * 2 * npol, blocks_per_file=bpf, num_subblocks=nsb)
    w = npx.sarr([Sym(z3.Real(f'w_{m}')) for m in range(taps * P)])
    for a in range(nant):
        for p in range(npol):
            be.digitizer[a][p].ident = (a, p)
            be.requantizer[a][p].ident = (a, p)
            be.filterbank[a][p].window = w
    ws = [lift(x) for x in w]
    own = [[st.rng.seed for st in ant.streams] for ant in arr.antennas]
    bgs = [bg.rng.seed for bg in arr.bg_streams]
    return be, arr, ws, own, bgs


def job_array_source(P, taps, Wb, nsb, npol, delays, nblocks):
    """the real MultiAntennaArray (seeded noise on every own and background stream, as symbolic draws) as the source:
    the recording equals the reference pipeline applied to own_i(k) + background(k + max_delay - delay_i), or the
    configuration is refused -- allowed only when some later request is not larger than the largest delay"""
    from props.C10 import proxy as gen_proxy, ZF
    recs = []
    nant, bits = len(delays), 8
    tag = f"C02:array:{(P, taps, Wb, nsb, npol, tuple(delays), nblocks)}"
    pl = dict(fn='array', P=P, taps=taps, Wb=Wb, nsb=nsb, npol=npol, delays=list(delays), nblocks=nblocks)
    fs = MemFS()
    refused = None
    with volt_patches(opener=fs.open, proxy=gen_proxy()):
        be, arr, ws, own, bgs = build_array(P, taps, Wb, nsb, npol, delays)
        try:
            be.record('/mem/arr', num_blocks=nblocks, length_mode='num_blocks', header_dict={}, digitize=True, verbose=False, load_template=False)
        except AssertionError as e:
            refused = e
    mx = max(delays)
    # request sizes of this partition: first sub-block carries the warm-up window
    Wsub = -(-Wb // nsb)
    sizes, left = [], Wb
    while left > 0:
        sizes.append(min(Wsub, left) * taps * P)
        left -= min(Wsub, left)
    later_small = any(n <= mx for n in sizes[1:] + (sizes if nblocks > 1 else []))
    first_small = sizes[0] + taps * P <= mx
    if refused is not None:
        ok = later_small or first_small
        r, _ = core.check([RV(int(ok)) != 1])
        recs.append(q(tag + ':refusal-justified', r, trivial=True, detail=f"sizes {sizes}, max delay {mx}"))
        if not ok:
            recs.append(cex('C02:array:refused', f'recording from an array with delays {delays} raised although every request exceeds the largest delay', pl, name=tag + ':refusal-justified'))
        return recs

    def sample(a, p, i):
        return ZF(own[a][p], RV(i)) + ZF(bgs[p], RV(i + mx - delays[a]))
    cfg = (P, taps, Wb, npol, nant, bits, 0, P // 2)
    dis, total, bi, ok = [], 0, 0, True
    for nm in fs.names():
        for blk in [x for x in fs.files[nm] if isinstance(x, npx.SymBytes)]:
            pairs, size = block_pairs(blk.items, bi, cfg, ws, True, sample)
            ok = ok and len(blk.items) == size
            for got, want in pairs:
                d = z3.simplify(lift(got) - want, som=True)
                total += 1
                if not (z3.is_rational_value(d) and d.numerator_as_long() == 0):
                    dis.append(d != 0)
            bi += 1
    if not ok or bi != nblocks:
        recs.append(q(tag + ':framing', 'sat'))
        recs.append(cex('C02:array:framing', 'wrong number / size of blocks', pl, name=tag + ':framing'))
        return recs
    t0 = time.time()
    r, m = core.check([z3.Or(*dis)] if dis else [z3.BoolVal(False)], timeout_ms=120000)
    recs.append(q(tag, r, ms=(time.time() - t0) * 1000, terms=total, by_solver=len(dis)))
    if r == 'sat':
        recs.append(cex(f"C02:array:samples:{'small-request' if later_small else 'plain'}", 'bytes recorded from a delayed antenna array differ from the reference pipeline on own + delayed background samples', pl, name=tag))
    return recs


def replay_array(p):
    """real arrays with deterministic, index-coded own/background samples; recording compared with the reference on
    own_i(k) + bg(k + max - d_i) (or the configuration must be refused)"""
    import os
    import tempfile
    import shutil
    from setigen.voltage import backend as bk, polyphase_filterbank as pf, quantization as qz, antenna as an
    P, taps, Wb, nsb, npol, delays, nblocks = p['P'], p['taps'], p['Wb'], p['nsb'], p['npol'], p['delays'], p['nblocks']
    nant, T, mx = len(delays), taps * Wb, max(delays)
    tot = (nblocks * T + taps) * P + mx + 8
    rng = np.random.default_rng(5)
    own = rng.normal(0, 20, (nant, npol, tot))
    bgv = rng.normal(0, 20, (npol, tot))

    def mk():
        arr = an.MultiAntennaArray(num_antennas=nant, sample_rate=1024.0, fch1=4096.0, ascending=True, num_pols=npol, delays=list(delays), seed=1)
        for a, ant in enumerate(arr.antennas):
            for q_, st in enumerate(ant.streams):
                st.add_signal(lambda ts, a=a, q_=q_: own[a, q_, np.rint(np.asarray(ts) * 1024.0).astype(int)])
        for q_, bg in enumerate(arr.bg_streams):
            bg.add_signal(lambda ts, q_=q_: bgv[q_, np.rint(np.asarray(ts) * 1024.0).astype(int)])
        return arr

    class FQ(qz.RealQuantizer):
        def quantize(s, v, custom_std=None):
            return np.clip(np.around(v), -128, 127)

    class FCQ(qz.ComplexQuantizer):
        def quantize(s, v, custom_stds=None):
            return np.clip(np.around(np.real(v) * 0.5), -128, 127) + 1j * np.clip(np.around(np.imag(v) * 0.5), -128, 127)
    d = tempfile.mkdtemp(prefix='c02a_', dir='/var/tmp')
    try:
        be = bk.RawVoltageBackend(mk(), FQ(), pf.PolyphaseFilterbank(num_taps=taps, num_branches=P), FCQ(num_bits=8), start_chan=0, num_chans=P // 2,
                                  block_size=T * nant * (P // 2) * 2 * npol, blocks_per_file=2, num_subblocks=nsb)
        Wsub = -(-Wb // nsb)
        sizes, left = [], Wb
        while left > 0:
            sizes.append(min(Wsub, left) * taps * P)
            left -= min(Wsub, left)
        small = any(n <= mx for n in sizes[1:] + (sizes if nblocks > 1 else [])) or sizes[0] + taps * P <= mx
        try:
            be.record(os.path.join(d, 'o'), num_blocks=nblocks, length_mode='num_blocks', header_dict={}, digitize=True, verbose=False, load_template=False)
        except AssertionError:
            return (not small), f"recording refused (requests {sizes}, largest delay {mx})"
        got = []
        for i in range(-(-nblocks // 2)):
            raw = open(os.path.join(d, f'o.{i:04d}.raw'), 'rb').read()
            pos = 0
            while pos < len(raw):
                end = raw.index(b'END' + b' ' * 77, pos) + 80
                got.append(np.frombuffer(raw[end:end + be.block_size], dtype=np.int8).copy())
                pos = end + be.block_size
        w = np.array(be.filterbank[0][0].window)
        want = []
        streams = np.array([[np.clip(np.around(own[a, q_, :tot - mx - 8] + bgv[q_, mx - delays[a]:mx - delays[a] + tot - mx - 8]), -128, 127) for q_ in range(npol)] for a in range(nant)])
        from props.C08 import ref_pfb
        for b in range(nblocks):
            blk = np.zeros((nant * (P // 2), T, npol, 2), dtype=np.int8)
            for a in range(nant):
                for q_ in range(npol):
                    spec = ref_pfb(streams[a, q_, :(nblocks * T + taps) * P], w, P, taps)[b * T:(b + 1) * T, :P // 2]
                    blk[a * (P // 2):(a + 1) * (P // 2), :, q_, 0] = np.clip(np.around(spec.real * 0.5), -128, 127).T
                    blk[a * (P // 2):(a + 1) * (P // 2), :, q_, 1] = np.clip(np.around(spec.imag * 0.5), -128, 127).T
            want.append(blk.reshape(-1))
        if len(got) != nblocks:
            return True, f"{len(got)} blocks recorded, {nblocks} requested"
        nbad = sum(int(np.sum(g != w_)) for g, w_ in zip(got, want))
        return nbad > 0, f"{nbad} recorded bytes differ from the reference on own + delayed background (requests {sizes}, delays {delays})"
    finally:
        shutil.rmtree(d, ignore_errors=True)


def job_partition(P, taps, Wb, npol, bits):
    """term arrays of collect_data_block are identical for every num_subblocks (direct comparison)"""
    recs = []
    outs = {}
    for nsb in range(1, Wb + 2):
        with volt_patches():
            be, ant, ws = build(P, taps, Wb, nsb, npol, 1, bits, 0, P // 2, 4)
            ant.reset_start()
            blocks = [be.collect_data_block(digitize=True, requantize=True, verbose=False) for _ in range(2)]
        outs[nsb] = blocks
    ref = outs[1]
    for nsb, blocks in outs.items():
        dis = []
        for b0, b1 in zip(ref, blocks):
            if b0.shape != b1.shape:
                dis = [z3.BoolVal(True)]
                break
            for idx in np.ndindex(b0.shape):
                d = z3.simplify(lift(b0[idx]) - lift(b1[idx]), som=True)
                if not (z3.is_rational_value(d) and d.numerator_as_long() == 0):
                    dis.append(d != 0)
        r, _ = core.check([z3.Or(*dis)] if dis else [z3.BoolVal(False)], timeout_ms=60000)
        name = f"C02:partition:{(P, taps, Wb, npol, bits)}:nsb{nsb}"
        recs.append(q(name, r))
        if r == 'sat':
            recs.append(cex('C02:partition', f'num_subblocks={nsb} gives different bytes than num_subblocks=1',
                            dict(fn='record', P=P, taps=taps, Wb=Wb, nsb=nsb, npol=npol, nant=1, bits=bits, start_chan=0, num_chans=P // 2, nblocks=2, bpf=4, digitize=True), name=name))
    # twin: the two blocks differ from each other
    r, _ = core.check([lift(ref[0][0, 0]) != lift(ref[1][0, 0])])
    recs.append(q(f"C02:partition:{(P, taps, Wb, npol, bits)}:twin", r, expect='sat'))
    return recs


def job_partition_real_quantizers(period, Wb, npol):
    """the REAL RealQuantizer / ComplexQuantizer objects (their refresh schedule and caches) in the pipeline, with
    statistics held from the first call (period <= 0, or longer than the recording): the recorded bytes are the same
    terms for every num_subblocks.  estimate_stats is a function of the first sample it is shown (a common prefix);
    the element-wise map is an uninterpreted function of (value, mean, deviation)."""
    from props.C12 import quantize_real_stub, SMU, SSD
    recs = []
    P, taps = 4, 2

    windows = []

    def stats_first(voltages, stats_calc_num_samples=10000, **kw):
        windows.append(stats_calc_num_samples)
        fr, fi = cparts(voltages.flat[0] if isinstance(voltages, np.ndarray) else voltages[0])
        sd = Sym(SSD(fr, RV(1)))
        core.side(sd.t > 0)
        return Sym(SMU(fr, RV(1))), sd
    outs = {}
    for nsb in range(1, Wb + 2):
        fs = MemFS()
        with volt_patches(opener=fs.open, extra=[(DS, dict(estimate_stats=stats_first)), (Q, dict(quantize_real=quantize_real_stub))]):
            def run():
                ant = FakeAntenna(npol)
                fb = PF.PolyphaseFilterbank(num_taps=taps, num_branches=P)
                be = B.RawVoltageBackend(ant, Q.RealQuantizer(num_bits=8, stats_calc_period=period, stats_calc_num_samples=1), fb,
                                         Q.ComplexQuantizer(num_bits=8, stats_calc_period=period, stats_calc_num_samples=1), start_chan=0, num_chans=P // 2,
                                         block_size=taps * Wb * (P // 2) * 2 * npol, blocks_per_file=2, num_subblocks=nsb)
                w = npx.sarr([Sym(z3.Real(f'w_{m}')) for m in range(taps * P)])
                for p in range(npol):
                    be.filterbank[0][p].window = w
                    be.filterbank[0][p].channelized_stds = npx.sarr([Sym(RV(1)), Sym(RV(1))])
                be.record('/mem/o', num_blocks=2, length_mode='num_blocks', header_dict={}, digitize=True, verbose=False, load_template=False)
                ant.k = 0          # the same stream again: a second recording on the same backend object,
                be.num_subblocks = (nsb % (Wb + 1)) + 1      # ... with the partition knob turned in between
                be.record('/mem/p', num_blocks=2, length_mode='num_blocks', header_dict={}, digitize=True, verbose=False, load_template=False)
            leaf = core.run_single(run, [])
        data = []
        for nm in fs.names():
            data += [list(x.items) for x in fs.files[nm] if isinstance(x, npx.SymBytes)]
        outs[nsb] = (data, leaf.side)
    ref, _ = outs[1]
    for nsb, (data, side) in outs.items():
        name = f"C02:partition-real-quantisers:{(period, Wb, npol)}:nsb{nsb}"
        dis = []
        ok = len(data) == len(ref) == 4 and all(len(a) == len(b) for a, b in zip(data, ref))
        if ok:
            for a, b in zip(data, ref):
                for x, y in zip(a, b):
                    d = z3.simplify(lift(x) - lift(y))
                    if not (z3.is_rational_value(d) and d.numerator_as_long() == 0):
                        dis.append(d != 0)
        r, _ = core.check(([z3.Or(*dis)] if dis else [z3.BoolVal(False)]) if ok else [z3.BoolVal(True)], timeout_ms=60000)
        recs.append(q(name, r, by_solver=len(dis)))
        if r == 'sat':
            recs.append(cex('C02:partition:real-quantisers', f'with quantiser statistics held from the first call (period {period}), num_subblocks={nsb} records other bytes than num_subblocks=1',
                            dict(fn='partition_real', period=period, Wb=Wb, npol=npol, nsb=nsb), name=name))
    # the second recording of the same stream (made with ANOTHER num_subblocks, assigned between the recordings) repeats
    # the first: nothing of the first one, and nothing of its partition, is carried over
    dis = []
    for nsb_, (data_, _) in outs.items():
        if len(data_) == 4:
            dis += [z3.simplify(lift(x) - lift(y)) != 0 for a, b in zip(ref[:2], data_[2:]) for x, y in zip(a, b)]
    dis = [c for c in dis if not z3.is_false(z3.simplify(c))]
    r, _ = core.check([z3.Or(*dis)] if dis else [z3.BoolVal(False)], timeout_ms=60000)
    recs.append(q(f"C02:partition-real-quantisers:{(period, Wb, npol)}:second-recording", r))
    if r == 'sat':
        recs.append(cex('C02:partition:real-quantisers:second', f'period {period}: a second recording of the same stream on the same backend differs from the first', dict(fn='partition_real', period=period, Wb=Wb, npol=npol, nsb=1), name=f"C02:partition-real-quantisers:{(period, Wb, npol)}:second-recording"))
    r, _ = core.check([lift(ref[0][0]) != lift(ref[1][0])])
    recs.append(q(f"C02:partition-real-quantisers:{(period, Wb, npol)}:twin", r, expect='sat'))
    # "statistics from a common prefix": every estimate the digitiser / requantiser asked for used the configured prefix
    # length (1 sample here), whatever the partition
    name = f"C02:partition-real-quantisers:{(period, Wb, npol)}:configured-prefix"
    wrong = sorted({w for w in windows if w != 1})
    r, _ = core.check([RV(len(wrong)) != 0])
    recs.append(q(name, r, requests=len(windows), detail=str(wrong)))
    if wrong:
        recs.append(cex('C02:configured-prefix', f'period {period}: quantiser statistics were requested over {wrong} samples, the configured prefix is 1', dict(fn='partition_real', period=period, Wb=Wb, npol=npol, nsb=1, prefix=True), name=name))
    # each stored sample is a function of its OWN polarisation's stream (its requantiser holds that stream's statistics):
    # no term of polarisation p may mention a sample of the other polarisation
    if npol == 2:
        foreign = []
        for bi, blk in enumerate(ref[:2]):
            ncol = len(blk) // (P // 2)
            for i, e in enumerate(blk):
                pol = ((i % ncol) // 2) % npol
                if pols_in(lift(e)) - {pol}:
                    foreign.append((bi, i, pol))
        name = f"C02:partition-real-quantisers:{(period, Wb, npol)}:own-stream"
        r, _ = core.check([RV(len(foreign)) != 0])
        recs.append(q(name, r, detail=str(foreign[:3])))
        if foreign:
            recs.append(cex('C02:own-stream', f'period {period}: the stored samples of one polarisation depend on the other polarisation\'s stream (first: block {foreign[0][0]}, byte {foreign[0][1]})',
                            dict(fn='partition_real', period=period, Wb=Wb, npol=npol, nsb=1, own_stream=True), name=name))
    return recs


def pols_in(term):
    """polarisation indices of the antenna samples S(ant, pol, k) a term mentions (syntactic dependence)"""
    seen, out, stack = set(), set(), [term]
    while stack:
        t = stack.pop()
        if t.get_id() in seen:
            continue
        seen.add(t.get_id())
        if z3.is_app(t):
            if t.decl().name() == SF.name() and t.num_args() == 3:
                c = core.const_value(t.arg(1))
                out.add(int(c) if c is not None else -1)
            stack.extend(t.children())
    return out


def replay_partition_real(p):
    """real recordings with real quantisers holding their first statistics: every partition writes the same bytes"""
    import os
    import shutil
    import tempfile
    from setigen.voltage import backend as bk, polyphase_filterbank as pf, quantization as qz, antenna as an
    period, Wb, npol = p['period'], p['Wb'], p['npol']
    d = tempfile.mkdtemp(prefix='c02p_', dir='/var/tmp')
    try:
        outs = {}
        for nsb in sorted({1, p['nsb'], 2, Wb}):
            src = an.Antenna(sample_rate=1024.0, num_pols=npol, seed=7)
            for st in src.streams:
                st.add_noise(0, 1)
                st.add_constant_signal(300.0, 0.0, 0.5)
            be = bk.RawVoltageBackend(src, qz.RealQuantizer(num_bits=8, stats_calc_period=period, stats_calc_num_samples=2), pf.PolyphaseFilterbank(num_taps=2, num_branches=8),
                                      qz.ComplexQuantizer(num_bits=8, stats_calc_period=period, stats_calc_num_samples=2), start_chan=0, num_chans=4,
                                      block_size=2 * Wb * 4 * 2 * npol, blocks_per_file=2, num_subblocks=nsb)
            be.record(os.path.join(d, f'first{nsb}'), num_blocks=2, length_mode='num_blocks', header_dict={}, verbose=False, load_template=False)
            be.num_subblocks = (nsb % (Wb + 1)) + 1          # the partition knob turned between the recordings
            try:
                be.record(os.path.join(d, f'o{nsb}'), num_blocks=2, length_mode='num_blocks', header_dict={}, verbose=False, load_template=False)
            except Exception as e:
                shutil.rmtree(d, ignore_errors=True)
                return True, f"period {period}: a second recording after num_subblocks was changed from {nsb} to {(nsb % (Wb + 1)) + 1} raised {type(e).__name__}: {e}"
            raw = open(os.path.join(d, f'o{nsb}.0000.raw'), 'rb').read()
            blocks, pos = [], 0
            while pos < len(raw):
                end = raw.index(b'END' + b' ' * 77, pos) + 80
                blocks.append(raw[end:end + be.block_size])
                pos = end + be.block_size
            outs[nsb] = b''.join(blocks)
        bad = [n for n, v in outs.items() if v != outs[1]]
        if p.get('prefix'):
            # the configured prefix is what the statistics come from: a quantiser told to look at 2 samples, fed a block
            # whose first two samples are unlike the rest
            rng_ = np.random.default_rng(3)
            x = np.concatenate([[10.0, 14.0], rng_.normal(0, 1, 62)]) + 1j * np.concatenate([[-3.0, -1.0], rng_.normal(0, 5, 62)])
            cq = qz.ComplexQuantizer(num_bits=8, stats_calc_period=period, stats_calc_num_samples=2)
            out = cq.quantize(x)
            tstd = cq.quantizer_r.target_std
            for nm, part, got in (('real', x.real, out.real), ('imaginary', x.imag, out.imag)):
                want = np.clip(np.around(tstd / np.std(part[:2]) * (part - np.mean(part[:2]))), -128, 127)
                if not np.array_equal(got, want):
                    shutil.rmtree(d, ignore_errors=True)
                    return True, f"ComplexQuantizer(stats_calc_num_samples=2): the {nm} part is not scaled with the statistics of its first 2 samples ({int(np.sum(got != want))} of {len(want)} values differ)"
        if p.get('own_stream') and npol == 2:
            # polarisations of very different level: a backend given ONE requantiser to clone per stream must record what
            # a backend given separately constructed requantisers records
            def rec(name, as_list):
                src = an.Antenna(sample_rate=1024.0, num_pols=2, seed=7)
                src.x.add_noise(0, 1)
                src.y.add_noise(40.0, 9.0)
                mkq = lambda: qz.ComplexQuantizer(num_bits=8, stats_calc_period=period, stats_calc_num_samples=50)
                mkd = lambda: qz.RealQuantizer(num_bits=8, stats_calc_period=period, stats_calc_num_samples=50)
                be = bk.RawVoltageBackend(src, [[mkd(), mkd()]] if as_list else mkd(), pf.PolyphaseFilterbank(num_taps=2, num_branches=8),
                                          [[mkq(), mkq()]] if as_list else mkq(), start_chan=0, num_chans=4, block_size=2 * Wb * 4 * 2 * 2, blocks_per_file=2, num_subblocks=1)
                be.record(os.path.join(d, name), num_blocks=2, length_mode='num_blocks', header_dict={}, verbose=False, load_template=False)
                raw = open(os.path.join(d, f'{name}.0000.raw'), 'rb').read()
                out, pos = [], 0
                while pos < len(raw):
                    end = raw.index(b'END' + b' ' * 77, pos) + 80
                    out.append(raw[end:end + be.block_size])
                    pos = end + be.block_size
                return b''.join(out)
            a, b = rec('tmpl', False), rec('list', True)
            if a != b:
                nd = sum(x != y for x, y in zip(a, b))
                shutil.rmtree(d, ignore_errors=True)
                return True, f"period {period}: a backend given one requantiser to copy per stream records {nd} of {len(a)} bytes differently from one given a separate requantiser per stream (streams of different level)"
    finally:
        shutil.rmtree(d, ignore_errors=True)
    return bool(bad), f"period {period}: num_subblocks {bad} record other bytes than num_subblocks=1 (second recording on the backend)" if bad else 'all partitions record the same bytes'


# ------------------------------------------------------------------ symbolic sizes: sub-block tiling
def tiling_slice():
    """the size arithmetic of collect_data_block, located in the live AST: the block-level assignments and the
    per-sub-block statements (window count, samples requested, byte range and index range)"""
    import ast
    import inspect
    import textwrap
    src = textwrap.dedent(inspect.getsource(B.RawVoltageBackend.collect_data_block))
    fn = ast.parse(src).body[0]

    def tname(st):
        t = st.targets[0]
        return t.id if isinstance(t, ast.Name) else (f"{t.value.id}.{t.attr}" if isinstance(t, ast.Attribute) and isinstance(t.value, ast.Name) else None)
    want_pre = ['T', 'W', 'subblock_T', 'self.num_subblocks', 'subblock_t_len']
    pre = [st for st in fn.body if isinstance(st, ast.Assign) and tname(st) in want_pre]
    loops = [n for n in ast.walk(fn) if isinstance(n, ast.For) and isinstance(n.target, ast.Name) and n.target.id == 'subblock']
    if len(pre) < 4 or len(loops) != 1:
        raise core.SliceMissing(f"collect_data_block: size arithmetic not found (pre={len(pre)}, loops={len(loops)}): source refactored")

    def assigns(node, names):
        return any(isinstance(x, ast.Assign) and tname(x) in names for x in ast.walk(node))
    body = []
    for st in loops[0].body:
        if isinstance(st, ast.If) and assigns(st, ('W', 'num_samples')):
            body.append(st)
    inner = [n for n in ast.walk(loops[0]) if isinstance(n, ast.For) and isinstance(n.target, ast.Name) and n.target.id == 'pol']
    if len(inner) != 1:
        raise core.SliceMissing("collect_data_block: polarisation loop not found")
    for st in inner[0].body:
        if (isinstance(st, ast.If) and assigns(st, ('subblock_t_range', 'subblock_t_len'))) or (isinstance(st, ast.Assign) and tname(st) in ('t_idx', 'subblock_t_len', 'subblock_t_range')):
            body.append(st)
    if not any(isinstance(st, ast.Assign) and tname(st) == 't_idx' for st in body):
        raise core.SliceMissing("collect_data_block: t_idx assignment not found")
    mk = lambda stmts: compile(ast.Module(body=stmts, type_ignores=[]), '<slice:collect_data_block sizes>', 'exec')
    return mk(pre), mk(body)


TILING_BOUND = 1024


class ARange:
    """np.arange(start, stop, step) as a record that can be shifted by a scalar"""
    def __init__(self, start, stop, step):
        self.start, self.stop, self.step = start, stop, step

    def __radd__(self, o):
        return ARange(o + self.start, o + self.stop, self.step)

    __add__ = __radd__


def job_tiling(taps, npol, bits, start_obs):
    """for ALL windows-per-block k and requested num_subblocks (<= 1024): the sub-blocks tile the block's bytes and
    samples exactly.  Integer quotients are encoded through fresh integers (non-linear integer arithmetic)."""
    recs = []
    tag = f"C02:tiling:{(taps, npol, bits, start_obs)}"
    core.FRAC_INTS[0] = True
    try:
        code_pre, code_body = tiling_slice()
        ki, ni, si = z3.Ints('k nsb s')
        k, nsb, sb = (Sym(z3.ToReal(v), True) for v in (ki, ni, si))
        BOUND = TILING_BOUND
        pre = [ki >= 1, ki <= BOUND, ni >= 1, ni <= BOUND, si >= 0]
        bps = 2 * npol * bits // 8
        nant, nc, P = 1, 2, 8
        obsnchan = nant * nc

        class Src:
            pass

        class Self_:
            pass

        class NPX(npx.NPProxy):
            def arange(self, *a, **kw):
                return ARange(*a) if len(a) == 3 else npx.NPProxy.arange(self, *a, **kw)

        def run():
            me = Self_()
            me.block_size = k * (taps * obsnchan * bps)
            me.num_taps, me.num_subblocks, me.bytes_per_sample, me.num_bits, me.num_pols, me.num_branches = taps, nsb, bps, bits, npol, P
            me.num_antennas, me.num_chans = nant, nc
            me.antenna_source = Src()
            me.antenna_source.start_obs = start_obs
            px = NPX()
            env = {'self': me, 'xp': px, 'np': px, 'int': __import__('symx.shadow', fromlist=['sint']).sint, 'obsnchan': obsnchan, 'subblock': sb, 'pol': npol - 1,
                   'antenna': 0}
            exec(code_pre, env)
            nsub = env['self'].num_subblocks
            # the symbolic sub-block index ranges over the (recomputed) number of sub-blocks
            core.side(sb.t < lift(nsub))
            exec(code_body, env)
            return dict(T=env['T'], nsub=nsub, L=env.get('subblock_t_len'), W=env['W'], num_samples=env['num_samples'], t_idx=env['t_idx'])
        leaves = core.explore(run, pre, cap=40, timeout_ms=60000)
        conds = []
        for li, leaf in enumerate(leaves):
            conds.append(leaf.cond())
            if leaf.kind == 'exc':
                if isinstance(leaf.value, (AttributeError, NameError)):
                    # the statements lifted from collect_data_block now read state the stand-in object does not model
                    # (a refactor): this lemma does not apply; the executed-recording jobs still decide the property
                    raise core.SliceMissing(f"tiling slice reads unmodelled state: {leaf.value!r}")
                raise core.HarnessError(f"tiling slice raised {leaf.value!r}")
            o = leaf.value
            T, n2, W, ns, ti = lift(o['T']), lift(o['nsub']), lift(o['W']), lift(o['num_samples']), o['t_idx']
            s_ = z3.ToReal(si)
            tot = T * bps
            off = lift(ti.start) - (bits // 4) * (npol - 1)
            rng = lift(ti.stop) - lift(ti.start)
            base = pre + leaf.pc + leaf.side
            claims = z3.And(T == z3.ToReal(ki) * taps, n2 >= 1,
                            W >= 2, rng == taps * (W - 1) * bps,                                   # range = spectra produced * bytes per sample
                            off >= 0, off + rng <= tot,                                            # inside the block
                            z3.If(s_ == n2 - 1, off + rng == tot, z3.BoolVal(True)),               # last sub-block ends the block
                            lift(ti.step) == (bits // 4) * npol,
                            ns == P * taps * (W - 1 + (1 if start_obs else 0)))                     # samples requested (+ warm-up window at the start)
            t0 = time.time()
            r, m = core.check(base + [z3.Not(claims)], timeout_ms=120000)
            recs.append(q(f"{tag}:leaf{li}:in-block/size/samples", r, ms=(time.time() - t0) * 1000))
            if r == 'sat':
                kv, nv, sv = (int(str(m.eval(v, model_completion=True))) for v in (ki, ni, si))
                recs.append(cex('C02:tiling', f'sub-block {sv} of a block with {kv} windows and num_subblocks={nv} does not tile the block',
                                dict(fn='record', P=4, taps=taps, Wb=min(kv, 6), nsb=min(nv, 7), npol=npol, nant=1, bits=bits, start_chan=0, num_chans=2, nblocks=2, bpf=2, digitize=True), name=f"{tag}:leaf{li}:in-block/size/samples"))
        # contiguity: consecutive sub-blocks s, s+1 are adjacent -- two instances of the body with indices s and s+1 give
        # offsets off(s) = s*L: shown by the offset being linear in s with slope = the full range (second run, same pre)
        # definitional constraints of the quotient integers (total functions) are shared by all paths
        defs = [c for leaf in leaves for c in leaf.side]
        r, _ = core.check(pre + defs + [z3.Not(z3.Or(*conds))], timeout_ms=120000)
        recs.append(q(f"{tag}:split-complete", r, leaves=len(leaves)))
    finally:
        core.FRAC_INTS[0] = False
    return recs


def job_tiling_adjacent(taps, npol, bits):
    """offset of sub-block s+1 == offset of sub-block s + its range (no gap, no overlap), symbolic k, nsb, s"""
    recs = []
    tag = f"C02:tiling-adjacent:{(taps, npol, bits)}"
    core.FRAC_INTS[0] = True
    try:
        code_pre, code_body = tiling_slice()
        ki, ni, si = z3.Ints('k nsb s')
        k, nsb = (Sym(z3.ToReal(v), True) for v in (ki, ni))
        pre = [ki >= 1, ki <= TILING_BOUND, ni >= 1, ni <= TILING_BOUND, si >= 0]
        bps = 2 * npol * bits // 8
        obsnchan, P = 2, 8

        class NPX(npx.NPProxy):
            def arange(self, *a, **kw):
                return ARange(*a) if len(a) == 3 else npx.NPProxy.arange(self, *a, **kw)

        def run():
            outs = []
            for d in (0, 1):
                me = type('S', (), {})()
                me.block_size = k * (taps * obsnchan * bps)
                me.num_taps, me.num_subblocks, me.bytes_per_sample, me.num_bits, me.num_pols, me.num_branches = taps, nsb, bps, bits, npol, P
                me.antenna_source = type('A', (), {'start_obs': False})()
                px = NPX()
                sb = Sym(z3.ToReal(si) + d, True)
                env = {'self': me, 'xp': px, 'np': px, 'int': __import__('symx.shadow', fromlist=['sint']).sint, 'obsnchan': obsnchan, 'subblock': sb, 'pol': 0, 'antenna': 0}
                exec(code_pre, env)
                core.side(sb.t < lift(env['self'].num_subblocks))
                exec(code_body, env)
                outs.append(env['t_idx'])
            return outs
        leaves = core.explore(run, pre, cap=60, timeout_ms=60000)
        conds = []
        for li, leaf in enumerate(leaves):
            conds.append(leaf.cond())
            if leaf.kind == 'exc' or isinstance(leaf.value, BaseException):
                if isinstance(leaf.value, (AttributeError, NameError)):
                    raise core.SliceMissing(f"tiling slice reads unmodelled state: {leaf.value!r}")
                raise core.HarnessError(f"tiling slice raised {leaf.value!r}")
            a, b = leaf.value
            r, m = core.check(pre + leaf.pc + leaf.side + [lift(b.start) != lift(a.stop)], timeout_ms=120000)
            recs.append(q(f"{tag}:leaf{li}", r))
            if r == 'sat':
                kv, nv, sv = (int(str(m.eval(v, model_completion=True))) for v in (ki, ni, si))
                recs.append(cex('C02:tiling', f'sub-blocks {sv} and {sv + 1} are not adjacent (k={kv}, num_subblocks={nv})',
                                dict(fn='record', P=4, taps=taps, Wb=min(kv, 6), nsb=min(nv, 7), npol=npol, nant=1, bits=bits, start_chan=0, num_chans=2, nblocks=2, bpf=2, digitize=True), name=f"{tag}:leaf{li}"))
        defs = [c for leaf in leaves for c in leaf.side]
        r, _ = core.check(pre + defs + [z3.Not(z3.Or(*conds))], timeout_ms=120000)
        recs.append(q(f"{tag}:split-complete", r, leaves=len(leaves)))
    finally:
        core.FRAC_INTS[0] = False
    return recs


# ------------------------------------------------------------------ concrete oracle
def replay_record(p):
    """real recording to real files from a deterministic stream, fixed-statistics quantisers; compared with an
    independent whole-stream reference and with the num_subblocks=1 recording"""
    import os
    import tempfile
    import shutil
    from setigen.voltage import backend as bk, polyphase_filterbank as pf, quantization as qz, antenna as an
    P, taps, Wb, nsb, npol, nant, bits = p['P'], p['taps'], p['Wb'], p['nsb'], p['npol'], p['nant'], p['bits']
    sc, nc, nblocks, bpf, digitize = p['start_chan'], p['num_chans'], p['nblocks'], p['bpf'], p['digitize']
    T = taps * Wb
    tot = (nblocks * T + taps) * P
    rng = np.random.default_rng(77)
    stream = rng.normal(0, 20, (nant, npol, tot))

    class Src(an.Antenna if nant == 1 else an.MultiAntennaArray):
        def __init__(s):
            s.sample_rate, s.num_pols, s.fch1, s.ascending, s.start_obs, s.k, s.t_start = 1024.0, npol, 4096.0, True, True, 0, 0.0
            s.dt = 1 / 1024.0
            if nant > 1:
                s.num_antennas = nant

        def reset_start(s):
            s.start_obs = True

        def get_samples(s, n):
            out = stream[:, :, s.k:s.k + n].copy()
            s.k += n
            s.start_obs = False
            return out

    class FQ(qz.RealQuantizer):           # fixed statistics: an element-wise function
        def quantize(s, v, custom_std=None):
            return np.clip(np.around(v), -128, 127)

    class FCQ(qz.ComplexQuantizer):
        def quantize(s, v, custom_stds=None):
            lo, hi = -2 ** (bits - 1), 2 ** (bits - 1) - 1
            sc_ = 0.5 if bits == 8 else 0.05
            return np.clip(np.around(np.real(v) * sc_), lo, hi) + 1j * np.clip(np.around(np.imag(v) * sc_), lo, hi)

    def rec(nsb_, d):
        be = bk.RawVoltageBackend(Src(), FQ(), pf.PolyphaseFilterbank(num_taps=taps, num_branches=P), FCQ(num_bits=bits), start_chan=sc,
                                  num_chans=nc, block_size=T * nant * nc * (2 * npol * bits // 8), blocks_per_file=bpf, num_subblocks=nsb_)
        be.record(os.path.join(d, 'o'), num_blocks=nblocks, length_mode='num_blocks', header_dict={}, digitize=digitize, verbose=False, load_template=False)
        out = []
        for i in range(-(-nblocks // bpf)):
            fn = os.path.join(d, f'o.{i:04d}.raw')
            if not os.path.exists(fn):
                return None
            raw = open(fn, 'rb').read()
            pos = 0
            while pos < len(raw):
                end = raw.index(b'END' + b' ' * 77, pos) + 80
                blk = np.frombuffer(raw[end:end + be.block_size], dtype=np.int8)
                out.append(blk.copy())
                pos = end + be.block_size
        return out
    d = tempfile.mkdtemp(prefix='c02_', dir='/var/tmp')
    try:
        try:
            got = rec(nsb, d)
        except Exception as e:
            return True, f"record raised {type(e).__name__}: {e}"
    finally:
        shutil.rmtree(d, ignore_errors=True)
    # independent reference
    win = np.array(pf.get_pfb_window(taps, P))
    bps = 2 * npol * bits // 8
    want = []
    for bi in range(nblocks):
        blk = np.zeros((nant * nc, T * bps), dtype=np.int8)
        for a in range(nant):
            for pol in range(npol):
                x = stream[a, pol]
                if digitize:
                    x = np.clip(np.around(x), -128, 127)
                for t in range(T):
                    n = bi * T + t
                    seg = sum(win[tt * P:(tt + 1) * P] * x[(n + tt) * P:(n + tt + 1) * P] for tt in range(taps))
                    spec = np.fft.fft(seg)[:P // 2] / P ** 0.5
                    lo, hi = -2 ** (bits - 1), 2 ** (bits - 1) - 1
                    sc_ = 0.5 if bits == 8 else 0.05
                    for c in range(nc):
                        v = spec[sc + c]
                        re, im = int(np.clip(np.around(v.real * sc_), lo, hi)), int(np.clip(np.around(v.imag * sc_), lo, hi))
                        if bits == 8:
                            blk[a * nc + c, (t * npol + pol) * 2] = re
                            blk[a * nc + c, (t * npol + pol) * 2 + 1] = im
                        else:
                            blk[a * nc + c, t * npol + pol] = np.int8(np.uint8((re * 16 + (im + 16 if im < 0 else im)) & 0xFF))
        want.append(blk.ravel())
    if got is None or len(got) != nblocks:
        return True, f"expected {nblocks} blocks in {-(-nblocks // bpf)} files, found {None if got is None else len(got)}"
    for bi, (g, w) in enumerate(zip(got, want)):
        if g.shape != w.shape or not np.array_equal(g, w):
            nbad = int(np.sum(g != w)) if g.shape == w.shape else -1
            return True, f"block {bi}: {nbad} of {w.size} bytes differ from the reference pipeline (num_subblocks={nsb})"
    return False, 'recorded bytes equal the reference pipeline'


REPLAYS = {'record': replay_record, 'array': replay_array, 'partition_real': replay_partition_real}


def main():
    ck = Check('C02', 'Recorded RAW samples equal the reference pipeline, whatever the partitioning')
    ck.functions = ['RawVoltageBackend.__init__', 'RawVoltageBackend.record', 'RawVoltageBackend.collect_data_block', 'RawVoltageBackend._make_header',
                    'RawVoltageBackend._header_populate_configuration', 'PolyphaseFilterbank.channelize', 'polyphase_filterbank.pfb_frontend', 'PolyphaseFilterbank._reset_cache']
    ck.files = ['setigen/voltage/backend.py', 'setigen/voltage/polyphase_filterbank.py']
    ck.stubs = ['antenna source -> symbolic stream S(ant, pol, k) with a running index', 'digitiser / requantiser -> element-wise uninterpreted functions per (antenna, pol) (the "common prefix statistics" premise; internals are C09)',
                'numpy.fft -> exact DFT', 'open() -> in-memory files', 'tqdm -> inert', 'window coefficients fully symbolic']
    ck.assumptions = ['exact reals', 'num_branches in {4, 8} (thorough {2,4,8}); windows per block <= 5 (thorough 8); sizes above outside', 'GPU path outside']
    jobs = []
    if ck.thorough:
        main_space = [(P, taps, Wb) for P in (2, 4, 8) for taps in (1, 2, 3, 4) for Wb in range(1, 9) if not (P == 8 and Wb > 6)]
    else:
        main_space = [(P, taps, Wb) for P in (4, 8) for taps in (1, 2, 3) for Wb in range(1, 6) if not (P == 8 and (Wb > 4 or taps == 3))]
    for (P, taps, Wb) in main_space:
        for nsb in range(1, Wb + 2):
            jobs.append(('job_record', (P, taps, Wb, nsb, 2, 1, 8, 0, P // 2, 2, 2, True)))
    # variations around a ragged partition (Wb=3 windows, 2 sub-blocks; Wb=5 / 3 in thorough)
    var_base = [(4, 2, 3, 2), (4, 2, 5, 3)] + ([(4, 3, 4, 3), (8, 2, 5, 2), (2, 4, 7, 3)] if ck.thorough else [])
    for (P, taps, Wb, nsb) in var_base:
        for npol, nant, bits in itertools.product((1, 2), (1, 2), (8, 4)):
            for (sc, nc) in ((0, 2), (1, 1), (0, 1)):
                if (npol, nant, bits, sc, nc) == (2, 1, 8, 0, 2) or sc + nc > P // 2:
                    continue
                jobs.append(('job_record', (P, taps, Wb, nsb, npol, nant, bits, sc, nc, 2, 2, True)))
        ncd = min(2, P // 2)
        for nblocks, bpf in ((1, 1), (3, 1), (3, 2), (3, 3), (2, 3)):
            jobs.append(('job_record', (P, taps, Wb, nsb, 2, 1, 8, 0, ncd, nblocks, bpf, True)))
        jobs.append(('job_record', (P, taps, Wb, nsb, 2, 1, 8, 0, ncd, 2, 2, False)))
        if P >= 4:
            jobs.append(('job_record', (P, taps, Wb, nsb, 1, 1, 4, 1, 1, 2, 1, False)))
    for (P, taps, Wb, npol, bits) in [(4, 2, 3, 2, 8), (4, 2, 4, 1, 4)] + ([(4, 3, 5, 2, 8), (8, 2, 3, 2, 4)] if ck.thorough else []):
        jobs.append(('job_partition', (P, taps, Wb, npol, bits)))
    # one sub-block of more than a thousand spectra (block- or slab-wise front ends must not lose a remainder)
    jobs.append(('job_record', (4, 3, 345, 1, 1, 1, 8, 0, 1, 1, 1, True)))     # 1035 spectra in one call: odd, not a multiple of any slab size
    for (period, Wb, npol) in ((-1, 3, 1), (0, 3, 2), (-1, 4, 1), (50, 3, 1)):
        jobs.append(('job_partition_real_quantizers', (period, Wb, npol)))
    # the real MultiAntennaArray as the source (own + delayed shared background), incl. delays exceeding later requests
    for args in [(4, 2, 3, 3, 1, (0, 3), 2), (4, 2, 3, 3, 1, (0, 10), 2), (4, 2, 3, 2, 2, (2, 0, 1), 3), (4, 2, 3, 2, 1, (0, 9), 2), (4, 1, 4, 3, 1, (5, 0), 2), (4, 2, 2, 1, 1, (0, 17), 2)] + \
                ([(8, 2, 3, 2, 2, (0, 7), 3), (4, 3, 5, 3, 1, (13, 2, 0), 2), (4, 2, 5, 5, 1, (0, 8), 2)] if ck.thorough else []):
        jobs.append(('job_array_source', args))
    global TILING_BOUND
    TILING_BOUND = 256 if not ck.thorough else 1024
    for taps in ((2, 8) if not ck.thorough else (1, 2, 3, 4, 8, 16)):
        for (npol, bits) in ((2, 8), (1, 4)) if not ck.thorough else ((2, 8), (1, 8), (2, 4), (1, 4)):
            for start_obs in (False, True):
                jobs.append(('job_tiling', (taps, npol, bits, start_obs)))
            jobs.append(('job_tiling_adjacent', (taps, npol, bits)))
    ck.bounds = dict(tiling=f'windows per block k and requested num_subblocks symbolic integers <= {TILING_BOUND} (AST slice of the size arithmetic, NIA through fresh integers)', main=main_space, variations='pols 1-2, antennas 1-2, 8/4 bit, start_chan/num_chans, blocks 1-3, blocks_per_file 1-3, digitise on/off',
                     num_subblocks='1..windows_per_block+1 (incl. non-divisors)')
    ck.run_jobs('props.C02', jobs, timeout_s=1500)
    ck.finish()


if __name__ == '__main__':
    main()
