"""C20 -- block, length and sample accounting is exact and consistent across helpers.

E1 on the real constructor / get_num_blocks / helpers with symbolic integers and reals; the length section of
record() is an AST slice executed with symbolic num_blocks / obs_length / input_num_blocks; rounding claims in the
rounded-real (delta) model of binary64.
"""
import ast
import inspect
import textwrap
import time

import numpy as np
import z3

from symx import core, npx, shadow, fp
from symx.core import Sym, lift, RV
from symx.fp import FSym
from symx.report import Check, q, cex, note
from props.volt_common import B, PF, Q, A, LU, volt_patches, MemFS, MemFile
from props.frame_common import F as FR, frame_patches
from props import C02, C04


def mk_backend(nant, npol, bits, taps, P, nc, k, sr, asc=True):
    """real constructor; k = PFB windows per block (symbolic integer allowed), sr sample rate (symbolic allowed)"""
    ant = C02.FakeAntenna(npol, asc) if nant == 1 else C02.FakeArray(nant, npol, asc)
    ant.sample_rate = sr
    ant.dt = 1 / sr
    bps = 2 * npol * bits // 8
    be = B.RawVoltageBackend(ant, C02.UQ(), PF.PolyphaseFilterbank(num_taps=taps, num_branches=P), C02.UCQ(num_bits=bits), start_chan=0, num_chans=nc,
                             block_size=k * taps * nant * nc * bps, blocks_per_file=2, num_subblocks=1)
    return be, ant


def job_ctor(nant, npol, bits, taps, P, nc, asc=True):
    recs = []
    tag = f"C20:ctor:{(nant, npol, bits, taps, P, nc)}" + ('' if asc else ':descending')
    ki = z3.Int('k')
    k = Sym(z3.ToReal(ki), True)
    sr = Sym(z3.Real('sample_rate'))
    pre = [ki >= 1, sr.t > 0]
    with volt_patches():
        leaves = core.explore(lambda: mk_backend(nant, npol, bits, taps, P, nc, k, sr, asc)[0], pre, cap=10)
    bps = 2 * npol * bits // 8
    for li, leaf in enumerate(leaves):
        if leaf.kind == 'exc':
            r, _ = core.check(pre + leaf.pc)
            recs.append(q(f"{tag}:leaf{li}:noexc", r, detail=repr(leaf.value)))
            if r == 'sat':
                recs.append(cex('C20:ctor:raise', f'constructor rejected an admissible configuration: {leaf.value!r}', dict(fn='ctor', nant=nant, npol=npol, bits=bits, taps=taps, P=P, nc=nc), name=f"{tag}:leaf{li}:noexc"))
            continue
        be = leaf.value
        spb = lift(be.samples_per_block)
        dis = [spb * (nant * nc * bps) != lift(be.block_size), spb != z3.ToReal(ki) * taps,
               lift(be.time_per_block) != spb * P / sr.t, lift(be.tbin) != P / sr.t, lift(be.bytes_per_sample) != bps,
               z3.If(lift(be.chan_bw) >= 0, lift(be.chan_bw), -lift(be.chan_bw)) != sr.t / P]
        r, m = core.check(pre + leaf.pc + leaf.side + [z3.Or(*dis)], timeout_ms=60000)
        recs.append(q(f"{tag}:leaf{li}", r))
        if r == 'sat':
            recs.append(cex('C20:ctor', 'samples_per_block / time_per_block / tbin are not block_size/(ants*chans*bytes), spb*P/rate, P/rate', dict(fn='ctor', nant=nant, npol=npol, bits=bits, taps=taps, P=P, nc=nc, asc=asc), name=f"{tag}:leaf{li}"))
    return recs


def job_num_blocks(nant, nc, mode):
    """requested duration -> whole blocks not exceeding it, short by less than one block.
    mode 'exact': exact reals; 'fp': binary64 delta model with the 1e-9 boundary tolerance"""
    recs = []
    tag = f"C20:num_blocks:{(nant, nc, mode)}"
    npol, bits, taps, P, k, srv = 2, 8, 2, 8, 3, 1024.0
    fp.reset()
    pre = []
    if mode == 'exact':
        L = Sym(z3.Real('L'))
        pre = [L.t >= 0, L.t <= 1e6]
    else:
        L = FSym.var('L', 1e-6, 1e6, pre)
    with volt_patches():
        be, ant = mk_backend(nant, npol, bits, taps, P, nc, k, srv)
        leaves = core.explore(lambda: be.get_num_blocks(L), pre, cap=4)
    tpb = RV(be.time_per_block)
    for li, leaf in enumerate(leaves):
        n = lift(leaf.value)
        base = pre + leaf.pc + leaf.side + list(fp.SIDE)
        if mode == 'exact':
            claim = z3.And(n * tpb <= L.t, L.t < (n + 1) * tpb, n >= 0)
        else:
            claim = z3.And(n * tpb <= L.t * (1 + RV(1e-9)), L.t * (1 - RV(1e-9)) < (n + 1) * tpb, n >= 0)
        r, m = core.check(base + [z3.Not(claim)], timeout_ms=120000)
        recs.append(q(f"{tag}:leaf{li}", r))
        if r == 'sat':
            recs.append(cex(f'C20:num_blocks:{mode}', 'requested duration does not resolve to the whole number of blocks not exceeding it', dict(fn='num_blocks', nant=nant, nc=nc, L=core.model_float(m, L)), name=f"{tag}:leaf{li}"))
    return recs


def record_length_slice():
    """statements of record() from the length-mode dispatch to total_obs_num_samples (inclusive)"""
    src = textwrap.dedent(inspect.getsource(B.RawVoltageBackend.record))
    fn = ast.parse(src).body[0]
    body = fn.body
    start = end = None
    for i, st in enumerate(body):
        seg = ast.get_source_segment(src, st) or ''
        if start is None and isinstance(st, ast.If) and 'length_mode' in seg:
            start = i
        if 'total_obs_num_samples' in seg and isinstance(st, ast.Assign):
            end = i
    if start is None or end is None:
        raise core.SliceMissing("record(): length section not found (source refactored)")
    # include every statement between, whatever order they are in
    last = end
    for i, st in enumerate(body):
        seg = ast.get_source_segment(src, st) or ''
        if isinstance(st, ast.Assign) and ('self.obs_length' in seg.split('=')[0]) and i > last:
            last = i
    return compile(ast.Module(body=body[start:last + 1], type_ignores=[]), '<slice:record length section>', 'exec')


def job_record_lengths(length_mode, with_input):
    """the length section of record() with symbolic request and symbolic number of input blocks"""
    recs = []
    tag = f"C20:record-lengths:{(length_mode, with_input)}"
    code = record_length_slice()
    npol, bits, taps, P, k, srv, nant, nc = 2, 8, 2, 8, 3, 1024.0, 1, 2
    ni, ii = z3.Int('n_req'), z3.Int('n_in')
    L = Sym(z3.Real('L'))
    pre = [ni >= 0, ni <= 10 ** 6, ii >= 0, ii <= 10 ** 6, L.t >= 0, L.t <= 1e6]

    def run():
        be, ant = mk_backend(nant, npol, bits, taps, P, nc, k, srv)
        be.input_num_blocks = Sym(z3.ToReal(ii), True) if with_input else None
        env = {'self': be, 'length_mode': length_mode, 'obs_length': L if length_mode == 'obs_length' else None,
               'num_blocks': Sym(z3.ToReal(ni), True) if length_mode == 'num_blocks' else None, 'min': core.smin, 'max': core.smax, 'int': shadow.sint,
               'xp': npx.NPProxy(), 'np': npx.NPProxy(), 'header_dict': {}}
        exec(code, env)
        return be
    with volt_patches():
        leaves = core.explore(run, pre, cap=20)
    conds = []
    for li, leaf in enumerate(leaves):
        conds.append(leaf.cond())
        be = leaf.value
        base = pre + leaf.pc + leaf.side
        if leaf.kind == 'exc':
            raise core.HarnessError(f"length slice raised {leaf.value!r}")
        tpb, spb = RV(be.time_per_block), be.samples_per_block
        n = lift(be.num_blocks)
        if length_mode == 'num_blocks':
            req = z3.ToReal(ni)
        else:
            req = z3.ToReal(z3.ToInt(L.t / tpb))
        want = z3.If(z3.And(z3.BoolVal(with_input), z3.ToReal(ii) < req), z3.ToReal(ii), req)
        dis = [n != want, lift(be.obs_length) != n * tpb, lift(be.total_obs_num_samples) != n * spb * P]
        r, m = core.check(base + [z3.Or(*dis)], timeout_ms=60000)
        recs.append(q(f"{tag}:leaf{li}", r))
        if r == 'sat':
            recs.append(cex(f"C20:record-lengths:{'clamped' if with_input else 'plain'}", 'obs_length / total_obs_num_samples / num_blocks disagree with the (clamped) whole-block count',
                            dict(fn='record', n_req=int(str(m.eval(ni, model_completion=True))), n_in=int(str(m.eval(ii, model_completion=True))) if with_input else None,
                                 L=core.model_float(m, L), length_mode=length_mode), name=f"{tag}:leaf{li}"))
    r, _ = core.check(pre + [z3.Not(z3.Or(*conds))])
    recs.append(q(f"{tag}:split-complete", r, leaves=len(leaves)))
    return recs


def job_record_lengths_fp():
    """binary64 (delta model): total_obs_num_samples == n * samples_per_block * num_branches and
    obs_length within rounding of n * time_per_block, for a non-dyadic block time"""
    fp.reset()
    recs = []
    code = record_length_slice()
    ni = z3.Int('n_req')
    pre = [ni >= 1, ni <= 32]

    def run():
        be, ant = mk_backend(1, 2, 8, 2, 1024, 4, 2, 3e9)
        be.input_num_blocks = None
        be.time_per_block = FSym.of(be.time_per_block)
        be.tbin = FSym.of(be.tbin)
        env = {'self': be, 'length_mode': 'num_blocks', 'obs_length': None, 'num_blocks': FSym(z3.ToReal(ni), True), 'min': core.smin, 'max': core.smax,
               'int': shadow.sint, 'xp': npx.NPProxy(), 'np': npx.NPProxy(), 'header_dict': {}}
        exec(code, env)
        return be
    with volt_patches():
        leaves = core.explore(run, pre, cap=20)
    for li, leaf in enumerate(leaves):
        be = leaf.value
        n = z3.ToReal(ni)
        r, m = core.check(pre + leaf.pc + leaf.side + list(fp.SIDE) + [lift(be.total_obs_num_samples) != n * be.samples_per_block * 1024], timeout_ms=60000)
        recs.append(q(f"C20:record-lengths:fp:leaf{li}", r))
        if r == 'sat':
            recs.append(cex('C20:record-lengths:fp', 'total_obs_num_samples can differ from n*samples_per_block*num_branches in binary64 (candidate)', dict(fn='total_fp', n=int(str(m.eval(ni, model_completion=True)))), name=f"C20:record-lengths:fp:leaf{li}"))
    return recs


class SourceFailure(Exception):
    pass


def job_record_run(nant, nblocks, nsb, prior=None):
    """real record(): attributes, header SCANLEN / PKTSTART / PKTSTOP, samples drawn, antenna clock.
    prior: None | 'completed' | 'aborted' -- an earlier recording on the same backend (the aborted one is cut short by
    the source raising on its 3rd request); the accounting of the recording that follows must not depend on it"""
    recs = []
    tag = f"C20:record-run:{(nant, nblocks, nsb)}" + (f":after-{prior}" if prior else '')
    fs = MemFS()
    P, taps, Wb, npol = 4, 2, 3, 2
    with volt_patches(opener=fs.open):
        if prior == 'renumbered':
            # num_subblocks is the memory / speed knob: built with one value, re-assigned on the existing backend
            be, ant, ws = C02.build(P, taps, Wb, (nsb % 3) + 1, npol, nant, 8, 0, 2, 2)
            be.num_subblocks = nsb
        else:
            be, ant, ws = C02.build(P, taps, Wb, nsb, npol, nant, 8, 0, 2, 2)
        if prior in ('completed', 'aborted'):
            orig_get = ant.get_samples
            if prior == 'aborted':
                def failing(n, orig_get=orig_get):
                    if len(ant.reqs) == 2:
                        raise SourceFailure('source failed')
                    return orig_get(n)
                ant.get_samples = failing
            try:
                be.record('/mem/prior', num_blocks=3, length_mode='num_blocks', header_dict={}, digitize=True, verbose=False, load_template=False)
            except SourceFailure:
                pass
            ant.get_samples = orig_get
            ant.reqs = []
        t_before = ant.t_start
        be.record('/mem/o', num_blocks=nblocks, length_mode='num_blocks', header_dict={'PKTIDX': 40}, digitize=True, verbose=False, load_template=False)
        hdrs = []
        for nm in [n_ for n_ in fs.names() if n_.startswith('/mem/o.')]:
            blocks, err = C04.parse_file(MemFile(fs.files, nm, 'rb')._flat())
            hdrs += blocks or []
    spb = be.samples_per_block
    drawn = sum(n for n, _ in ant.reqs)
    problems = []
    if spb * (nant * 2 * 4) != be.block_size:
        problems.append('samples_per_block')
    if drawn != nblocks * spb * P + taps * P:
        problems.append(f'drew {drawn} samples, expected n*spb*P + taps*P = {nblocks * spb * P + taps * P}')
    if not ant.reqs or not ant.reqs[0][1] or any(f for _, f in ant.reqs[1:]):
        problems.append(f'start-of-observation flag on the requests: {[f for _, f in ant.reqs][:6]} (expected only the first)')
    if nant == 1 and abs((ant.t_start - t_before) - drawn / ant.sample_rate) > 1e-12:
        problems.append('antenna clock')
    if be.obs_length != nblocks * be.time_per_block or be.total_obs_num_samples != nblocks * spb * P:
        problems.append(f'obs_length={be.obs_length} total_obs_num_samples={be.total_obs_num_samples}')
    for h in hdrs:
        if float(h['SCANLEN']) != be.obs_length or int(h['PKTSTOP']) - int(h['PKTSTART']) != nblocks * spb or int(h['PKTSTART']) != 40:
            problems.append(f"header SCANLEN={h['SCANLEN']} PKTSTART={h['PKTSTART']} PKTSTOP={h['PKTSTOP']}")
            break
    if len(hdrs) != nblocks:
        problems.append('block count')
    r, _ = core.check([RV(int(not problems)) != 1])
    recs.append(q(tag, r, detail='; '.join(problems)))
    if problems:
        recs.append(cex('C20:record-run' + (f':after-{prior}' if prior else ''), '; '.join(problems[:3]), dict(fn='record', n_req=nblocks, n_in=None, L=0.0, length_mode='num_blocks', prior=prior), name=tag))
    return recs


def job_record_run_array(delays, nblocks, nsb):
    """a real MultiAntennaArray (with sample delays) as the source: after a recording its clock has advanced by exactly
    the samples the backend accounts for, n*spb*num_branches + one warm-up window (the background's over-read by the
    largest delay is internal to the array)"""
    from props.C10 import proxy as gen_proxy
    recs = []
    tag = f"C20:record-run-array:{(tuple(delays), nblocks, nsb)}"
    fs = MemFS()
    P, taps, Wb, npol = 4, 2, 3, 1
    with volt_patches(opener=fs.open, proxy=gen_proxy()):
        be, arr, ws, _, _ = C02.build_array(P, taps, Wb, nsb, npol, delays, noise=True, tone=False, t_start=0.25)
        t0 = arr.t_start
        be.record('/mem/o', num_blocks=nblocks, length_mode='num_blocks', header_dict={}, digitize=True, verbose=False, load_template=False)
        t1 = arr.t_start
        be.record('/mem/p', num_blocks=nblocks, length_mode='num_blocks', header_dict={}, digitize=True, verbose=False, load_template=False)
        t2 = arr.t_start
    want = (nblocks * be.samples_per_block * P + taps * P) / 1024.0
    r, m = core.check([z3.Or(lift(t1) - lift(t0) != RV(want), lift(t2) - lift(t1) != RV(want))], timeout_ms=30000)
    recs.append(q(tag, r, detail=f"{t0} -> {t1} -> {t2}"))
    if r == 'sat':
        recs.append(cex('C20:record-run-array:clock', f"array clock advanced by {float(t1) - float(t0)!r} and {float(t2) - float(t1)!r} s over two recordings of {nblocks} blocks, the samples drawn last {want!r} s each", dict(fn='array_clock', delays=list(delays), nblocks=nblocks, nsb=nsb), name=tag))
    return recs


def replay_array_clock(p):
    import os
    import shutil
    import tempfile
    from setigen.voltage import backend as bk, polyphase_filterbank as pf, quantization as qz, antenna as an
    delays, nblocks = p['delays'], p['nblocks']
    arr = an.MultiAntennaArray(num_antennas=len(delays), sample_rate=1024.0, num_pols=1, delays=list(delays), t_start=0.25, seed=1)
    for a in arr.antennas:
        a.x.add_noise(0, 1)
    arr.bg_x.add_noise(0, 1)
    be = bk.RawVoltageBackend(arr, qz.RealQuantizer(), pf.PolyphaseFilterbank(num_taps=2, num_branches=4), qz.ComplexQuantizer(), start_chan=0, num_chans=2,
                              block_size=6 * len(delays) * 2 * 2, blocks_per_file=2, num_subblocks=p['nsb'])
    d = tempfile.mkdtemp(prefix='c20a_', dir='/var/tmp')
    try:
        ts = [arr.t_start]
        for k in range(2):
            be.record(os.path.join(d, f'o{k}'), num_blocks=nblocks, length_mode='num_blocks', header_dict={}, verbose=False, load_template=False)
            ts.append(arr.t_start)
    finally:
        shutil.rmtree(d, ignore_errors=True)
    want = (nblocks * be.samples_per_block * 4 + 2 * 4) / 1024.0
    adv = [ts[1] - ts[0], ts[2] - ts[1]]
    return any(abs(a - want) > 1e-12 for a in adv), f"array (delays {delays}) clock advanced by {adv} s over two recordings; the samples drawn last {want} s each"


def _helpers_total(npol, bits):
    recs = []
    taps, P, nc, nant, srv = 2, 8, 2, 1, 1024.0
    ki, ni = z3.Int('k'), z3.Int('n')
    k, n = Sym(z3.ToReal(ki), True), Sym(z3.ToReal(ni), True)
    L = Sym(z3.Real('L'))
    pre = [ki >= 1, ki <= 64, ni >= 0, ni <= 10 ** 6, L.t >= 0, L.t <= 1e6]
    with volt_patches():
        def run():
            be, ant = mk_backend(nant, npol, bits, taps, P, nc, k, srv)
            a = B.get_total_obs_num_samples(num_blocks=n, length_mode='num_blocks', num_antennas=nant, sample_rate=srv, block_size=be.block_size,
                                            num_bits=bits, num_pols=npol, num_branches=P, num_chans=nc)
            return be, a
        leaves = core.explore(run, pre, cap=8)
    for li, leaf in enumerate(leaves):
        be, a = leaf.value
        r, m = core.check(pre + leaf.pc + leaf.side + [lift(a) != n.t * lift(be.samples_per_block) * P], timeout_ms=60000)
        recs.append(q(f"C20:helpers:total_samples:num_blocks:{npol}pol{bits}bit:leaf{li}", r))
        if r == 'sat':
            recs.append(cex('C20:helpers:total_samples', 'get_total_obs_num_samples(num_blocks) differs from n*samples_per_block*num_branches', dict(fn='helpers', which='total', bits=bits), name=f"C20:helpers:total_samples:num_blocks:{npol}pol{bits}bit:leaf{li}"))
    with volt_patches():
        def run2():
            be, ant = mk_backend(nant, npol, bits, taps, P, nc, 3, srv)
            a = B.get_total_obs_num_samples(obs_length=L, length_mode='obs_length', num_antennas=nant, sample_rate=srv, block_size=be.block_size,
                                            num_bits=bits, num_pols=npol, num_branches=P, num_chans=nc)
            return be, a, be.get_num_blocks(L)
        leaves = core.explore(run2, pre, cap=8)
    for li, leaf in enumerate(leaves):
        be, a, nb = leaf.value
        r, m = core.check(pre + leaf.pc + leaf.side + [lift(a) != lift(nb) * be.samples_per_block * P], timeout_ms=60000)
        recs.append(q(f"C20:helpers:total_samples:obs_length:{npol}pol{bits}bit:leaf{li}", r))
        if r == 'sat':
            recs.append(cex('C20:helpers:total_samples', 'get_total_obs_num_samples(obs_length) disagrees with the backend block count', dict(fn='helpers', which='total', bits=bits), name=f"C20:helpers:total_samples:obs_length:{npol}pol{bits}bit:leaf{li}"))
    return recs


def job_helpers():
    """stand-alone helpers agree with the backend for the same (symbolic) inputs"""
    recs = []
    # get_block_size: T * obsnchan * bytes_per_sample with T = tchans_per_block * fftlength * int_factor
    names = ('num_antennas', 'tchans_per_block', 'num_pols', 'num_branches', 'num_chans', 'fftlength', 'int_factor')
    iv = {n: z3.Int(n) for n in names}
    sv = {n: Sym(z3.ToReal(v), True) for n, v in iv.items()}
    pre = [v >= 1 for v in iv.values()] + [iv['num_pols'] <= 2]
    for bits in (8, 4):
        with volt_patches():
            leaves = core.explore(lambda: B.get_block_size(num_bits=bits, **sv), pre, cap=8)
        for li, leaf in enumerate(leaves):
            bs = lift(leaf.value)
            T = z3.ToReal(iv['tchans_per_block']) * z3.ToReal(iv['fftlength']) * z3.ToReal(iv['int_factor'])
            bps = 2 * z3.ToReal(iv['num_pols']) * bits / 8
            want = T * z3.ToReal(iv['num_chans']) * z3.ToReal(iv['num_antennas']) * bps
            d = z3.simplify(bs - want, som=True)
            extra = []
            if bits == 4:
                # 2*npol*4//8 = npol exactly (npol integer)
                extra = []
            r, m = core.check(pre + leaf.pc + leaf.side + [d != 0], timeout_ms=60000)
            recs.append(q(f"C20:helpers:get_block_size:{bits}:leaf{li}", r))
            if li == 0:     # vacuity twin: the path is reachable and the value is not a constant
                recs.append(q(f"C20:helpers:get_block_size:{bits}:twin", core.check(pre + leaf.pc + leaf.side + [bs != want + 1], timeout_ms=30000)[0], expect='sat'))
            if r == 'sat':
                recs.append(cex('C20:helpers:get_block_size', 'get_block_size differs from tchans*fftlength*int_factor*chans*antennas*bytes_per_sample', dict(fn='helpers', which='block_size', bits=bits), name=f"C20:helpers:get_block_size:{bits}:leaf{li}"))
    # get_total_obs_num_samples vs backend, num_blocks mode (symbolic n, k) and obs_length mode (symbolic L),
    # for every bytes-per-sample combination (8/4 bit x 1/2 polarisations)
    for (npol, bits) in ((2, 8), (1, 8), (2, 4), (1, 4)):
        recs += _helpers_total(npol, bits)
    # unit drift rate and frame parameters from backend parameters
    fi, ifi = z3.Int('fftlength'), z3.Int('int_factor')
    fft, intf = Sym(z3.ToReal(fi), True), Sym(z3.ToReal(ifi), True)
    sr = Sym(z3.Real('sample_rate'))
    pre = [fi >= 1, ifi >= 1, sr.t > 0]
    with volt_patches():
        be, ant = core.run_single(lambda: mk_backend(1, 2, 8, 2, 8, 2, 3, sr), pre).value
        u = LU.get_unit_drift_rate(be, fft, intf)
    want = (sr.t / 8 / fft.t) / ((8 / sr.t) * fft.t * intf.t)
    r, _ = core.check(pre + [lift(u) * ((8 / sr.t) * fft.t * intf.t) != (sr.t / 8 / fft.t)], timeout_ms=60000)
    recs.append(q("C20:helpers:unit_drift_rate", r))
    if r == 'sat':
        recs.append(cex('C20:helpers:unit_drift_rate', 'get_unit_drift_rate differs from (chan_bw/fftlength)/(tbin*fftlength*int_factor)', dict(fn='helpers', which='udr', bits=8), name="C20:helpers:unit_drift_rate"))
    # params_from_backend with a concrete dyadic backend and symbolic duration
    L = Sym(z3.Real('L'))
    pre = [L.t >= 0, L.t <= 1e6]
    # (branch counts that are odd / not powers of two included: the coarse channel width is sample_rate / num_branches)
    for (nb, fftl, intf_) in PARAM_BACKENDS:
        with frame_patches():
            leaves = core.explore(lambda: FR.params_from_backend(obs_length=L, sample_rate=1024.0, num_branches=nb, fftlength=fftl, int_factor=intf_), pre, cap=4)
        for li, leaf in enumerate(leaves):
            pdict = leaf.value
            dfv, dtv = 1024.0 / nb / fftl, intf_ / (1024.0 / nb / fftl)
            T = lift(pdict['tchans'])
            r, m = core.check(pre + leaf.pc + [z3.Or(lift(pdict['df']) != RV(dfv), lift(pdict['dt']) != RV(dtv), z3.Not(z3.And(T * RV(dtv) <= L.t, L.t < (T + 1) * RV(dtv))))], timeout_ms=60000)
            recs.append(q(f"C20:helpers:params_from_backend:{(nb, fftl, intf_)}:leaf{li}", r))
            if r == 'sat':
                recs.append(cex('C20:helpers:params_from_backend', f'params_from_backend df/dt/tchans for num_branches={nb}, fftlength={fftl}, int_factor={intf_}', dict(fn='helpers', which='params', bits=8), name=f"C20:helpers:params_from_backend:{(nb, fftl, intf_)}:leaf{li}"))
    return recs


PARAM_BACKENDS = ((8, 16, 2), (9, 4, 3), (15, 1, 1), (6, 2, 5))


# ------------------------------------------------------------------ concrete oracles
def _real_backend(nant=1, nc=2, k=3, sr=1024.0, P=8, taps=2, npol=2, bits=8, asc=True):
    from setigen.voltage import backend as bk, polyphase_filterbank as pf, quantization as qz, antenna as an
    src = an.Antenna(sample_rate=sr, num_pols=npol, ascending=asc, seed=1) if nant == 1 else an.MultiAntennaArray(nant, sample_rate=sr, num_pols=npol, ascending=asc, delays=[0] * nant, seed=1)
    for st in (src.streams if nant == 1 else [s for a in src.antennas for s in a.streams]):
        st.add_noise(0, 1)
    return bk.RawVoltageBackend(src, qz.RealQuantizer(), pf.PolyphaseFilterbank(num_taps=taps, num_branches=P), qz.ComplexQuantizer(num_bits=bits), start_chan=0,
                                num_chans=nc, block_size=k * taps * nant * nc * (2 * npol * bits // 8), blocks_per_file=2, num_subblocks=1), src


def replay_record(p):
    """record on top of a small real input recording (clamp) or synthetic-only; compare reported lengths with what was written"""
    import os
    import shutil
    import tempfile
    from setigen.voltage import backend as bk, raw_utils as ru, antenna as an, polyphase_filterbank as pf
    d = tempfile.mkdtemp(prefix='c20_', dir='/var/tmp')
    msgs = []
    try:
        be, src = _real_backend()
        n_in = p.get('n_in')
        if n_in is None:
            n = max(1, min(int(p['n_req']), 4))
            for nsb in (1, 2, 3):
                be, src = _real_backend()
                be.num_subblocks = nsb
                if p.get('prior') in ('completed', 'aborted'):
                    state = {'fail': p['prior'] == 'aborted', 'calls': 0}

                    def flaky(ts, state=state):
                        state['calls'] += 1
                        if state['fail'] and state['calls'] == 5:
                            raise RuntimeError('source failed')
                        return np.zeros(len(ts))
                    src.x.add_signal(flaky)
                    try:
                        be.record(os.path.join(d, f'prior{nsb}'), num_blocks=3, length_mode='num_blocks', header_dict={}, verbose=False, load_template=False)
                    except RuntimeError:
                        pass
                    state['fail'] = False
                drawn = [0]
                orig = src.get_samples

                def counted(num, orig=orig, drawn=drawn):
                    drawn[0] += num
                    return orig(num)
                src.get_samples = counted
                t_before = src.t_start
                # (as in the symbolic run: the caller continues a packet counter, PKTIDX given, PKTSTART not)
                be.record(os.path.join(d, f'a{nsb}'), num_blocks=n, length_mode='num_blocks', header_dict={'PKTIDX': 40}, verbose=False, load_template=False)
                from setigen.voltage import raw_utils as ru_
                h0 = ru_.read_header(os.path.join(d, f'a{nsb}.0000.raw'))
                ps, pe, p0 = int(h0['PKTSTART']), int(h0['PKTSTOP']), int(h0['PKTIDX'])
                if (ps, p0) != (40, 40) or pe != ps + n * be.samples_per_block or abs(float(h0['SCANLEN']) - n * be.time_per_block) > 1e-9:
                    msgs.append(f"num_subblocks={nsb}: header PKTIDX={p0} PKTSTART={ps} PKTSTOP={pe} SCANLEN={h0['SCANLEN']} for {n} blocks of {be.samples_per_block} spectra started at packet 40 (expected PKTSTOP={40 + n * be.samples_per_block}, SCANLEN={n * be.time_per_block})")
                want = n * be.samples_per_block * be.num_branches + be.num_taps * be.num_branches
                if drawn[0] != want:
                    msgs.append(f"num_subblocks={nsb}{' (after an ' + p['prior'] + ' recording)' if p.get('prior') else ''}: {drawn[0]} samples drawn from the antenna for {n} blocks, expected n*spb*P + taps*P = {want}")
                if abs((src.t_start - t_before) - want / src.sample_rate) > 1e-9:
                    msgs.append(f"num_subblocks={nsb}: antenna clock advanced by {src.t_start - t_before}, expected {want / src.sample_rate}")
            be, src = _real_backend()
            be.record(os.path.join(d, 'a'), num_blocks=n, length_mode='num_blocks', header_dict={}, verbose=False, load_template=False)
            tgt, want_n = be, n
        else:
            n_in = max(1, min(int(n_in), 3))
            be.record(os.path.join(d, 'a'), num_blocks=n_in, length_mode='num_blocks', header_dict={}, verbose=False, load_template=False)
            src2 = an.Antenna(sample_rate=1024.0, num_pols=2, seed=2)
            tgt = bk.RawVoltageBackend.from_data(os.path.join(d, 'a'), src2, filterbank=pf.PolyphaseFilterbank(num_taps=2, num_branches=8), start_chan=0, num_subblocks=1)
            n_req = n_in + 2
            if p['length_mode'] == 'num_blocks':
                tgt.record(os.path.join(d, 'b'), num_blocks=n_req, length_mode='num_blocks', header_dict={}, verbose=False, load_template=False)
            else:
                tgt.record(os.path.join(d, 'b'), obs_length=(n_req + 0.5) * tgt.time_per_block, header_dict={}, verbose=False, load_template=False)
            want_n = n_in
        stem = os.path.join(d, 'a' if n_in is None else 'b')
        written = ru.get_total_blocks(stem)
        hdr = ru.read_header(stem + '.0000.raw')
        if written != want_n:
            msgs.append(f"{written} blocks written, expected {want_n}")
        if tgt.obs_length != written * tgt.time_per_block or tgt.total_obs_num_samples != written * tgt.samples_per_block * tgt.num_branches:
            msgs.append(f"obs_length={tgt.obs_length} total_obs_num_samples={tgt.total_obs_num_samples} but {written} blocks of {tgt.time_per_block}s / {tgt.samples_per_block * tgt.num_branches} samples were written")
        if abs(float(hdr['SCANLEN']) - written * tgt.time_per_block) > 1e-12 or int(hdr['PKTSTOP']) - int(hdr['PKTSTART']) != written * tgt.samples_per_block:
            msgs.append(f"header SCANLEN={hdr['SCANLEN']} PKTSTOP-PKTSTART={int(hdr['PKTSTOP']) - int(hdr['PKTSTART'])}")
    except Exception as e:
        msgs.append(f"raised {type(e).__name__}: {e}")
    finally:
        shutil.rmtree(d, ignore_errors=True)
    return bool(msgs), '; '.join(msgs) or 'lengths consistent'


def replay_num_blocks(p):
    be, _ = _real_backend(nant=p['nant'], nc=p['nc'])
    rng = np.random.default_rng(0)
    for L in [p['L']] + [k * be.time_per_block for k in range(0, 50)] + list(rng.uniform(0, 100 * be.time_per_block, 300)):
        n = be.get_num_blocks(L)
        if not (n * be.time_per_block <= L * (1 + 1e-9) and L * (1 - 1e-9) < (n + 1) * be.time_per_block):
            return True, f"get_num_blocks({L!r}) = {n} with time_per_block {be.time_per_block}"
    return False, 'whole blocks within the requested duration'


def replay_ctor(p):
    try:
        be, _ = _real_backend(nant=p['nant'], nc=p['nc'], P=p['P'], taps=p['taps'], npol=p['npol'], bits=p['bits'], k=5, sr=3e9, asc=p.get('asc', True))
    except Exception as e:
        return True, f"constructor raised {e!r}"
    bps = 2 * p['npol'] * p['bits'] // 8
    ok = be.samples_per_block * p['nant'] * p['nc'] * bps == be.block_size and be.samples_per_block == 5 * p['taps'] and np.isclose(be.time_per_block, be.samples_per_block * p['P'] / 3e9, rtol=1e-15)
    return (not ok), f"samples_per_block={be.samples_per_block} time_per_block={be.time_per_block}"


def _narrow_int_forms():
    """the stand-alone helpers with their integer arguments given as NumPy fixed-width integers (as read from file
    headers): same result as with Python integers -- executed concretely, integer wrap-around is not part of the
    exact-integer model"""
    from setigen.voltage import level_utils as lu
    import setigen as stg
    be, _ = _real_backend()
    msgs = []
    for fftl in (50000, 65536, 2 ** 20):
        for ty in (np.int32, np.int64, np.uint32):
            a, b = lu.get_unit_drift_rate(be, ty(fftl), ty(3)), lu.get_unit_drift_rate(be, fftl, 3)
            if not (np.isfinite(a) and np.isclose(a, b, rtol=1e-12)):
                msgs.append(f"get_unit_drift_rate(fftlength={ty.__name__}({fftl})) = {a!r}, with a Python int {b!r}")
            pa = stg.frame.params_from_backend(obs_length=1.3, sample_rate=3e9, num_branches=ty(1024), fftlength=ty(fftl), int_factor=ty(3))
            pb = stg.frame.params_from_backend(obs_length=1.3, sample_rate=3e9, num_branches=1024, fftlength=fftl, int_factor=3)
            if not all(np.isclose(pa[k], pb[k], rtol=1e-12) for k in ('df', 'dt', 'tchans')):
                msgs.append(f"params_from_backend with {ty.__name__} arguments {pa}, with Python ints {pb}")
    return msgs


def job_narrow_int_forms():
    recs = []
    msgs = _narrow_int_forms()
    r, _ = core.check([RV(len(msgs)) != 0])
    recs.append(q("C20:helpers:narrow-integer-arguments", r, trivial=True, detail='; '.join(msgs[:2])))
    if msgs:
        recs.append(cex('C20:helpers:narrow-int', '; '.join(msgs[:2]), dict(fn='narrow_int'), name="C20:helpers:narrow-integer-arguments"))
    return recs


def replay_narrow_int(p):
    msgs = _narrow_int_forms()
    return bool(msgs), '; '.join(msgs[:3]) or 'helpers agree for NumPy integer arguments'


def replay_helpers(p):
    from setigen.voltage import backend as bk, level_utils as lu
    import setigen as stg
    msgs = []
    for bits in (8, 4):
        for npol in (1, 2):
            got = bk.get_block_size(num_antennas=2, tchans_per_block=3, num_bits=bits, num_pols=npol, num_branches=8, num_chans=5, fftlength=4, int_factor=7)
            want = 3 * 4 * 7 * 5 * 2 * (2 * npol * bits // 8)
            if got != want:
                msgs.append(f'get_block_size(num_bits={bits}, num_pols={npol}) = {got}, the backend needs {want} bytes for the requested spectra')
            be, _ = _real_backend(npol=npol, bits=bits)
            tot = bk.get_total_obs_num_samples(num_blocks=7, length_mode='num_blocks', num_antennas=1, sample_rate=1024.0, block_size=be.block_size, num_bits=bits, num_pols=npol, num_branches=8, num_chans=2)
            if tot != 7 * be.samples_per_block * 8:
                msgs.append(f'get_total_obs_num_samples(num_bits={bits}, num_pols={npol}) = {tot}, the backend draws {7 * be.samples_per_block * 8}')
    be, _ = _real_backend()
    if not np.isclose(lu.get_unit_drift_rate(be, 16, 3), (be.chan_bw / 16) / (be.tbin * 16 * 3)):
        msgs.append('unit drift rate')
    for (nb, fftl, intf_) in PARAM_BACKENDS:
        pd = stg.frame.params_from_backend(obs_length=1.3, sample_rate=1024.0, num_branches=nb, fftlength=fftl, int_factor=intf_)
        dfv = 1024.0 / nb / fftl
        if not np.isclose(pd['df'], dfv, rtol=1e-12) or not np.isclose(pd['dt'], intf_ / dfv, rtol=1e-12) or pd['tchans'] != int(1.3 / (intf_ / dfv)):
            msgs.append(f'params_from_backend(num_branches={nb}, fftlength={fftl}, int_factor={intf_}) = {pd}, expected df={dfv}, dt={intf_ / dfv}, tchans={int(1.3 / (intf_ / dfv))}')
    return bool(msgs), '; '.join(msgs) or 'helpers agree'


def replay_total_fp(p):
    """search realistic configurations for a truncated total_obs_num_samples"""
    import os
    import shutil
    import tempfile
    d = tempfile.mkdtemp(prefix='c20_', dir='/var/tmp')
    try:
        for (sr, P, k, taps) in ((3e9, 1024, 2, 2), (3e9, 1024, 1, 4), (2.4e9, 512, 3, 2), (1e9, 64, 5, 1), (3e9, 8, 7, 1)):
            for n in sorted({int(p['n']) if p['n'] < 6 else 3, 1, 2, 3, 5}):
                be, _ = _real_backend(sr=sr, P=P, k=k, taps=taps, nc=1)
                be.record(os.path.join(d, f'x{int(sr)}_{P}_{k}_{n}'), num_blocks=n, length_mode='num_blocks', header_dict={}, verbose=False, load_template=False)
                want = n * be.samples_per_block * P
                if be.total_obs_num_samples != want:
                    return True, f"sample_rate={sr}, num_branches={P}, samples_per_block={be.samples_per_block}, {n} blocks: total_obs_num_samples={be.total_obs_num_samples}, expected {want}"
    finally:
        shutil.rmtree(d, ignore_errors=True)
    return False, 'total_obs_num_samples exact on all candidates'


REPLAYS = {'narrow_int': replay_narrow_int, 'array_clock': replay_array_clock, 'total_fp': replay_total_fp, 'record': replay_record, 'num_blocks': replay_num_blocks, 'ctor': replay_ctor, 'helpers': replay_helpers}


def main():
    ck = Check('C20', 'Block, length and sample accounting is exact and consistent across helpers')
    ck.functions = ['RawVoltageBackend.__init__', 'RawVoltageBackend.get_num_blocks', 'RawVoltageBackend.record (length section slice + full runs)', 'RawVoltageBackend._header_populate_configuration',
                    'backend.get_block_size', 'backend.get_total_obs_num_samples', 'level_utils.get_unit_drift_rate', 'frame.params_from_backend']
    ck.files = ['setigen/voltage/backend.py', 'setigen/voltage/level_utils.py', 'setigen/frame.py']
    ck.stubs = ['antenna/quantisers as in C02', 'open() -> in-memory files']
    ck.assumptions = ['block_size = k * taps * antennas * chans * bytes with k a symbolic integer (what the constructor admits)', 'durations on a concrete dyadic sample rate (symbolic rate would make L*rate non-linear)',
                      'delta model for the duration -> blocks conversion with the 1e-9 boundary tolerance of the statement']
    jobs = []
    space = [(1, 2, 8, 2, 8, 2), (2, 2, 8, 3, 4, 1), (1, 1, 4, 2, 8, 3), (3, 2, 4, 4, 16, 5), (1, 1, 8, 1, 2, 1), (4, 2, 8, 8, 64, 7)]
    if ck.thorough:
        space = space + [(na, npol, bits, taps, P, nc) for na in (1, 2) for npol in (1, 2) for bits in (8, 4) for (taps, P, nc) in ((2, 4, 2), (8, 1024, 64), (4, 32, 16))]
    for cfg in space:
        jobs.append(('job_ctor', cfg))
        jobs.append(('job_ctor', cfg + (False,)))
    for nant, nc in ((1, 2), (2, 3), (4, 1)):
        for mode in ('exact', 'fp'):
            jobs.append(('job_num_blocks', (nant, nc, mode)))
    for lm in ('num_blocks', 'obs_length'):
        for wi in (False, True):
            jobs.append(('job_record_lengths', (lm, wi)))
    for nant in (1, 2):
        for nblocks in (1, 2, 3):
            for nsb in (1, 2):
                jobs.append(('job_record_run', (nant, nblocks, nsb)))
                if nblocks == 2:
                    for prior in ('completed', 'aborted', 'renumbered'):
                        jobs.append(('job_record_run', (nant, nblocks, nsb, prior)))
    for (delays, nb_, nsb_) in (((0, 3), 2, 1), ((2, 0, 5), 1, 2), ((0, 0), 2, 2)):
        jobs.append(('job_record_run_array', (delays, nb_, nsb_)))
    jobs.append(('job_helpers', ()))
    jobs.append(('job_narrow_int_forms', ()))
    jobs.append(('job_record_lengths_fp', ()))
    ck.bounds = dict(configs=space, windows_per_block='symbolic integer >= 1', requested_blocks='symbolic integer <= 10^6; input blocks symbolic <= 10^6', durations='symbolic real <= 10^6 s', executed_recordings='1..3 blocks')
    ck.run_jobs('props.C20', jobs, timeout_s=900)
    ck.finish()


if __name__ == '__main__':
    main()
