"""C10 -- antenna streams deliver one continuous timeline however requests are chunked.

E1: the real DataStream / Antenna methods run with symbolic start time, sample rate, band origin, signal
parameters and noise moments; the k-th draw of a seeded generator is the term Z(seed, k); custom sources
are uninterpreted functions of time; cos is uninterpreted.
"""
import itertools
import time

import numpy as np
import z3

from symx import core, npx
from symx.core import Sym, SymC, lift, RV, UF
from symx.report import Check, q, cex, note
from props.volt_common import DS, A, volt_patches, cparts, diff_terms
from props.C08 import compositions

TWO_PI = 2 * np.pi
ZF = z3.Function('Z', z3.RealSort(), z3.RealSort(), z3.RealSort())     # Z(stream seed, draw index)


class GenStub:
    """seeded generator = fixed draw sequence: k-th normal draw of seed s is Z(s, k)"""
    next_seed = [1000]

    def __init__(self, seed=None):
        if seed is None:
            seed = z3.Real(f'unseeded_{GenStub.next_seed[0]}')      # hidden entropy: a free symbol
            GenStub.next_seed[0] += 1
        self.seed = lift(seed)
        self.k = 0
        self.ints = 0

    def standard_normal(self, size=None):
        n = 1 if size is None else int(size)
        out = np.empty(n, dtype=object)
        for i in range(n):
            out[i] = Sym(ZF(self.seed, RV(self.k)))
            self.k += 1
        return out.view(npx.SymArr) if size is not None else out[0]

    def normal(self, loc=0.0, scale=1.0, size=None):
        return loc + scale * self.standard_normal(size)

    def integers(self, hi, *a, **k):
        # child seeds: deterministic function of (parent seed, draw number), concrete so int() works
        self.ints += 1
        base = core.const_value(self.seed)
        return int(base) * 10 + self.ints if base is not None else 7000 + self.ints


def proxy():
    return npx.NPProxy(rng_factory=lambda seed=None: GenStub(seed))


def params():
    P = {n: Sym(z3.Real(n)) for n in ('t0', 'sr', 'fch1', 'f_start', 'drift', 'level', 'phase', 'v_mean', 'v_std')}
    pre = [P['sr'].t > 0]
    return P, pre


CU = UF('CUSTOM', 1)
CUR, CUI = UF('CUSTOM_RE', 1), UF('CUSTOM_IM', 1)


def custom_real(ts):
    return npx._map(lambda t: Sym(CU(lift(t))), ts)


def custom_complex(ts):
    return npx._map(lambda t: SymC(Sym(CUR(lift(t))), Sym(CUI(lift(t)))), ts)


def custom_int(ts):
    return np.full(len(ts), 3)              # an integer-typed source (a gate / flag array)


def mk_stream(P, asc, custom, seed=42):
    """custom: None | 'real' | 'complex' (added last) | 'complex_first' (added before the real-valued cosine source) |
    'int' (an integer-typed array source added last)"""
    s = DS.DataStream(sample_rate=P['sr'], fch1=P['fch1'], ascending=asc, t_start=P['t0'], seed=seed)
    s.add_noise(P['v_mean'], P['v_std'])
    if custom == 'complex_first':
        s.add_signal(custom_complex)
    s.add_constant_signal(P['f_start'], P['drift'], P['level'], P['phase'])
    if custom == 'real':
        s.add_signal(custom_real)
    elif custom == 'real_twice':
        # the same source attached twice (two identical emitters): it counts twice
        s.add_signal(custom_real)
        s.add_signal(custom_real)
    elif custom == 'complex':
        s.add_signal(custom_complex)
    elif custom == 'int':
        s.add_signal(custom_int)
    return s


def spec_sample(P, asc, custom, t, draw, seed=42):
    """(re, im) of the sample evaluated at time term t whose noise draw has index `draw`"""
    ph = RV(TWO_PI) * ((P['f_start'].t - P['fch1'].t) * t + RV(0.5) * P['drift'].t * t * t)
    if not asc:
        ph = -ph
    re = P['v_mean'].t + P['v_std'].t * ZF(RV(seed), RV(draw)) + P['level'].t * UF('COS')(ph + P['phase'].t)
    im = RV(0)
    if custom == 'real':
        re = re + CU(t)
    elif custom == 'real_twice':
        re = re + 2 * CU(t)
    elif custom in ('complex', 'complex_first'):
        re, im = re + CUR(t), CUI(t)
    elif custom == 'int':
        re = re + RV(3)
    return re, im


def decide(name, pairs, recs, key, what, pl, pre):
    dis = diff_terms(pairs)
    if not dis:
        r, _ = core.check([z3.BoolVal(False)])
        recs.append(q(name, r, by='rewriter', terms=2 * len(pairs)))
        return
    t0 = time.time()
    r, m = core.check(list(pre) + [z3.Or(*dis)], timeout_ms=120000)
    recs.append(q(name, r, ms=(time.time() - t0) * 1000, terms=len(dis)))
    if r == 'sat':
        # the instants the solver used go with the counterexample: the replay runs on them as well as on its own
        recs.append(cex(key, what, dict(pl, vals=core.model_vals(m, ('t0', 'sr', 't_set', 'delta', 'gap', 't_x', 't_y', 't_ant'))), name=name))


def job_stream(asc, N, custom):
    """every composition of N samples into requests == one request == closed form"""
    recs = []
    P, pre = params()
    dt = 1 / P['sr'].t
    for comp in compositions(N):
        tag = f"C10:stream:{(asc, custom)}:{comp}"
        with volt_patches(proxy=proxy()):
            s = mk_stream(P, asc, custom)
            got = []
            lens_ok = True
            for n in comp:
                v = s.get_samples(n)
                lens_ok &= (len(v) == n and len(s.ts) == n)
                got += list(v)
            one = mk_stream(P, asc, custom)
            ref = list(one.get_samples(N))
            clock = (s.t_start, s.start_obs, one.t_start)
        pl = dict(fn='stream', asc=asc, custom=custom, comp=list(comp), ops=[])
        if not lens_ok or len(got) != N or len(ref) != N:
            recs.append(q(tag + ':lengths', 'sat'))
            recs.append(cex('C10:length', 'request returned a wrong number of samples', pl, name=tag + ':lengths'))
            continue
        pairs = []
        for k in range(N):
            sp = spec_sample(P, asc, custom, P['t0'].t + RV(k) * dt, k)
            pairs.append((cparts(got[k]), sp))
            pairs.append((cparts(ref[k]), sp))
        pairs.append(((lift(clock[0]), RV(0)), (P['t0'].t + RV(N) * dt, RV(0))))
        pairs.append(((lift(clock[2]), RV(0)), (P['t0'].t + RV(N) * dt, RV(0))))
        pairs.append(((RV(int(bool(clock[1]))), RV(0)), (RV(0), RV(0))))
        decide(tag, pairs, recs, f'C10:stream:{custom}', f'chunked requests {comp} differ from the closed form / single request', pl, pre)
    # twin
    r, _ = core.check(pre + [lift(ref[0].real if hasattr(ref[0], 'real') else ref[0]) != P['v_mean'].t])
    recs.append(q(f"C10:stream:{(asc, N, custom)}:twin", r, expect='sat'))
    return recs


OPS = ('set', 'add', 'reset', 'update_noise_same', 'update_noise_other')


def job_clock(asc, ops, n1, n2):
    """requests n1, <clock operations>, n2: the second request starts at exactly the requested instant"""
    recs = []
    P, pre = params()
    dt = 1 / P['sr'].t
    ts_, dl = Sym(z3.Real('t_set')), Sym(z3.Real('delta'))
    tag = f"C10:clock:{(asc, ops, n1, n2)}"
    t = P['t0'].t + RV(n1) * dt
    draws = n1
    for op in ops:
        if op == 'set':
            t = ts_.t
        elif op == 'add':
            t = t + dl.t
        elif op.startswith('update_noise'):
            draws += n2 if op.endswith('same') else n2 + 1

    def run():
        s = mk_stream(P, asc, 'real')
        a = list(s.get_samples(n1))
        start_flags = []
        for op in ops:
            if op == 'set':
                s.set_time(ts_)
            elif op == 'add':
                s.add_time(dl)
            elif op == 'reset':
                s.add_time(0)
            elif op.startswith('update_noise'):
                s.update_noise(stats_calc_num_samples=n2 if op.endswith('same') else n2 + 1)
            start_flags.append((op, s.start_obs))
        clk = s.t_start
        b = list(s.get_samples(n2))
        return a, b, clk, s.t_start, start_flags
    # (an implementation may branch on the requested instant, e.g. treat 0 specially: each branch is its own path)
    with volt_patches(proxy=proxy()):
        leaves = core.explore(run, pre, cap=16)
    pl = dict(fn='stream', asc=asc, custom='real', comp=[n1, n2], ops=list(ops))
    conds = []
    for li, leaf in enumerate(leaves):
        conds.append(leaf.cond())
        base = pre + leaf.pc + leaf.side
        name = tag + (f":leaf{li}" if len(leaves) > 1 else '')
        if leaf.kind == 'exc':
            r, m = core.check(base, timeout_ms=30000)
            recs.append(q(name + ':noexc', r, detail=repr(leaf.value)))
            if r == 'sat':
                recs.append(cex('C10:clock:raise', f'clock operations {ops} raised {leaf.value!r}', dict(pl, vals=core.model_vals(m, ('t0', 'sr', 't_set', 'delta'))), name=name + ':noexc'))
            continue
        a, b, clk, end, start_flags = leaf.value
        pairs = [((lift(clk), RV(0)), (t, RV(0))), ((lift(end), RV(0)), (t + RV(n2) * dt, RV(0)))]
        for k in range(n1):
            pairs.append((cparts(a[k]), spec_sample(P, asc, 'real', P['t0'].t + RV(k) * dt, k)))
        if len(b) != n2:
            recs.append(q(name + ':lengths', 'sat'))
            recs.append(cex('C10:length', 'request returned a wrong number of samples', pl, name=name + ':lengths'))
            continue
        for k in range(n2):
            pairs.append((cparts(b[k]), spec_sample(P, asc, 'real', t + RV(k) * dt, draws + k)))
        decide(name, pairs, recs, f"C10:clock:{'+'.join(ops)}", f'after {ops} the next request is not evaluated at the requested instant', pl, base)
        # start_obs bookkeeping: set/add/reset mark the start of an observation; update_noise restores the flag
        flag = False
        okflags = True
        for op, f in start_flags:
            if op in ('set', 'add', 'reset'):
                flag = True
            okflags &= (bool(f) == flag)
        r, _ = core.check([RV(int(okflags)) != 1])
        recs.append(q(name + ':start_obs', r, trivial=True))
        if not okflags:
            recs.append(cex('C10:start_obs', f'start_obs flag wrong after {ops}', pl, name=name + ':start_obs'))
    if len(leaves) > 1:
        r, _ = core.check(pre + [z3.Not(z3.Or(*conds))], timeout_ms=30000)
        recs.append(q(tag + ':split-complete', r, leaves=len(leaves)))
    return recs


def job_antenna(num_pols, asc, N, ycomplex=False):
    recs = []
    P, pre = params()
    dt = 1 / P['sr'].t
    tsv = Sym(z3.Real('t_set'))
    for comp in compositions(N):
        tag = f"C10:antenna:{(num_pols, asc, ycomplex)}:{comp}"
        with volt_patches(proxy=proxy()):
            ant = A.Antenna(sample_rate=P['sr'], fch1=P['fch1'], ascending=asc, num_pols=num_pols, t_start=P['t0'], seed=3)
            seeds = [31, 32][:num_pols]
            for st in ant.streams:
                st.add_noise(P['v_mean'], P['v_std'])
                st.add_constant_signal(P['f_start'], P['drift'], P['level'], P['phase'])
            if num_pols == 2 and ycomplex:
                ant.y.add_signal(custom_complex)        # complex source on one polarisation only
            chunks = []
            okshape = True
            for n in comp:
                v = ant.get_samples(n)
                okshape &= (v.shape == (1, num_pols, n))
                chunks.append(v)
            clock = [ant.t_start] + [st.t_start for st in ant.streams]
            started = ant.start_obs
            # clock operations propagate to the streams
            ant.set_time(tsv)
            after_set = [ant.t_start] + [st.t_start for st in ant.streams] + [ant.start_obs] + [st.start_obs for st in ant.streams]
            v2 = ant.get_samples(1)
        pl = dict(fn='antenna', num_pols=num_pols, asc=asc, comp=list(comp), ycomplex=ycomplex)
        if not okshape:
            recs.append(q(tag + ':shape', 'sat'))
            recs.append(cex('C10:antenna:shape', 'antenna output shape is not (1, num_pols, n)', pl, name=tag + ':shape'))
            continue
        pairs = []
        k = 0
        for v in chunks:
            for j in range(v.shape[2]):
                for pol in range(num_pols):
                    pairs.append((cparts(v[0, pol, j]), spec_sample(P, asc, 'complex' if (ycomplex and pol == 1) else None, P['t0'].t + RV(k) * dt, k, seed=seeds[pol])))
                k += 1
        for c in clock:
            pairs.append(((lift(c), RV(0)), (P['t0'].t + RV(N) * dt, RV(0))))
        for c in after_set[:1 + num_pols]:
            pairs.append(((lift(c), RV(0)), (tsv.t, RV(0))))
        for pol in range(num_pols):
            pairs.append((cparts(v2[0, pol, 0]), spec_sample(P, asc, 'complex' if (ycomplex and pol == 1) else None, tsv.t, N, seed=seeds[pol])))
        decide(tag, pairs, recs, 'C10:antenna', 'antenna polarisations are not stacked x,y over one timeline / clock differs from its streams', pl, pre)
        flags_ok = (not started) and all(bool(f) for f in after_set[1 + num_pols:])
        r, _ = core.check([RV(int(flags_ok)) != 1])
        recs.append(q(tag + ':start_obs', r, trivial=True))
        if not flags_ok:
            recs.append(cex('C10:antenna:start_obs', 'start_obs bookkeeping', pl, name=tag + ':start_obs'))
    return recs


def job_units(asc, num_pols):
    """sample rate, first-channel frequency, tone frequency and drift given as quantities (MHz, GHz, kHz/s): the streams
    deliver what they deliver for the same values as plain SI numbers"""
    from props.frame_common import SQ
    recs = []
    tag = f"C10:units:{(asc, num_pols)}"
    srM, fG, f0M, dk, lvl, t0 = (Sym(z3.Real(n)) for n in ('sr_MHz', 'fch1_GHz', 'f_start_MHz', 'drift_kHz_s', 'level', 't0'))
    pre = [srM.t > 0]
    outs = []
    with volt_patches(proxy=proxy(), units=True):
        for quant in (True, False):
            sr = SQ(srM, 'MHz') if quant else srM * 1000000
            f1 = SQ(fG, 'GHz') if quant else fG * 1000000000
            f0 = SQ(f0M, 'MHz') if quant else f0M * 1000000
            d = SQ(dk, 'kHz / s') if quant else dk * 1000
            ant = A.Antenna(sample_rate=sr, fch1=f1, ascending=asc, num_pols=num_pols, t_start=t0, seed=3)
            for st in ant.streams:
                st.add_noise(0, 1)
                st.add_constant_signal(f0, d, lvl)
            outs.append((ant.get_samples(3), ant.t_start, ant.sample_rate, ant.fch1))
    (va, ta, ra, fa), (vb, tb, rb, fb_) = outs
    pairs = [(cparts(x), cparts(y)) for x, y in zip(va.flat, vb.flat)] + [((lift(ta), RV(0)), (lift(tb), RV(0))), ((lift(ra), RV(0)), (lift(rb), RV(0))), ((lift(fa), RV(0)), (lift(fb_), RV(0)))]
    decide(tag, pairs, recs, 'C10:units', 'streams built from unit-carrying arguments differ from those built from the same values in Hz, Hz/s', dict(fn='units', asc=asc, num_pols=num_pols), pre)
    r, _ = core.check(pre + [cparts(va[0, 0, 1])[0] != cparts(vb[0, 0, 1])[0] + 1], timeout_ms=30000)
    recs.append(q(tag + ':twin', r, expect='sat'))
    return recs


def replay_units(p):
    import astropy.units as u
    from setigen.voltage import antenna as an
    outs = []
    for quant in (True, False):
        kw = dict(sample_rate=0.001 * u.MHz, fch1=1e-7 * u.GHz) if quant else dict(sample_rate=1000.0, fch1=100.0)
        ant = an.Antenna(ascending=p['asc'], num_pols=p['num_pols'], t_start=1.5, seed=4, **kw)
        for st in ant.streams:
            st.add_noise(0, 1)
            if quant:
                st.add_constant_signal(0.00018 * u.MHz, 0.02 * u.kHz / u.s, 1.5)
            else:
                st.add_constant_signal(180.0, 20.0, 1.5)
        outs.append((ant.get_samples(64), ant.t_start))
    bad = not np.allclose(outs[0][0], outs[1][0], rtol=1e-9, atol=1e-9) or abs(outs[0][1] - outs[1][1]) > 1e-12
    return bad, f"unit-carrying stream arguments: max sample difference {float(np.max(np.abs(outs[0][0] - outs[1][0])))!r}, clocks {outs[0][1]!r} / {outs[1][1]!r}"


def job_fractional_request(num_pols, count):
    """a request for a non-integer number of samples is either refused or leaves the antenna's clock equal to its
    streams' (NumPy refuses a float count in linspace; nothing may have moved when it does)"""
    recs = []
    P, pre = params()
    tag = f"C10:fractional:{(num_pols, count)}"
    with volt_patches(proxy=proxy()):
        ant = A.Antenna(sample_rate=P['sr'], fch1=P['fch1'], ascending=True, num_pols=num_pols, t_start=P['t0'], seed=3)
        for st in ant.streams:
            st.add_noise(P['v_mean'], P['v_std'])
        ant.get_samples(2)
        refused = None
        try:
            ant.get_samples(count)
        except TypeError as e:
            refused = e
        clocks = [ant.t_start] + [st.t_start for st in ant.streams]
    dis = [lift(c) != lift(clocks[0]) for c in clocks[1:]]
    if refused is not None:
        dis.append(lift(clocks[0]) != P['t0'].t + 2 / P['sr'].t)
    r, m = core.check(pre + [z3.Or(*dis)], timeout_ms=30000)
    recs.append(q(tag, r, refused=refused is not None))
    if r == 'sat':
        recs.append(cex('C10:fractional', f"after a request for {count} samples ({'refused' if refused is not None else 'accepted'}) the antenna's clock differs from its streams' clocks",
                        dict(fn='fractional', num_pols=num_pols, count=count), name=tag))
    r, _ = core.check(pre + [lift(clocks[0]) != P['t0'].t], timeout_ms=30000)
    recs.append(q(tag + ':twin', r, expect='sat'))
    return recs


def replay_fractional(p):
    from setigen.voltage import antenna as an
    ant = an.Antenna(sample_rate=1000.0, fch1=100.0, ascending=True, num_pols=p['num_pols'], t_start=1.5, seed=4)
    for st in ant.streams:
        st.add_noise(0, 1)
    ant.get_samples(2)
    try:
        ant.get_samples(p['count'])
        how = 'accepted'
    except TypeError:
        how = 'refused'
    clocks = [ant.t_start] + [st.t_start for st in ant.streams]
    bad = any(abs(c - clocks[0]) > 1e-12 for c in clocks[1:]) or (how == 'refused' and abs(clocks[0] - (1.5 + 2 / 1000.0)) > 1e-12)
    return bad, f"request for {p['count']} samples {how}: antenna clock {clocks[0]!r}, stream clocks {clocks[1:]!r}"


def job_request_length_fp(n):
    """binary64 (rounded-real model, every operation with its own relative error): a request for n samples returns
    exactly n samples and n time stamps, for every sample rate and start time -- a time grid built from a floating-point
    range whose end is n*dt may come out one element long"""
    from symx import fp
    from symx.fp import FSym
    recs = []
    fp.reset()
    pre = []
    sr = FSym.var('sr', 1e-3, 1e12, pre)
    t0 = FSym.var('t0', 0, 1e10, pre)
    tag = f"C10:request-length-fp:{n}"

    def run():
        s = DS.DataStream(sample_rate=sr, fch1=FSym(RV(0.0)), ascending=True, t_start=t0, seed=1)
        v = s.get_samples(n)
        return len(v), len(s.ts)
    with volt_patches(proxy=proxy()):
        leaves = core.explore(run, pre, cap=12)
    conds = []
    for li, leaf in enumerate(leaves):
        conds.append(leaf.cond())
        base = pre + leaf.pc + leaf.side + list(fp.SIDE)
        name = f"{tag}:leaf{li}"
        if leaf.kind == 'exc':
            r, m = core.check(base, timeout_ms=30000)
            recs.append(q(name + ':noexc', r, detail=repr(leaf.value)))
            if r == 'sat':
                recs.append(cex('C10:request-length:raise', f'a request for {n} samples raised {leaf.value!r}', dict(fn='request_length', n=n), name=name + ':noexc'))
            continue
        lv, lt = leaf.value
        if (lv, lt) == (n, n):
            recs.append(q(name, 'unsat', trivial=True, detail='lengths are n on this path'))
            continue
        r, m = core.check(base, timeout_ms=60000)            # is the path with a wrong length feasible in binary64?
        recs.append(q(name, r, lengths=str((lv, lt))))
        if r == 'sat':
            recs.append(cex('C10:request-length', f'in binary64 a request for {n} samples can return {lv} samples ({lt} time stamps) (candidate)', dict(fn='request_length', n=n, vals=core.model_vals(m, ['sr', 't0'])), name=name))
    r, _ = core.check(pre + list(fp.SIDE) + [z3.Not(z3.Or(*conds))], timeout_ms=30000)
    recs.append(q(f"{tag}:split-complete", r, leaves=len(leaves)))
    return recs


def replay_request_length(p):
    from setigen.voltage import data_stream as ds
    v = p.get('vals') or {}
    rates = [3e9, 10.0, 1000.0, 2.5e6] + ([v['sr']] if v.get('sr') else [])
    bad = []
    for sr in rates:
        s = ds.DataStream(sample_rate=sr, seed=1)
        for n in sorted(set(list(range(1, 400)) + [p['n'], 1024 * 15, 4999])):
            out = s.get_samples(n)
            if len(out) != n or len(s.ts) != n:
                bad.append((sr, n, len(out)))
                break
    return bool(bad), f"requests that do not return their own size (rate, requested, returned): {bad[:4]}" if bad else 'every request returns its own number of samples'


def job_reseed(asc, N):
    """the stream's generator is re-assigned after the noise source was added (a replay with a fresh seeded generator):
    from then on the noise is the NEW generator's sequence -- the source is bound to the stream, not to the generator
    object that happened to be there when add_noise was called"""
    recs = []
    P, pre = params()
    dt = 1 / P['sr'].t
    tag = f"C10:reseed:{(asc, N)}"
    with volt_patches(proxy=proxy()):
        s = mk_stream(P, asc, None, seed=42)
        first = list(s.get_samples(2))
        s.rng = GenStub(77)
        s.set_time(P['t0'])
        got = list(s.get_samples(N))
    pairs = []
    for k in range(N):
        pairs.append((cparts(got[k]), spec_sample(P, asc, None, P['t0'].t + RV(k) * dt, k, seed=77)))
    for k in range(2):
        pairs.append((cparts(first[k]), spec_sample(P, asc, None, P['t0'].t + RV(k) * dt, k, seed=42)))
    decide(tag, pairs, recs, 'C10:reseed', 'after the stream was given a new generator its noise is not that generator\'s sequence', dict(fn='reseed', asc=asc, N=N), pre)
    return recs


def replay_reseed(p):
    from setigen.voltage import data_stream as ds
    s = ds.DataStream(sample_rate=1000.0, fch1=100.0, ascending=p['asc'], t_start=2.5, seed=9)
    s.add_noise(0.5, 2.0)
    s.get_samples(7)
    s.rng = np.random.default_rng(77)
    s.set_time(2.5)
    got = np.array(s.get_samples(p['N']))
    want = 0.5 + 2.0 * np.random.default_rng(77).standard_normal(p['N'])
    bad = not np.allclose(got, want, rtol=1e-12, atol=1e-12)
    return bad, f"stream re-seeded with default_rng(77): samples {got[:2].tolist()}, that generator gives {want[:2].tolist()}"


def job_clock_resync(num_pols, op):
    """one clock operation from an ARBITRARY pre-state (stream clocks and flags differing from the antenna's, as after a
    request that failed part-way or after driving a stream directly): afterwards every clock is the requested instant,
    a new observation is flagged, and the next sample is evaluated there"""
    recs = []
    P, pre = params()
    tag = f"C10:resync:{(num_pols, op)}"
    tx, ty, ta, g = (Sym(z3.Real(n)) for n in ('t_x', 't_y', 't_ant', 'gap'))
    with volt_patches(proxy=proxy()):
        ant = A.Antenna(sample_rate=P['sr'], fch1=P['fch1'], ascending=True, num_pols=num_pols, t_start=P['t0'], seed=3)
        for st in ant.streams:
            st.add_constant_signal(P['f_start'], P['drift'], P['level'], P['phase'])
        ant.get_samples(2)
        # (a member of an array carries its sample delay as an attribute; the delay is applied by the array to the shared
        # background only -- the antenna's own streams are set to the requested instant itself)
        ant.delay = 3
        # arbitrary, mutually different clocks; flags as left by an interrupted request
        ant.t_start, ant.start_obs = ta, True
        for st, t_ in zip(ant.streams, (tx, ty)):
            st.t_start, st.start_obs = t_, False
        if op == 'set_time':
            ant.set_time(g)
            want = g.t
        elif op == 'add_time':
            ant.add_time(g)
            want = ta.t + g.t
        else:
            ant.reset_start()
            want = ta.t
        clocks = [ant.t_start] + [st.t_start for st in ant.streams]
        flags = [ant.start_obs] + [st.start_obs for st in ant.streams]
        v = ant.get_samples(1)
        after = [ant.t_start] + [st.t_start for st in ant.streams]
    pairs = [((lift(c), RV(0)), (want, RV(0))) for c in clocks]
    # ... and one sample later every clock has advanced by exactly one sample period from there
    pairs += [((lift(c), RV(0)), (want + 1 / P['sr'].t, RV(0))) for c in after]
    for pol in range(num_pols):
        ph = RV(TWO_PI) * ((P['f_start'].t - P['fch1'].t) * want + RV(0.5) * P['drift'].t * want * want)
        pairs.append((cparts(v[0, pol, 0]), (P['level'].t * UF('COS')(ph + P['phase'].t), RV(0))))
    pl = dict(fn='resync', num_pols=num_pols, op=op)
    decide(tag, pairs, recs, 'C10:resync', f"after {op} from a state in which the streams' clocks differ from the antenna's, the clocks are not all at the requested instant", pl, pre)
    ok = all(bool(f) for f in flags)
    r, _ = core.check([RV(int(ok)) != 1])
    recs.append(q(tag + ':flags', r, trivial=True))
    if not ok:
        recs.append(cex('C10:resync:flags', f'{op}: a new observation is not flagged on antenna and streams', pl, name=tag + ':flags'))
    return recs


def replay_resync(p):
    from setigen.voltage import antenna as an
    ant = an.Antenna(sample_rate=1000.0, fch1=100.0, ascending=True, num_pols=p['num_pols'], t_start=1.5, seed=4)
    for st in ant.streams:
        st.add_signal(lambda ts: np.asarray(ts) * 7.0)          # sample value = 7 * its own time
    ant.get_samples(2)
    ant.delay = 3
    # (instants that are not whole numbers of sample periods)
    ant.t_start, ant.start_obs = 3.25007, True
    for st, t_ in zip(ant.streams, (9.0, 11.5)):
        st.t_start, st.start_obs = t_, False
    if p['op'] == 'set_time':
        ant.set_time(20.00041)
        want = 20.00041
    elif p['op'] == 'add_time':
        ant.add_time(0.75003)
        want = 3.25007 + 0.75003
    else:
        ant.reset_start()
        want = 3.25007
    clocks = [ant.t_start] + [st.t_start for st in ant.streams]
    flags = [ant.start_obs] + [st.start_obs for st in ant.streams]
    v = ant.get_samples(1)
    after = [ant.t_start] + [st.t_start for st in ant.streams]
    if any(abs(c - (want + 1 / 1000.0)) > 1e-9 for c in after):
        return True, f"{p['op']} then one sample: clocks {after}, expected {want + 1 / 1000.0} (antenna clock first)"
    bad = any(abs(c - want) > 1e-12 for c in clocks) or not all(flags) or not np.allclose(v[0, :, 0], 7.0 * want)
    return bad, f"{p['op']} from diverged clocks: clocks {clocks} (expected {want}), flags {flags}, next sample {v[0, :, 0]} (expected {7.0 * want})"


# ------------------------------------------------------------------ concrete oracle
def usable_vals(p):
    """instants from the solver's model, if they are of a size at which the closed form can be compared in binary64"""
    v = p.get('vals') or {}
    if not v or not (1e-3 <= v.get('sr', 1.0) <= 1e6) or any(abs(x) > 1e5 for x in v.values()):
        return None
    return v


def replay_stream(p):
    bad, msg = _replay_stream(p, None)
    v = usable_vals(p)
    if not bad and v:
        bad, msg = _replay_stream(p, v)
        msg = f"with the solver's instants {v}: {msg}"
    if not bad and p.get('ops'):
        # boundary instants: a rewind to exactly 0, a zero advance
        bad, msg = _replay_stream(p, dict(t_set=0.0, delta=0.0))
        msg = f"with set_time(0) / add_time(0): {msg}"
    return bad, msg


def _replay_stream(p, vals):
    from setigen.voltage import data_stream as ds
    asc, custom, comp, ops = p['asc'], p['custom'], p['comp'], p.get('ops', [])
    sr, fch1, t0, f0, d, lvl, ph = 1000.0, 100.0, 2.50031, 180.0, 30.0, 1.7, 0.3
    # instants that are not whole numbers of sample periods
    t_set, delta = 7.2503137, 0.50007
    if vals:
        sr, t0, t_set, delta = vals.get('sr', sr), vals.get('t0', t0), vals.get('t_set', t_set), vals.get('delta', delta)
    cf = {'real': lambda ts: 0.25 * ts ** 2, 'real_twice': lambda ts: 0.25 * ts ** 2, 'complex': lambda ts: np.sin(ts) + 1j * ts, 'complex_first': lambda ts: np.sin(ts) + 1j * ts,
          'int': lambda ts: np.full(len(ts), 3)}.get(custom)

    def mk(seed=9):
        s = ds.DataStream(sample_rate=sr, fch1=fch1, ascending=asc, t_start=t0, seed=seed)
        s.add_noise(0.5, 2.0)
        if custom == 'complex_first':
            s.add_signal(cf)
        s.add_constant_signal(f0, d, lvl, ph)
        if cf and custom != 'complex_first':
            s.add_signal(cf)
        if custom == 'real_twice':
            s.add_signal(cf)
        return s

    def closed(ts, z):
        phs = 2 * np.pi * ((f0 - fch1) * ts + 0.5 * d * ts ** 2)
        if not asc:
            phs = -phs
        v = 0.5 + 2.0 * z + lvl * np.cos(phs + ph)
        return v + cf(ts) * (2 if custom == 'real_twice' else 1) if cf else v
    zs = np.random.default_rng(9).standard_normal(4096)
    s = mk()
    msgs = []
    if not ops:
        got = np.concatenate([np.array(s.get_samples(n)) for n in comp])
        N = sum(comp)
        one = np.array(mk().get_samples(N))
        ts = t0 + np.arange(N) / sr
        want = closed(ts, zs[:N])
        if got.shape != want.shape or not np.allclose(got, want, rtol=1e-9, atol=1e-9):
            msgs.append(f"chunks {comp}: concatenated samples differ from the closed form (max err {np.max(np.abs(got - want)) if got.shape == want.shape else 'shape'})")
        if not np.allclose(one, want, rtol=1e-9, atol=1e-9):
            msgs.append("single request differs from the closed form")
        if abs(s.t_start - (t0 + N / sr)) > 1e-9:
            msgs.append("clock after requests")
    else:
        n1, n2 = comp
        a = np.array(s.get_samples(n1))
        t, draws = t0 + n1 / sr, n1
        for op in ops:
            if op == 'set':
                s.set_time(t_set)
                t = t_set
            elif op == 'add':
                s.add_time(delta)
                t += delta
            elif op == 'reset':
                s.add_time(0)
            else:
                m = n2 if op.endswith('same') else n2 + 1
                s.update_noise(stats_calc_num_samples=m)
                draws += m
        if abs(s.t_start - t) > 1e-9:
            msgs.append(f"clock is {s.t_start!r}, requested instant {t!r}")
        # a new observation is flagged by set/add/reset; a noise re-estimate puts the flag back as it found it
        flag = False
        for op in ops:
            if op in ('set', 'add', 'reset'):
                flag = True
        if bool(s.start_obs) != flag:
            msgs.append(f"after {ops} the start-of-observation flag is {s.start_obs!r}, expected {flag}")
        b = np.array(s.get_samples(n2))
        want = closed(t + np.arange(n2) / sr, zs[draws:draws + n2])
        if b.shape != want.shape or not np.allclose(b, want, rtol=1e-9, atol=1e-9):
            k = int(np.argmax(np.abs(b - want))) if b.shape == want.shape else -1
            msgs.append(f"after {ops}: sample {k} of the next request is {b[k]!r}, closed form at the requested instant gives {want[k]!r}")
    return bool(msgs), '; '.join(msgs) or 'stream agrees with the closed form'


def replay_antenna(p):
    from setigen.voltage import antenna as an
    sr, t0 = 1000.0, 1.5
    mk = lambda: an.Antenna(sample_rate=sr, fch1=100.0, ascending=p['asc'], num_pols=p['num_pols'], t_start=t0, seed=4)
    a, b = mk(), mk()
    for ant in (a, b):
        for st in ant.streams:
            st.add_noise(0, 1)
            st.add_constant_signal(150.0, 20.0, 1.0)
        if p.get('ycomplex') and p['num_pols'] == 2:
            ant.y.add_signal(lambda ts: 0.5j * np.ones(len(ts)))
    N = sum(p['comp'])
    got = np.concatenate([a.get_samples(n) for n in p['comp']], axis=2)
    ref = b.get_samples(N)
    msgs = []
    if got.shape != (1, p['num_pols'], N) or not np.allclose(got, ref, rtol=1e-9, atol=1e-9):
        msgs.append("chunked antenna output differs from a single request")
    if p.get('ycomplex') and p['num_pols'] == 2:
        c = mk()
        for st in c.streams:
            st.add_noise(0, 1)
            st.add_constant_signal(150.0, 20.0, 1.0)
        c.y.add_signal(lambda ts: 0.5j * np.ones(len(ts)))
        direct_y = np.array(c.y.get_samples(N))
        if not np.allclose(got[0, 1], direct_y, rtol=1e-9, atol=1e-9):
            msgs.append(f"stacked y polarisation differs from the y stream itself (max abs diff {np.max(np.abs(got[0, 1] - direct_y))}, dtype {got.dtype} vs {direct_y.dtype})")
    xs = np.array(mk().x.get_samples(N)) if False else None
    for st in a.streams:
        if abs(st.t_start - a.t_start) > 1e-9 or abs(a.t_start - (t0 + N / sr)) > 1e-9:
            msgs.append("antenna clock differs from its streams / expected instant")
    a.set_time(9.00017)
    if any(abs(st.t_start - 9.00017) > 0 for st in a.streams) or a.t_start != 9.00017 or not a.start_obs:
        msgs.append(f"set_time(9.00017) not propagated exactly: antenna {a.t_start!r}, streams {[st.t_start for st in a.streams]}")
    return bool(msgs), '; '.join(msgs) or 'antenna ok'


REPLAYS = {'stream': replay_stream, 'antenna': replay_antenna, 'fractional': replay_fractional, 'resync': replay_resync, 'units': replay_units, 'reseed': replay_reseed, 'request_length': replay_request_length}


def main():
    ck = Check('C10', 'Antenna streams deliver one continuous timeline however requests are chunked')
    ck.functions = ['DataStream.__init__', 'DataStream._update_t', 'DataStream.get_samples', 'DataStream.set_time', 'DataStream.add_time', 'DataStream.update_noise',
                    'DataStream.add_noise', 'DataStream.add_constant_signal', 'DataStream.add_signal', 'Antenna.__init__', 'Antenna.get_samples', 'Antenna.set_time',
                    'Antenna.add_time', 'Antenna.reset_start', 'data_stream.estimate_stats']
    ck.files = ['setigen/voltage/data_stream.py', 'setigen/voltage/antenna.py']
    ck.stubs = ['numpy Generator -> k-th standard normal draw of seed s is Z(s,k) (contract: a seeded generator is a fixed sequence independent of chunking)',
                'Generator.integers -> deterministic concrete child seeds', 'cos -> uninterpreted', 'custom sources -> uninterpreted functions of time']
    ck.assumptions = ['exact-real clock (accumulated rounding of t_start += n*dt outside)', 'update_noise consumes generator draws (documented); the draw index in the specification accounts for it']
    N = 4 if not ck.thorough else 6
    ck.bounds = dict(samples_total=N, compositions='all', clock_ops='all sequences of <= 2 operations from set/add/reset/update_noise(same size)/update_noise(other size)', request_sizes='1..3')
    jobs = []
    for asc in (True, False):
        for custom in (None, 'real', 'complex'):
            jobs.append(('job_stream', (asc, N if custom != 'complex' else min(N, 4), custom)))
        for custom in ('complex_first', 'int', 'real_twice'):
            jobs.append(('job_stream', (asc, 3, custom)))
        seqs = [(o,) for o in OPS] + list(itertools.product(OPS, repeat=2))
        for ops in seqs:
            for (n1, n2) in ((2, 2), (1, 3)) if ck.thorough else ((2, 2),):
                jobs.append(('job_clock', (asc, ops, n1, n2)))
        for num_pols in (1, 2):
            jobs.append(('job_antenna', (num_pols, asc, 3 if not ck.thorough else 4)))
        jobs.append(('job_antenna', (2, asc, 2, True)))
    for n_ in (1, 3, 15):
        jobs.append(('job_request_length_fp', (n_,)))
    for asc in (True, False):
        jobs.append(('job_reseed', (asc, 3)))
        jobs.append(('job_units', (asc, 2 if asc else 1)))
    for num_pols in (1, 2):
        for op in ('set_time', 'add_time', 'reset_start'):
            jobs.append(('job_clock_resync', (num_pols, op)))
        for count in (2.5, 3.0, 0.5):
            jobs.append(('job_fractional_request', (num_pols, count)))
    ck.run_jobs('props.C10', jobs, timeout_s=900)
    ck.finish()


if __name__ == '__main__':
    main()
