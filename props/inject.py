"""Symbolic harness around the real Frame.add_signal (used by C01 and C06).

A *configuration* fixes array shapes, input forms and option flags.  Inside a
configuration everything else is symbolic: geometry (df, dt, fch1), prior frame
content D[i,j], the four signal components (uninterpreted functions or fresh
reals), bounding-range endpoints.
"""
import itertools
import time

import numpy as np
import z3

from symx import core, npx
from symx.core import Sym, lift, UF
from symx.report import q, cex, note
from props.frame_common import (F, frame_patches, geom_syms, make_frame, sym_data, uf1, uf2, table_fn)

PATH = uf1('PATH')
TP = uf1('TP')
FP = uf2('FP')
BP = uf1('BP')

NICE = dict(df=2.0, dt=4.0, fch1=4096.0)


class Cfg:
    """one configuration (all fields concrete)"""
    FIELDS = ('T', 'Fc', 'asc', 'pform', 'tform', 'bform', 'ip', 'it', 'if_', 'smear', 'bound', 'nt', 'nf', 'ns', 'geom')

    def __init__(self, **kw):
        for k in self.FIELDS:
            setattr(self, k, kw[k])

    def key(self):
        return tuple(getattr(self, k) for k in self.FIELDS)

    def __repr__(self):
        return 'cfg(' + ','.join(f"{k}={getattr(self, k)}" for k in self.FIELDS) + ')'

    def as_dict(self):
        return {k: getattr(self, k) for k in self.FIELDS}


def build_inputs(c, tag=''):
    """symbolic inputs of one configuration + the kwargs for add_signal"""
    T, Fc = c.T, c.Fc
    inp = {}
    if c.pform == 'fn':
        path = PATH
    elif c.pform == 'arr':
        n = T + 1 if c.smear else T
        inp['path_arr'] = [Sym(z3.Real(f'p{tag}_{i}')) for i in range(n)]
        path = npx.sarr(inp['path_arr'])
    else:
        inp['path_sc'] = Sym(z3.Real(f'p{tag}'))
        path = inp['path_sc']
    if c.tform == 'fn':
        tp = TP
    elif c.tform == 'arr':
        inp['tp_arr'] = [Sym(z3.Real(f'tp{tag}_{i}')) for i in range(T)]
        tp = npx.sarr(inp['tp_arr'])
    else:
        inp['tp_sc'] = Sym(z3.Real(f'tp{tag}'))
        tp = inp['tp_sc']
    if c.bform == 'fn':
        bp = BP
    elif c.bform == 'arr':
        inp['bp_arr'] = [Sym(z3.Real(f'bp{tag}_{j}')) for j in range(Fc)]
        bp = npx.sarr(inp['bp_arr'])
    elif c.bform == 'sc':
        inp['bp_sc'] = Sym(z3.Real(f'bp{tag}'))
        bp = inp['bp_sc']
    else:
        bp = None
    kw = dict(path=path, t_profile=tp, f_profile=FP, bp_profile=bp,
              integrate_path=c.ip, integrate_t_profile=c.it, integrate_f_profile=c.if_,
              doppler_smearing=c.smear, t_subsamples=c.nt, f_subsamples=c.nf, smearing_subsamples=c.ns)
    if c.bound:
        inp['b0'] = Sym(z3.Real(f'b0{tag}'))
        inp['b1'] = Sym(z3.Real(f'b1{tag}'))
        kw['bounding_f_range'] = (inp['b0'], inp['b1'])
    return inp, kw


def nearest_index_term(f, fmin, df):
    """the channel nearest to f (round half to even on the channel coordinate)"""
    return core.rne(Sym((lift(f) - lift(fmin)) / lift(df)))


def spec_signal(c, inp, fs, ts, df, dt, fmin):
    """per-pixel specification written from the statement of C01.
    fs, ts: the frame's own axes (terms). Returns T x Fc list of z3 terms."""
    T, Fc = c.T, c.Fc
    tsv = [lift(t) for t in ts]
    fsv = [lift(f) for f in fs]
    dtv, dfv = lift(dt), lift(df)
    t_ext = tsv + [tsv[-1] + dtv]

    def mean(xs):
        return sum(xs[1:], xs[0]) / len(xs)

    def tval(i):
        if c.tform == 'fn':
            if c.it:
                return mean([TP.uf(tsv[i] + core.RV(m) * dtv / c.nt) for m in range(c.nt)])
            return TP.uf(tsv[i])
        if c.tform == 'arr':
            return lift(inp['tp_arr'][i])
        return lift(inp['tp_sc'])

    def pval(r):
        if c.pform == 'fn':
            if c.ip:
                return mean([PATH.uf(t_ext[r] + core.RV(m) * dtv / c.nt) for m in range(c.nt)])
            return PATH.uf(t_ext[r])
        if c.pform == 'arr':
            return lift(inp['path_arr'][r])
        return lift(inp['path_sc'])

    if c.bound:
        bmin = core.smax(nearest_index_term(inp['b0'], fmin, df), 0)
        bmax = core.smin(nearest_index_term(inp['b1'], fmin, df), Fc)
    out = [[None] * Fc for _ in range(T)]
    for i in range(T):
        ti = tval(i)
        if c.smear:
            p0, p1 = pval(i), pval(i + 1)
            centres = [p0 + core.RV(k) * (p1 - p0) / c.ns for k in range(c.ns)]
        else:
            centres = [pval(i)]
        for j in range(Fc):
            fgrid = [fsv[j] + core.RV(m) * dfv / c.nf for m in range(c.nf)] if c.if_ else [fsv[j]]
            vals = []
            for m, f in enumerate(fgrid):
                if c.bform == 'fn':
                    b = BP.uf(f)
                elif c.bform == 'arr':
                    b = lift(inp['bp_arr'][j])  # only used without bounding / f-integration
                elif c.bform == 'sc':
                    b = lift(inp['bp_sc'])
                else:
                    b = z3.RealVal(1)
                vals.append(mean([ti * FP.uf(f, cc) * b for cc in centres]))
            v = mean(vals)
            if c.bound:
                v = z3.If(z3.And(lift(bmin) <= j, j < lift(bmax)), v, z3.RealVal(0))
            out[i][j] = v
    return out


# concrete dyadic geometries (binary64 arithmetic on them is exact), used where a symbolic
# df would make the index computation (f - fmin)/df non-linear
GEOMS = {
    'g1': dict(df=2.0, dt=4.0, fch1=4096.0),
    'g2': dict(df=0.5, dt=0.25, fch1=-16.0),
    'g3': dict(df=1.0, dt=1.0, fch1=0.0),
}


def execute(c, tag='', int_data=False):
    """run the real Frame.__init__ + add_signal for configuration c.
    -> list of leaves; each leaf value is a dict of terms"""
    if c.geom is None:
        df, dt, fch1, pre = geom_syms(tag)
    else:
        g = GEOMS[c.geom]
        df, dt, fch1, pre = Sym(core.RV(g['df'])), Sym(core.RV(g['dt'])), Sym(core.RV(g['fch1'])), []
    inp, kw = build_inputs(c, tag)
    D = sym_data(c.T, c.Fc, f'D{tag}')
    if int_data:
        # prior data of an integer element type (frames built from integer arrays)
        for idx in np.ndindex(D.shape):
            D[idx] = Sym(z3.ToReal(z3.Int(f'Dint{tag}_{idx[0]}_{idx[1]}')), True)
        D._int_only = True

    def run():
        fr = make_frame(c.T, c.Fc, c.asc, df, dt, fch1)
        # the frame's own time axis need not start at 0 (cadences shift it; users may too): arbitrary origin
        _ = (fr.ts_ext, fr.t_stop)          # derived values read before the shift must not stick
        fr.ts = fr.ts + Sym(z3.Real(f't_origin{tag}'))
        before = dict(fs=list(fr.fs), ts=list(fr.ts), shape=fr.shape, noise=(fr.noise_mean, fr.noise_std),
                      meta=dict(fr.metadata), rng=fr.rng, rng_state=str(fr.rng.bit_generator.state),
                      fmin=fr.fmin, fmax=fr.fmax, df=fr.df, dt=fr.dt)
        fr.data = D.copy()
        # every execution gets its own copies of the caller's arrays; what they hold afterwards is reported so
        # that a write into the caller's signal description (which would change the next injection) is seen
        kw_run = {k: (v.copy() if isinstance(v, np.ndarray) else v) for k, v in kw.items()}
        in_before = {k: list(v.flat) for k, v in kw_run.items() if isinstance(v, np.ndarray)}
        try:
            sig = fr.add_signal(**kw_run)
        except TypeError as e:
            if not int_data:
                raise
            return dict(fr=fr, sig=None, refused=repr(e), before=before)      # NumPy refuses float += into integer data
        in_after = {k: list(kw_run[k].flat) for k in in_before}
        return dict(fr=fr, sig=sig, before=before, in_before=in_before, in_after=in_after)

    with frame_patches():
        leaves = core.explore(run, pre, cap=400)
    return dict(df=df, dt=dt, fch1=fch1, pre=pre, inp=inp, D=D, leaves=leaves, kw=kw)


def model_payload(c, ex, m, extra=None):
    """concrete inputs from a model, JSON-able"""
    mf = lambda t: core.model_float(m, t)
    inp = ex['inp']
    p = dict(fn='add_signal', cfg=c.as_dict(), df=mf(ex['df']), dt=mf(ex['dt']), fch1=mf(ex['fch1']), t_origin=mf(z3.Real('t_origin')),
             D=[[mf(ex['D'][i, j]) for j in range(c.Fc)] for i in range(c.T)])
    for k in ('path_arr', 'tp_arr', 'bp_arr'):
        if k in inp:
            p[k] = [mf(v) for v in inp[k]]
    for k in ('path_sc', 'tp_sc', 'bp_sc', 'b0', 'b1'):
        if k in inp:
            p[k] = mf(inp[k])
    for name, f, ar in (('PATH', PATH.uf, 1), ('TP', TP.uf, 1), ('FP', FP.uf, 2), ('BP', BP.uf, 1)):
        rows, els = core.uf_table(m, f)
        p[name] = dict(rows=rows, els=els)
    if extra:
        p.update(extra)
    return p


def nice_model(assertions, ex):
    """try to get a counterexample with float-friendly geometry first"""
    nice = [ex['df'].t == core.RV(NICE['df']), ex['dt'].t == core.RV(NICE['dt']), ex['fch1'].t == core.RV(NICE['fch1'])]
    r, m = core.check(list(assertions) + nice, timeout_ms=20000)
    if r == 'sat':
        return m
    r, m = core.check(list(assertions), timeout_ms=30000)
    return m if r == 'sat' else None


# ------------------------------------------------------------------ replay
def float_spec(c, p, fs, ts, df, dt, fmin):
    """independent float evaluation of the statement (NumPy, real code not used)"""
    T, Fc = c['T'], c['Fc']
    PATHf = table_fn(p['PATH']['rows'], p['PATH']['els'], 1)
    TPf = table_fn(p['TP']['rows'], p['TP']['els'], 1)
    FPf = table_fn(p['FP']['rows'], p['FP']['els'], 2)
    BPf = table_fn(p['BP']['rows'], p['BP']['els'], 1)
    t_ext = list(ts) + [ts[-1] + dt]
    out = np.zeros((T, Fc))
    if c['bound']:
        bmin = max(int(np.round((p['b0'] - fmin) / df)), 0)
        bmax = min(int(np.round((p['b1'] - fmin) / df)), Fc)
    else:
        bmin, bmax = 0, Fc

    def tval(i):
        if c['tform'] == 'fn':
            if c['it']:
                return np.mean([TPf(ts[i] + m * dt / c['nt']) for m in range(c['nt'])])
            return TPf(ts[i])
        return p['tp_arr'][i] if c['tform'] == 'arr' else p['tp_sc']

    def pval(r):
        if c['pform'] == 'fn':
            if c['ip']:
                return np.mean([PATHf(t_ext[r] + m * dt / c['nt']) for m in range(c['nt'])])
            return PATHf(t_ext[r])
        return p['path_arr'][r] if c['pform'] == 'arr' else p['path_sc']

    for i in range(T):
        ti = tval(i)
        if c['smear']:
            p0, p1 = pval(i), pval(i + 1)
            centres = [p0 + k * (p1 - p0) / c['ns'] for k in range(c['ns'])]
        else:
            centres = [pval(i)]
        for j in range(bmin, bmax):
            fgrid = [fs[j] + m * df / c['nf'] for m in range(c['nf'])] if c['if_'] else [fs[j]]
            vals = []
            for f in fgrid:
                if c['bform'] == 'fn':
                    b = BPf(f)
                elif c['bform'] == 'arr':
                    b = p['bp_arr'][j]
                elif c['bform'] == 'sc':
                    b = p['bp_sc']
                else:
                    b = 1.0
                vals.append(np.mean([ti * FPf(f, cc) * b for cc in centres]))
            out[i, j] = np.mean(vals)
    return out, (bmin, bmax)


def real_callables(c, p):
    PATHf = table_fn(p['PATH']['rows'], p['PATH']['els'], 1)
    TPf = table_fn(p['TP']['rows'], p['TP']['els'], 1)
    FPf = table_fn(p['FP']['rows'], p['FP']['els'], 2)
    BPf = table_fn(p['BP']['rows'], p['BP']['els'], 1)
    path = PATHf if c['pform'] == 'fn' else (np.array(p['path_arr']) if c['pform'] == 'arr' else float(p['path_sc']))
    tp = TPf if c['tform'] == 'fn' else (np.array(p['tp_arr']) if c['tform'] == 'arr' else float(p['tp_sc']))
    bp = BPf if c['bform'] == 'fn' else (np.array(p['bp_arr']) if c['bform'] == 'arr' else (float(p['bp_sc']) if c['bform'] == 'sc' else None))
    kw = dict(path=path, t_profile=tp, f_profile=FPf, bp_profile=bp, integrate_path=c['ip'], integrate_t_profile=c['it'],
              integrate_f_profile=c['if_'], doppler_smearing=c['smear'], t_subsamples=c['nt'], f_subsamples=c['nf'],
              smearing_subsamples=c['ns'])
    if c['bound']:
        kw['bounding_f_range'] = (p['b0'], p['b1'])
    return kw


def replay_add_signal(p):
    """C01/C06 concrete oracle on the real code (real NumPy, float64)."""
    import setigen as stg
    c = p['cfg']
    fr = stg.Frame(fchans=c['Fc'], tchans=c['T'], df=p['df'], dt=p['dt'], fch1=p['fch1'], ascending=c['asc'], seed=1)
    D = np.array(p['D'], dtype=float)
    fr.data = D.copy()
    _ = (fr.ts_ext, fr.t_stop)
    fr.ts = fr.ts + p.get('t_origin', 0.0)
    fs0, ts0 = fr.fs.copy(), fr.ts.copy()
    state0 = str(fr.rng.bit_generator.state)
    nm0 = (fr.noise_mean, fr.noise_std)
    meta0 = dict(fr.metadata)
    kw = real_callables(c, p)
    kw0 = {k: np.array(v, copy=True) for k, v in kw.items() if isinstance(v, np.ndarray)}
    msgs = []
    try:
        sig = fr.add_signal(**kw)
    except Exception as e:
        return True, f"add_signal raised {type(e).__name__}: {e} (cfg={c})"
    changed = [k for k, v0 in kw0.items() if not np.array_equal(kw[k], v0)]
    if changed:
        # the same description injected again (into an identical frame) must give the same array
        fr2 = stg.Frame(fchans=c['Fc'], tchans=c['T'], df=p['df'], dt=p['dt'], fch1=p['fch1'], ascending=c['asc'], seed=1)
        fr2.ts = fr2.ts + p.get('t_origin', 0.0)
        sig2 = fr2.add_signal(**kw)
        return True, (f"C01: add_signal wrote into the caller's {changed} array(s); injecting the same description again returns a "
                      f"{'different' if not np.allclose(sig2, sig, rtol=1e-9, atol=1e-12) else 'same'} array (max diff {float(np.max(np.abs(sig2 - sig)))!r})")
    spec, (bmin, bmax) = float_spec(c, p, fs0, ts0, fr.df, fr.dt, fr.fmin)
    tol = 1e-9 * max(1.0, float(np.max(np.abs(spec))), float(np.max(np.abs(D))))
    bad = False
    if sig.shape != spec.shape:
        return True, f"returned shape {sig.shape} != frame shape {spec.shape}"
    if not np.allclose(sig, spec, rtol=1e-9, atol=tol):
        ij = np.unravel_index(np.argmax(np.abs(sig - spec)), sig.shape)
        msgs.append(f"C01: returned[{ij}]={sig[ij]!r} but t*f*bp specification gives {spec[ij]!r}")
        bad = True
    if not np.allclose(fr.data, D + sig, rtol=1e-12, atol=tol):
        msgs.append("C06: data_after != data_before + returned")
        bad = True
    outside = [j for j in range(c['Fc']) if not (bmin <= j < bmax)]
    for j in outside:
        if not np.array_equal(fr.data[:, j], D[:, j]) or np.any(sig[:, j] != 0):
            msgs.append(f"C06: column {j} outside the bounding index range [{bmin},{bmax}) was modified")
            bad = True
            break
    if not (np.array_equal(fr.fs, fs0) and np.array_equal(fr.ts, ts0)):
        msgs.append("C06: frame axes changed")
        bad = True
    if str(fr.rng.bit_generator.state) != state0 or (fr.noise_mean, fr.noise_std) != nm0 or dict(fr.metadata) != meta0:
        msgs.append("C06: rng / noise estimates / metadata changed")
        bad = True
    return bad, '; '.join(msgs) or f"add_signal agrees with the specification (cfg={c})"
