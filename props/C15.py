"""C15 -- array antennas see the shared background delayed by their configured delays.

E1: the real MultiAntennaArray.__init__/get_samples/set_time/add_time/reset_start with symbolic
non-negative integer delays (forked over their values and over the slice bounds they induce),
own-stream and background samples as Z(seed, k) + chirp(t) terms.
"""
import itertools
import time

import numpy as np
import z3

from symx import core, npx
from symx.core import Sym, SymC, lift, RV, UF
from symx.report import Check, q, cex, note
from props.volt_common import DS, A, volt_patches, cparts, diff_terms
from props.C08 import compositions
from props.C10 import GenStub, proxy, ZF, TWO_PI, decide


def comps_min(n, m):
    return [c for c in compositions(n) if min(c) >= m]


def job_array(num_ant, num_pols, dmax, comp, mode, reset_after):
    """mode: 'sym' symbolic delays in 0..dmax, 'none' delays omitted.
    reset_after: index of the request before which set_time is called (or None)"""
    recs = []
    tag = f"C15:{(num_ant, num_pols, dmax, comp, mode, reset_after)}"
    t0, sr, fch1, f0, lvl, tset = (Sym(z3.Real(n)) for n in ('t0', 'sr', 'fch1', 'f_start', 'level', 't_set'))
    pre = [sr.t > 0]
    dt = 1 / sr.t
    if mode == 'sym':
        dints = [z3.Int(f'd{i}') for i in range(num_ant)]
        delays = [Sym(z3.ToReal(d), True) for d in dints]
        pre += [z3.And(d >= 0, d <= dmax) for d in dints]
    else:
        dints, delays = [], None

    def run():
        arr = A.MultiAntennaArray(num_antennas=num_ant, sample_rate=sr, fch1=fch1, ascending=True, num_pols=num_pols,
                                  delays=delays, t_start=t0, seed=5)
        for ant in arr.antennas:
            for st in ant.streams:
                st.add_noise(0, 1)
        for bg in arr.bg_streams:
            bg.add_noise(0, 1)
            bg.add_constant_signal(f0, 0, lvl)
        outs = []
        clocks = []
        for ri, n in enumerate(comp):
            if reset_after is not None and ri == reset_after:
                if reset_after == len(comp):
                    pass
                arr.set_time(tset)
            outs.append(arr.get_samples(n))
            clocks.append(arr.t_start)
        seeds = dict(own=[[st.rng.seed for st in ant.streams] for ant in arr.antennas], bg=[bg.rng.seed for bg in arr.bg_streams])
        return outs, seeds, (arr, clocks)
    with volt_patches(proxy=proxy()):
        leaves = core.explore(run, pre, cap=3000)
    conds = []
    for li, leaf in enumerate(leaves):
        conds.append(leaf.cond())
        base = pre + leaf.pc + leaf.side
        name = f"{tag}:leaf{li}"
        if leaf.kind == 'exc':
            r, m = core.check(base, timeout_ms=30000)
            recs.append(q(name + ':noexc', r, detail=repr(leaf.value)))
            if r == 'sat':
                dv = [int(str(m.eval(d, model_completion=True))) for d in dints] if dints else None
                recs.append(cex(f"C15:raise:{type(leaf.value).__name__}:{mode}", f"array construction / get_samples raised {leaf.value!r}",
                                dict(fn='array', num_ant=num_ant, num_pols=num_pols, delays=dv, comp=list(comp), reset_after=reset_after), name=name + ':noexc'))
            continue
        outs, seeds, (arr, clocks) = leaf.value
        dterms = [d.t for d in delays] if delays is not None else [RV(0)] * num_ant
        mx = dterms[0]
        for d in dterms[1:]:
            mx = z3.If(d > mx, d, mx)

        def bg_sample(pol, draw, t):
            ph = RV(TWO_PI) * ((f0.t - fch1.t) * t)
            return ZF(seeds['bg'][pol], draw) + lvl.t * UF('COS')(ph + RV(0))
        pairs = []
        own_k = 0            # own-stream draw / sample counter
        bg_k = RV(0)         # background draws consumed before the current observation segment
        seg_t0 = t0.t        # start time of the current observation segment
        seg_own0 = 0
        shape_ok = True
        for ri, (n, out) in enumerate(zip(comp, outs)):
            if reset_after is not None and ri == reset_after:
                # a new observation: background over-read by max_delay again; draws continue
                bg_k = bg_k + RV(own_k - seg_own0) + mx if own_k > seg_own0 else bg_k
                seg_t0 = tset.t
                seg_own0 = own_k
            if out.shape != (num_ant, num_pols, n):
                shape_ok = False
                break
            for j in range(n):
                kk = own_k - seg_own0 + j           # global sample index within the observation segment
                for i in range(num_ant):
                    for pol in range(num_pols):
                        own = ZF(seeds['own'][i][pol], RV(own_k + j))
                        idx = RV(kk) + mx - dterms[i]
                        g = bg_sample(pol, bg_k + idx, seg_t0 + idx * dt)
                        pairs.append((cparts(out[i, pol, j]), (own + g, RV(0))))
            own_k += n
            pairs.append(((lift(clocks[ri]), RV(0)), (seg_t0 + RV(own_k - seg_own0) * dt, RV(0))))
        if not shape_ok:
            recs.append(q(name + ':shape', 'sat'))
            continue
        dis = diff_terms(pairs)
        t1 = time.time()
        r, m = core.check(base + [z3.Or(*dis)] if dis else [z3.BoolVal(False)], timeout_ms=120000)
        recs.append(q(name, r, ms=(time.time() - t1) * 1000, terms=len(dis)))
        if r == 'sat':
            dv = [int(str(m.eval(d, model_completion=True))) for d in dints] if dints else None
            recs.append(cex(f"C15:alignment:{mode}:{'reset' if reset_after is not None else 'plain'}", 'antenna voltage is not own sample k + background sample k + max_delay - delay_i',
                            dict(fn='array', num_ant=num_ant, num_pols=num_pols, delays=dv, comp=list(comp), reset_after=reset_after), name=name))
    r, _ = core.check(pre + [z3.Not(z3.Or(*conds))] if conds else pre, timeout_ms=60000)
    recs.append(q(f"{tag}:split-complete", r, leaves=len(leaves)))
    return recs


def job_twin():
    """vacuity: with delays (0, 1) the two antennas do NOT see the same background sample"""
    recs = []
    with volt_patches(proxy=proxy()):
        arr = A.MultiAntennaArray(num_antennas=2, sample_rate=Sym(z3.Real('sr')), fch1=0.0, num_pols=1, delays=[0, 1], t_start=0.0, seed=5)
        arr.bg_x.add_noise(0, 1)
        out = core.run_single(lambda: arr.get_samples(3), [z3.Real('sr') > 0]).value
    r, _ = core.check([z3.Real('sr') > 0, lift(out[0, 0, 0]) != lift(out[1, 0, 0])])
    recs.append(q("C15:twin", r, expect='sat'))
    return recs


# ------------------------------------------------------------------ concrete oracle
def replay_array(p):
    from setigen.voltage import antenna as an, data_stream as ds
    na, npol, delays, comp, ra = p['num_ant'], p['num_pols'], p['delays'], p['comp'], p['reset_after']
    sr, t0 = 1000.0, 0.25

    def build():
        arr = an.MultiAntennaArray(num_antennas=na, sample_rate=sr, fch1=100.0, ascending=True, num_pols=npol, delays=delays, t_start=t0, seed=5)
        for ant in arr.antennas:
            for st in ant.streams:
                st.add_noise(0, 1)
        for bg in arr.bg_streams:
            bg.add_noise(0, 1)
            bg.add_constant_signal(170.0, 0, 0.7)
        return arr
    try:
        arr = build()
    except Exception as e:
        return True, f"MultiAntennaArray(delays={delays}) raised {type(e).__name__}: {e}"
    dl = list(delays) if delays is not None else [0] * na
    mx = max(dl)
    # reference: same-seed twin array whose streams are read directly, one long request per observation segment
    ref = build()
    msgs = []
    segs = [list(comp)] if ra is None else [list(comp[:ra]), list(comp[ra:])]
    tstart = t0
    for si, seg in enumerate(segs):
        if not seg:
            continue
        if si == 1:
            arr.set_time(5.0)
            for bg in ref.bg_streams:
                bg.set_time(5.0)
            for ant in ref.antennas:
                for st in ant.streams:
                    st.set_time(5.0)
        n_seg = sum(seg)
        try:
            got = np.concatenate([arr.get_samples(n) for n in seg], axis=2)
        except Exception as e:
            return True, f"get_samples raised {type(e).__name__}: {e}"
        bgv = [np.array(bg.get_samples(n_seg + mx)) for bg in ref.bg_streams]
        for i, ant in enumerate(ref.antennas):
            for pol, st in enumerate(ant.streams):
                own = np.array(st.get_samples(n_seg))
                want = own + bgv[pol][mx - dl[i]: mx - dl[i] + n_seg]
                seg_start = t0 if si == 0 else 5.0
                if abs(arr.t_start - (seg_start + n_seg / sr)) > 1e-9 and not any('array clock' in m_ for m_ in msgs):
                    msgs.append(f"array clock {arr.t_start!r} after {n_seg} samples from t={seg_start} (expected {seg_start + n_seg / sr!r})")
                if not np.allclose(got[i, pol], want, rtol=1e-9, atol=1e-9):
                    k = int(np.argmax(np.abs(got[i, pol] - want)))
                    msgs.append(f"segment {si} antenna {i} pol {pol}: sample {k} = {got[i, pol, k]!r}, own + background[k+max-delay] = {want[k]!r}")
    # the twin shares the constructor with the array under test; absolute times are checked against a closed form:
    # sources whose value is a multiple of their own time stamp (own: 3 t, background: 1000 t)
    try:
        det = an.MultiAntennaArray(num_antennas=na, sample_rate=sr, fch1=100.0, ascending=True, num_pols=npol, delays=delays, t_start=t0, seed=5)
        for ant in det.antennas:
            for st in ant.streams:
                st.add_signal(lambda ts: np.asarray(ts) * 3.0)
        for bg in det.bg_streams:
            bg.add_signal(lambda ts: np.asarray(ts) * 1000.0)
        n0 = sum(segs[0]) if segs[0] else 3
        out = np.concatenate([det.get_samples(n) for n in (segs[0] or [3])], axis=2)
        exp = np.array([[[3.0 * (t0 + k / sr) + 1000.0 * (t0 + (k + mx - dl[i]) / sr) for k in range(n0)] for _ in range(npol)] for i in range(na)])
        if out.shape != exp.shape or not np.allclose(out, exp, rtol=1e-9, atol=1e-9):
            msgs.append(f"first observation from t_start={t0}: antenna 0 gets {out[0, 0, :2].tolist()}, own(t) + background(t + (max_delay - delay)/rate) is {exp[0, 0, :2].tolist()}")
    except Exception as e:
        msgs.append(f"deterministic array raised {type(e).__name__}: {e}")
    return bool(msgs), '; '.join(msgs[:3]) or 'array output agrees with own + delayed background'


def job_resync(num_pols, op, start_flag):
    """one clock operation on an array from an ARBITRARY pre-state (as after a request that failed part-way: background
    streams advanced, some antenna streams advanced, caches filled, start flag in either state): afterwards all clocks
    are at the requested instant, the carried-over background is gone and the next request is aligned from there"""
    recs = []
    tag = f"C15:resync:{(num_pols, op, start_flag)}"
    delays = [0, 2]
    t0, sr, fch1, f0, lvl, tarr, g = (Sym(z3.Real(n)) for n in ('t0', 'sr', 'fch1', 'f_start', 'level', 't_arr', 'gap'))
    pre = [sr.t > 0]
    dt = 1 / sr.t
    n = 4
    want = g.t if op == 'set_time' else (tarr.t + g.t if op == 'add_time' else tarr.t)

    def run():
        arr = A.MultiAntennaArray(num_antennas=2, sample_rate=sr, fch1=fch1, ascending=True, num_pols=num_pols, delays=delays, t_start=t0, seed=5)
        for ai, ant in enumerate(arr.antennas):
            for st in ant.streams:
                st.add_constant_signal(f0, 0, lvl)
        for bg in arr.bg_streams:
            bg.add_constant_signal(f0 * 2, 0, lvl)
        arr.get_samples(3)
        # arbitrary pre-state
        arr.t_start, arr.start_obs = tarr, start_flag
        k = 0
        for bg in arr.bg_streams:
            bg.t_start, bg.start_obs = Sym(z3.Real(f'tb{k}')), False
            k += 1
        for ant in arr.antennas:
            ant.t_start = Sym(z3.Real(f'ta{k}'))
            ant.bg_cache = [npx.sarr([Sym(z3.Real(f'junk{k}_{i}')) for i in range(ant.delay)]) for _ in range(2)]
            for st in ant.streams:
                st.t_start, st.start_obs = Sym(z3.Real(f'ts{k}')), False
                k += 1
        if op == 'set_time':
            arr.set_time(g)
        elif op == 'add_time':
            arr.add_time(g)
        else:
            arr.reset_start()
        clocks = [arr.t_start] + [bg.t_start for bg in arr.bg_streams] + [ant.t_start for ant in arr.antennas] + [st.t_start for ant in arr.antennas for st in ant.streams]
        return clocks, arr.get_samples(n)
    # (the code may branch on the requested instant -- e.g. treat 0 specially: every branch is a path of its own)
    with volt_patches(proxy=proxy()):
        leaves = core.explore(run, pre, cap=16)
    mx = max(delays)
    two_pi = RV(TWO_PI)
    pl = dict(fn='resync', num_pols=num_pols, op=op, start_flag=start_flag)
    conds = []
    for li, leaf in enumerate(leaves):
        conds.append(leaf.cond())
        base = pre + leaf.pc + leaf.side
        name = tag + (f":leaf{li}" if len(leaves) > 1 else '')
        if leaf.kind == 'exc':
            r, m = core.check(base, timeout_ms=30000)
            recs.append(q(name + ':noexc', r, detail=repr(leaf.value)))
            if r == 'sat':
                recs.append(cex('C15:resync:raise', f'{op} raised {leaf.value!r}', dict(pl, vals=core.model_vals(m, ['gap', 't_arr'])), name=name + ':noexc'))
            continue
        clocks, out = leaf.value
        pairs = [((lift(c), RV(0)), (want, RV(0))) for c in clocks]
        for i in range(2):
            for pol in range(num_pols):
                for j in range(n):
                    own = lvl.t * UF('COS')(two_pi * ((f0.t - fch1.t) * (want + RV(j) * dt)) + RV(0))
                    tb = want + RV(j + mx - delays[i]) * dt
                    bgv = lvl.t * UF('COS')(two_pi * ((2 * f0.t - fch1.t) * tb) + RV(0))
                    pairs.append((cparts(out[i, pol, j]), (own + bgv, RV(0))))
        dis = diff_terms(pairs)
        r, m = core.check(base + [z3.Or(*dis)] if dis else [z3.BoolVal(False)], timeout_ms=120000)
        recs.append(q(name, r, terms=len(dis)))
        if r == 'sat':
            recs.append(cex('C15:resync', f"after {op} on an array whose stream clocks / caches had diverged (start flag {start_flag}), the next request is not aligned at the requested instant",
                            dict(pl, vals=core.model_vals(m, ['gap', 't_arr'])), name=name))
    if len(leaves) > 1:
        r, _ = core.check(pre + [z3.Not(z3.Or(*conds))], timeout_ms=30000)
        recs.append(q(tag + ':split-complete', r, leaves=len(leaves)))
    return recs


def job_update_noise_mid(num_pols, which):
    """a noise re-estimate on a background (or antenna) stream in the middle of an observation draws and rewinds on that
    stream only: the next request continues the observation, aligned as before"""
    recs = []
    tag = f"C15:update-noise-mid:{(num_pols, which)}"
    delays = [0, 2]
    t0, sr, fch1, f0, lvl = (Sym(z3.Real(n)) for n in ('t0', 'sr', 'fch1', 'f_start', 'level'))
    pre = [sr.t > 0]
    dt = 1 / sr.t
    n1, n = 3, 4
    with volt_patches(proxy=proxy()):
        arr = A.MultiAntennaArray(num_antennas=2, sample_rate=sr, fch1=fch1, ascending=True, num_pols=num_pols, delays=delays, t_start=t0, seed=5)
        for ant in arr.antennas:
            for st in ant.streams:
                st.add_constant_signal(f0, 0, lvl)
        for bg in arr.bg_streams:
            bg.add_constant_signal(f0 * 2, 0, lvl)
        arr.get_samples(n1)
        for st in (arr.bg_streams if which == 'background' else arr.antennas[1].streams):
            st.update_noise(stats_calc_num_samples=2)
        out = arr.get_samples(n)
        clock = arr.t_start
    mx = max(delays)
    two_pi = RV(TWO_PI)
    pairs = [((lift(clock), RV(0)), (t0.t + RV(n1 + n) * dt, RV(0)))]
    for i in range(2):
        for pol in range(num_pols):
            for j in range(n):
                own = lvl.t * UF('COS')(two_pi * ((f0.t - fch1.t) * (t0.t + RV(n1 + j) * dt)) + RV(0))
                bgv = lvl.t * UF('COS')(two_pi * ((2 * f0.t - fch1.t) * (t0.t + RV(n1 + j + mx - delays[i]) * dt)) + RV(0))
                pairs.append((cparts(out[i, pol, j]), (own + bgv, RV(0))))
    pl = dict(fn='update_noise_mid', num_pols=num_pols, which=which)
    dis = diff_terms(pairs)
    r, m = core.check(pre + [z3.Or(*dis)] if dis else [z3.BoolVal(False)], timeout_ms=120000)
    recs.append(q(tag, r, terms=len(dis)))
    if r == 'sat':
        recs.append(cex('C15:update-noise-mid', f"after update_noise on the {which} streams in mid-observation the next request is not the continuation of the observation", pl, name=tag))
    return recs


def job_complex_background(num_pols):
    """complex-valued sources on the antenna streams AND on the shared background: in every request (the first of an
    observation and the later ones, which are assembled from the carried-over tail) real and imaginary part are aligned
    as own k + background k + max_delay - delay_i"""
    from props.C10 import custom_complex, CUR, CUI
    recs = []
    tag = f"C15:complex-background:{num_pols}"
    delays = [0, 2]
    t0, sr, fch1 = (Sym(z3.Real(n)) for n in ('t0', 'sr', 'fch1'))
    pre = [sr.t > 0]
    dt = 1 / sr.t
    n1, n2 = 3, 4
    with volt_patches(proxy=proxy()):
        arr = A.MultiAntennaArray(num_antennas=2, sample_rate=sr, fch1=fch1, ascending=True, num_pols=num_pols, delays=delays, t_start=t0, seed=5)
        for ant in arr.antennas:
            for st in ant.streams:
                st.add_signal(custom_complex)
        for bg in arr.bg_streams:
            bg.add_signal(lambda ts: custom_complex(ts) * 3)
        o1 = arr.get_samples(n1)
        o2 = arr.get_samples(n2)
    mx = max(delays)
    pairs = []
    for out, base, n in ((o1, 0, n1), (o2, n1, n2)):
        for i in range(2):
            for pol in range(num_pols):
                for j in range(n):
                    to = t0.t + RV(base + j) * dt
                    tb = t0.t + RV(base + j + mx - delays[i]) * dt
                    pairs.append((cparts(out[i, pol, j]), (CUR(to) + 3 * CUR(tb), CUI(to) + 3 * CUI(tb))))
    dis = diff_terms(pairs)
    r, m = core.check(pre + [z3.Or(*dis)] if dis else [z3.BoolVal(False)], timeout_ms=120000)
    recs.append(q(tag, r, terms=len(dis)))
    if r == 'sat':
        recs.append(cex('C15:complex-background', 'with complex-valued sources the array output is not own + delayed background in both parts', dict(fn='complex_background', num_pols=num_pols), name=tag))
    return recs


def replay_complex_background(p):
    from setigen.voltage import antenna as an
    import warnings
    delays = [0, 2, 5]
    sr, t0 = 1000.0, 1.25
    with warnings.catch_warnings():
        warnings.simplefilter('ignore')
        arr = an.MultiAntennaArray(num_antennas=3, sample_rate=sr, fch1=0.0, ascending=True, num_pols=p['num_pols'], delays=delays, t_start=t0, seed=1)
        for ant in arr.antennas:
            for st in ant.streams:
                st.add_signal(lambda ts: np.asarray(ts) * (3.0 + 1.0j))
        for bg in arr.bg_streams:
            bg.add_signal(lambda ts: np.asarray(ts) * (1000.0 + 50.0j))
        outs = [arr.get_samples(7), arr.get_samples(6)]
    mx = max(delays)
    for out, base, n in ((outs[0], 0, 7), (outs[1], 7, 6)):
        exp = np.array([[[(3.0 + 1.0j) * (t0 + (base + j) / sr) + (1000.0 + 50.0j) * (t0 + (base + j + mx - delays[i]) / sr) for j in range(n)] for _ in range(p['num_pols'])] for i in range(3)])
        if out.shape != exp.shape or not np.allclose(out, exp, rtol=1e-9, atol=1e-9):
            return True, f"request starting at sample {base}: antenna 0 gets {out[0, 0, 0]!r}, own + delayed background is {exp[0, 0, 0]!r}"
    return False, 'complex sources stay aligned in both parts'


def replay_update_noise_mid(p):
    from setigen.voltage import antenna as an
    delays = [0, 2, 5]
    sr, t0 = 1000.0, 1.25
    arr = an.MultiAntennaArray(num_antennas=3, sample_rate=sr, fch1=0.0, ascending=True, num_pols=p['num_pols'], delays=delays, t_start=t0, seed=1)
    for ant in arr.antennas:
        for st in ant.streams:
            st.add_signal(lambda ts: np.asarray(ts) * 3.0)
    for bg in arr.bg_streams:
        bg.add_signal(lambda ts: np.asarray(ts) * 1000.0)
    arr.get_samples(7)
    for st in (arr.bg_streams if p['which'] == 'background' else arr.antennas[1].streams):
        st.update_noise(stats_calc_num_samples=4)
    out = arr.get_samples(6)
    mx = max(delays)
    exp = np.array([[[3.0 * (t0 + (7 + j) / sr) + 1000.0 * (t0 + (7 + j + mx - delays[i]) / sr) for j in range(6)] for _ in range(p['num_pols'])] for i in range(3)])
    bad = out.shape != exp.shape or not np.allclose(out, exp, rtol=1e-9, atol=1e-9)
    return bad, f"update_noise on the {p['which']} streams after 7 samples: the next request gives {out[:, 0, 0].tolist()}, the continuation is {exp[:, 0, 0].tolist()}"


def replay_resync(p):
    bad, msg = _replay_resync(p, None)
    v = p.get('vals') or {}
    # the requested instant the solver used, and the boundary value 0 (a rewind to the very beginning)
    for tv in (v.get('gap'), 0.0):
        if not bad and tv is not None and abs(tv) < 1e6 and p['op'] == 'set_time':
            bad, msg = _replay_resync(p, float(tv))
    return bad, msg


def _replay_resync(p, t_req):
    from setigen.voltage import antenna as an
    delays = [0, 2]
    arr = an.MultiAntennaArray(num_antennas=2, sample_rate=1000.0, fch1=0.0, ascending=True, num_pols=p['num_pols'], delays=delays, t_start=1.0, seed=1)
    for ant in arr.antennas:
        for st in ant.streams:
            st.add_signal(lambda ts: np.asarray(ts) * 3.0)
    for bg in arr.bg_streams:
        bg.add_signal(lambda ts: np.asarray(ts) * 1000.0)
    arr.get_samples(3)
    arr.t_start, arr.start_obs = 5.0, p['start_flag']
    for k, bg in enumerate(arr.bg_streams):
        bg.t_start, bg.start_obs = 7.0 + k, False
    for a, ant in enumerate(arr.antennas):
        ant.t_start = 8.0 + a
        ant.bg_cache = [np.full(ant.delay, 1e9), np.full(ant.delay, 1e9)]
        for st in ant.streams:
            st.t_start, st.start_obs = 9.5 + a, False
    if p['op'] == 'set_time':
        want = 20.0 if t_req is None else t_req
        arr.set_time(want)
    elif p['op'] == 'add_time':
        arr.add_time(0.5)
        want = 5.5
    else:
        arr.reset_start()
        want = 5.0
    out = arr.get_samples(4)
    exp = np.array([[[3.0 * (want + j / 1000.0) + 1000.0 * (want + (j + 2 - delays[i]) / 1000.0) for j in range(4)] for _ in range(p['num_pols'])] for i in range(2)])
    bad = out.shape != exp.shape or not np.allclose(out, exp, rtol=1e-9, atol=1e-9)
    return bad, f"{p['op']} (start flag {p['start_flag']}) from diverged clocks: next request gives {out[:, 0, :2].tolist()}, aligned from t={want} it would be {exp[:, 0, :2].tolist()}"


REPLAYS = {'array': replay_array, 'resync': replay_resync, 'update_noise_mid': replay_update_noise_mid, 'complex_background': replay_complex_background}


def main():
    ck = Check('C15', 'Array antennas see the shared background delayed by their configured delays')
    ck.functions = ['MultiAntennaArray.__init__', 'MultiAntennaArray.get_samples', 'MultiAntennaArray.set_time', 'MultiAntennaArray.add_time',
                    'MultiAntennaArray.reset_start', 'Antenna.__init__', 'Antenna.set_time', 'DataStream.get_samples', 'DataStream._update_t', 'BackgroundDataStream.add_noise']
    ck.files = ['setigen/voltage/antenna.py', 'setigen/voltage/data_stream.py']
    ck.stubs = ['numpy Generator -> Z(seed, k)', 'cos -> uninterpreted']
    ck.assumptions = ['delays are symbolic integers in 0..dmax (every vector incl. all-zero, unsorted, repeated); request sizes > dmax', 'exact-real clock']
    jobs = [('job_twin', ())]
    for npol_ in (1, 2):
        for op_ in ('set_time', 'add_time', 'reset_start'):
            for flag_ in (True, False):
                jobs.append(('job_resync', (npol_, op_, flag_)))
        for which_ in ('background', 'antenna'):
            jobs.append(('job_update_noise_mid', (npol_, which_)))
        jobs.append(('job_complex_background', (npol_,)))
    if ck.thorough:
        space = [(1, 1, 2), (2, 1, 2), (2, 2, 2), (3, 1, 2), (3, 2, 1), (2, 1, 3)]
        N = 8
    else:
        space = [(1, 1, 2), (2, 2, 2), (3, 1, 1)]
        N = 7
    ck.bounds = dict(antennas_pols_dmax=space, samples_total=N, compositions='all with every request > dmax', reset='set_time before each request index')
    for (na, npol, dmax) in space:
        cs = comps_min(N, dmax + 1)
        if not ck.thorough:
            cs = cs[:6]
        for comp in cs:
            jobs.append(('job_array', (na, npol, dmax, comp, 'sym', None)))
            if len(comp) >= 2:
                jobs.append(('job_array', (na, npol, dmax, comp, 'sym', 1)))
        jobs.append(('job_array', (na, npol, 0, (3, 2), 'none', None)))
        jobs.append(('job_array', (na, npol, 0, (2, 2), 'none', 1)))
    ck.run_jobs('props.C15', jobs, timeout_s=1200)
    ck.finish()


if __name__ == '__main__':
    main()
