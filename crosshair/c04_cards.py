"""CrossHair contracts for the GUPPI RAW header cards (C04).  Run by props/C04.py:
   crosshair check --report_all --per_condition_timeout N crosshair/c04_cards.py
"Confirmed over all paths" is the only success; every contract has a reachability twin (post must be refuted)."""
import os
import sys
import warnings
warnings.filterwarnings('ignore')
sys.path.insert(0, os.environ.get('SETIGEN_REPO', '/repo'))
from setigen.voltage.raw_utils import format_header_line, get_header_key_val

KEYS = ['A', 'NB', 'TB1', 'NPOL', 'OBSBW', 'PKTIDX', 'OBSFREQ', 'BLOCSIZE']
STRS = ['A', 'GBT', 'SETIGEN', 'SYNTHETI']


def int_card(k: int, value: int) -> str:
    """
    pre: 0 <= k < 8
    pre: -10**17 < value < 10**19
    post: len(_) == 80
    post: get_header_key_val(_) == (KEYS[k], str(value))
    post: _[8:10] == '= ' and _[30:] == ' ' * 50
    """
    return format_header_line(KEYS[k], value)


def int_card_twin(k: int, value: int) -> str:
    """
    pre: 0 <= k < 8
    pre: -10**17 < value < 10**19
    post: len(_) != 80
    """
    return format_header_line(KEYS[k], value)


def str_card(k: int, s: int) -> str:
    """
    pre: 0 <= k < 8 and 0 <= s < 4
    post: len(_) == 80
    post: get_header_key_val(_)[0] == KEYS[k]
    post: get_header_key_val(_)[1].strip() == STRS[s]
    post: _[10] == chr(39)
    """
    return format_header_line(KEYS[k], STRS[s])
