import warnings; warnings.filterwarnings('ignore')
import time, numpy as np, z3
import setigen as stg
from setigen import frame as F

class Sym:
    __array_priority__ = 1000
    def __init__(s, t): s.t = t
    @staticmethod
    def lift(x):
        if isinstance(x, Sym): return x.t
        if isinstance(x, (bool, np.bool_)): return z3.RealVal(int(x))
        if isinstance(x, (int, np.integer)): return z3.RealVal(int(x))
        if isinstance(x, (float, np.floating)):
            from fractions import Fraction
            fr = Fraction(float(x)); return z3.RealVal(f"{fr.numerator}/{fr.denominator}")
        raise TypeError(type(x))
    def __add__(s,o): return Sym(s.t + Sym.lift(o))
    __radd__ = lambda s,o: Sym(Sym.lift(o) + s.t)
    def __sub__(s,o): return Sym(s.t - Sym.lift(o))
    def __rsub__(s,o): return Sym(Sym.lift(o) - s.t)
    def __mul__(s,o): return Sym(s.t * Sym.lift(o))
    __rmul__ = lambda s,o: Sym(Sym.lift(o) * s.t)
    def __truediv__(s,o): return Sym(s.t / Sym.lift(o))
    def __rtruediv__(s,o): return Sym(Sym.lift(o) / s.t)
    def __neg__(s): return Sym(-s.t)
    def __repr__(s): return f"Sym({s.t})"

# uninterpreted components
R = z3.RealSort()
Pth = z3.Function('path', R, R); Tp = z3.Function('tprof', R, R); Fp = z3.Function('fprof', R, R, R); Bp = z3.Function('bp', R, R)
def vec(fn): return np.frompyfunc(lambda *a: Sym(fn(*[Sym.lift(x) for x in a])), fn.arity(), 1)
path = lambda ts: vec(Pth)(ts)
tprof = lambda ts: vec(Tp)(ts)
fprof = lambda ff, cc: vec(Fp)(ff, cc)
bp = lambda fs: vec(Bp)(fs)

fr = stg.Frame(fchans=6, tchans=4, df=2.0, dt=3.0, fch1=1000.0, ascending=False)
t0 = time.time()
try:
    sig = fr.add_signal(path, tprof, fprof, bp)
    print(type(sig), sig.dtype, sig.shape, sig[1,2])
except Exception as e:
    import traceback; traceback.print_exc()
print(time.time()-t0)
