import z3, time, sys
F64 = z3.Float64(); RNE = z3.RNE()
def fp(v): return z3.FPVal(v, F64)
fmin = z3.FP('fmin', F64); df = z3.FP('df', F64)
ib = z3.BitVec('i', 32)
i = z3.fpSignedToFP(RNE, ib, F64)
s = z3.Solver(); s.set('timeout', int(sys.argv[1])*1000)
s.add(z3.fpGEQ(fmin, fp(1e6)), z3.fpLEQ(fmin, fp(1e11)))
s.add(z3.fpGEQ(df, fp(0.5)), z3.fpLEQ(df, fp(1e6)))
s.add(ib >= 0, ib < 2**20)
f = z3.fpAdd(RNE, fmin, z3.fpMul(RNE, df, i))           # get_frequency
q = z3.fpDiv(RNE, z3.fpSub(RNE, f, fmin), df)           # (f - fmin)/df
r = z3.fpRoundToIntegral(RNE, q)                         # np.round = half-even
s.add(z3.Not(z3.fpEQ(r, i)))
t=time.time(); print(s.check(), time.time()-t)
if s.check()==z3.sat: print(s.model())
