import warnings; warnings.filterwarnings('ignore')
import time, types, numpy as np, z3
from symlib import *
import setigen as stg
from setigen.voltage import backend as B, polyphase_filterbank as PF, quantization as Q, antenna as A

R=z3.RealSort(); I=z3.IntSort()
S = z3.Function('s', I, I, R)       # sample(pol, k)
Qd= z3.Function('Qd', R, R); Qr=z3.Function('Qr', R, R); Qi=z3.Function('Qi', R, R)
uf = lambda f: np.frompyfunc(lambda x: Sym(f(lift(x))), 1, 1)

class FakeAntenna(A.Antenna):
    def __init__(s, num_pols, sr):
        s.sample_rate=sr; s.num_pols=num_pols; s.fch1=0.; s.ascending=True; s.start_obs=True; s.k=0; s.reqs=[]
    def reset_start(s): s.start_obs=True
    def get_samples(s, n):
        s.reqs.append(n)
        out = np.empty((1, s.num_pols, n), dtype=object)
        for p in range(s.num_pols):
            for j in range(n): out[0,p,j]=Sym(S(p, s.k+j))
        s.k += n; s.start_obs=False; return out
class UQ(Q.RealQuantizer):
    def __init__(s, f): super().__init__(); s.f=f
    def quantize(s, v, custom_std=None): return uf(s.f)(v)
class UCQ(Q.ComplexQuantizer):
    def quantize(s, v, custom_stds=None):
        out = np.empty(v.shape, dtype=object)
        for idx in np.ndindex(v.shape): out[idx] = SymC(Sym(Qr(v[idx].re.t)), Sym(Qi(v[idx].im.t)))
        return out

class XP:
    def __getattr__(s,k): return getattr(np,k)
    def zeros(s, shape, dtype=None): return oarr(np.zeros(shape))
    def empty(s, shape, dtype=None): return np.empty(shape, dtype=object)
    def real(s, a): return np.frompyfunc(lambda e: e.real,1,1)(a)
    def imag(s, a): return np.frompyfunc(lambda e: e.imag,1,1)(a)
    class fft:
        fft = staticmethod(sym_fft)
xp = XP()

P, taps = 4, 2
def run(nsb, num_pols=2, nblocks=2, T=8, start_chan=0, num_chans=2):
    for m in (B, PF, Q): m.xp = xp
    B.np = xp
    ant = FakeAntenna(num_pols, 4.0)
    fb = PF.PolyphaseFilterbank(num_taps=taps, num_branches=P)
    be = B.RawVoltageBackend(ant, UQ(Qd), fb, UCQ(), start_chan=start_chan, num_chans=num_chans,
                             block_size=T*num_chans*2*num_pols, blocks_per_file=2, num_subblocks=nsb)
    ant.reset_start(); blocks=[]
    for b in range(nblocks):
        blocks.append(be.collect_data_block(digitize=True, requantize=True, verbose=False))
    return be, ant, blocks
t0=time.time()
be, ant, blocks = run(nsb=3)
print('exec', time.time()-t0, 'requests', ant.reqs, 'nsb', be.num_subblocks, blocks[0].shape)
# spec
win = PF.get_pfb_window(taps, P)
def spec(p, n, k):   # spectrum n, channel k, pol p
    re = 0; im = 0
    M = dft_matrix(P)
    acc_re = z3.RealVal(0); acc_im = z3.RealVal(0)
    for b in range(P):
        fir = z3.RealVal(0)
        for t in range(taps):
            fir = fir + lift(win[t*P+b]) * Qd(S(p, (n+t)*P + b))
        c = M[k][b]; acc_re = acc_re + fir*c[0]; acc_im = acc_im + fir*c[1]
    sc = lift(P**0.5)
    return Qr(acc_re/sc), Qi(acc_im/sc)
T=8; viol=[]
for bi, blk in enumerate(blocks):
    for c in range(2):
        for t in range(T):
            for p in range(2):
                re, im = spec(p, bi*T + t, c)
                base = (t*2 + p)*2
                viol.append(lift(blk[c, base]) != re); viol.append(lift(blk[c, base+1]) != im)
s=z3.Solver(); s.add(z3.Or(viol)); t0=time.time(); print(s.check(), time.time()-t0, len(viol))
