cnt=0; ex=None
for sr,P in [(3e9,1024),(3e9,8),(1e9,64),(2.4e9,512),(187.5e6,256)]:
    tbin=P/sr
    for spb in [4,8,64,1024,4096,524288]:
        tpb=spb*tbin
        for n in range(1,200):
            obs=n*tpb
            tot=int(obs/tbin)
            if tot!=n*spb:
                cnt+=1; ex=ex or (sr,P,spb,n,tot,n*spb)
print(cnt, ex)
# params_from_backend / get_num_blocks style truncation
import math
bad=0
for sr,P in [(3e9,1024)]:
    for nb in range(1,100):
        chan_bw=sr/P; bs=134217728; 
        tpb = (bs//(64*4))*(P/sr)
        n=int(nb*tpb*abs(chan_bw)*1*64*4/bs)
        if n!=nb: bad+=1
print('get_num_blocks exact-multiple mismatches', bad)
