import warnings; warnings.filterwarnings('ignore')
import numpy as np, setigen as stg
f0=3404721318292094975/3377699720527872; w=6755399441055743/6755399441055744; lv=4/19; dr=-6004799503160661/2251799813685248
fr = stg.Frame(fchans=6, tchans=2, df=2.0, dt=3.0, fch1=1000.0, ascending=True)
a = fr.add_constant_signal(f0, dr, lv, w, 'box')
fr2 = stg.Frame(fchans=6, tchans=2, df=2.0, dt=3.0, fch1=1000.0, ascending=True)
b = fr2.add_signal(stg.constant_path(f0, dr), stg.constant_t_profile(lv), stg.box_f_profile(w))
print(f0, dr, w); print(a); print(b)
