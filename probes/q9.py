import z3, time
def rne(x):
    fl = z3.ToReal(z3.ToInt(x)); d = x - fl; even = (z3.ToInt(x) % 2 == 0)
    return z3.If(d < z3.RealVal('1/2'), fl, z3.If(d > z3.RealVal('1/2'), fl+1, z3.If(even, fl, fl+1)))
def clip(x, lo, hi): return z3.If(x < lo, lo, z3.If(x > hi, hi, x))
x1,x2,f,mu,m = z3.Reals('x1 x2 f mu m')
for bits in (2,8):
    lo, hi = -2**(bits-1), 2**(bits-1)-1
    q = lambda x: clip(rne(f*(x-mu)+m), lo, hi)
    # range
    s=z3.Solver(); s.set('timeout',60000); s.add(z3.Or(q(x1)<lo, q(x1)>hi)); t=time.time(); print(bits,'range',s.check(), round(time.time()-t,2))
    # monotone: nonlinear version
    s=z3.Solver(); s.set('timeout',60000); s.add(f>=0, x1<=x2, q(x1)>q(x2)); t=time.time(); print(bits,'mono-nonlinear',s.check(), round(time.time()-t,2))
    # monotone: linearised (y = f*(x-mu)+m as free vars with y1<=y2 lemma)
    y1,y2=z3.Reals('y1 y2'); qq=lambda y: clip(rne(y), lo, hi)
    s=z3.Solver(); s.set('timeout',60000); s.add(y1<=y2, qq(y1)>qq(y2)); t=time.time(); print(bits,'mono-affine-lemma',s.check(), round(time.time()-t,2))
    s=z3.Solver(); s.set('timeout',60000); s.add(f>=0, x1<=x2, f*(x1-mu)+m > f*(x2-mu)+m); t=time.time(); print(bits,'affine-order',s.check(), round(time.time()-t,2))
