"""Minimal forking symbolic executor (design-phase probe)."""
import builtins, numpy as np, z3
from fractions import Fraction

class Ctx:
    cur = None
    def __init__(s, pre):
        s.pre = list(pre); s.prefix = []; s.pos = 0; s.pc = []; s.todo = []
        s.solver = z3.Solver(); s.solver.add(*pre); s.nq = 0
    def feasible(s, c):
        s.solver.push(); s.solver.add(*s.pc); s.solver.add(c); s.nq += 1
        r = s.solver.check(); s.solver.pop()
        if r == z3.unknown: raise RuntimeError('unknown')
        return r == z3.sat
    def decide(s, options):
        """options: list of (value, cond). Returns chosen value, extends pc."""
        if s.pos < len(s.prefix):
            k = s.prefix[s.pos]
        else:
            feas = [i for i,(v,c) in enumerate(options) if s.feasible(c)]
            assert feas, 'no feasible option'
            k = feas[0]
            for j in feas[1:]: s.todo.append(s.prefix[:s.pos] + [j])
            s.prefix = s.prefix[:s.pos] + [k]
        s.pos += 1
        v, c = options[k]; s.pc.append(c); return v

def explore(fn, pre, cap=5000):
    leaves = []; work = [[]]; nq = 0
    while work:
        pfx = work.pop()
        ctx = Ctx(pre); ctx.prefix = pfx; Ctx.cur = ctx
        try: res = ('ok', fn())
        except Exception as e: res = ('exc', e)
        leaves.append((list(ctx.pc), res)); work.extend(ctx.todo); nq += ctx.nq
        if len(leaves) > cap: raise RuntimeError('leaf cap')
    return leaves, nq

def lift(x):
    if isinstance(x, Sym): return x.t
    if isinstance(x, (bool, np.bool_)): return z3.RealVal(int(x))
    if isinstance(x, (int, np.integer)): return z3.RealVal(int(x))
    if isinstance(x, (float, np.floating)):
        fr = Fraction(float(x)); return z3.RealVal(f"{fr.numerator}/{fr.denominator}")
    raise TypeError(type(x))

class SymB:
    def __init__(s, t): s.t = t
    def __bool__(s):
        t = z3.simplify(s.t)
        if z3.is_true(t): return True
        if z3.is_false(t): return False
        return Ctx.cur.decide([(True, t), (False, z3.Not(t))])
    def astype(s, ty): return Sym(z3.If(s.t, z3.RealVal(1), z3.RealVal(0)))
    def __and__(s,o): return SymB(z3.And(s.t, o.t))

class Sym:
    __array_priority__ = 1000
    def __init__(s, t, is_int=False): s.t = t; s.is_int = is_int
    def _b(s, o, f):
        if isinstance(o, np.ndarray): return NotImplemented
        return Sym(f(s.t, lift(o)), s.is_int and (isinstance(o,(int,np.integer)) or getattr(o,'is_int',False)))
    def __add__(s,o): return s._b(o, lambda a,b: a+b)
    def __radd__(s,o): return s._b(o, lambda a,b: b+a)
    def __sub__(s,o): return s._b(o, lambda a,b: a-b)
    def __rsub__(s,o): return s._b(o, lambda a,b: b-a)
    def __mul__(s,o): return s._b(o, lambda a,b: a*b)
    def __rmul__(s,o): return s._b(o, lambda a,b: b*a)
    def __truediv__(s,o):
        if isinstance(o, np.ndarray): return NotImplemented
        return Sym(s.t / lift(o))
    def __rtruediv__(s,o): return Sym(lift(o) / s.t)
    def __neg__(s): return Sym(-s.t, s.is_int)
    def __abs__(s): return Sym(z3.If(s.t >= 0, s.t, -s.t), s.is_int)
    def __pow__(s, n):
        if n == 2 or n == 2.0: return Sym(s.t*s.t)
        raise NotImplementedError
    def __lt__(s,o): return SymB(s.t < lift(o))
    def __le__(s,o): return SymB(s.t <= lift(o))
    def __gt__(s,o): return SymB(s.t > lift(o))
    def __ge__(s,o): return SymB(s.t >= lift(o))
    def __eq__(s,o): return SymB(s.t == lift(o))
    def __ne__(s,o): return SymB(s.t != lift(o))
    __hash__ = None
    def astype(s, ty): return s
    def __index__(s):
        assert s.is_int
        t = z3.simplify(s.t)
        if z3.is_rational_value(t): return int(t.numerator_as_long()//t.denominator_as_long())
        # enumerate feasible values lazily
        ctx = Ctx.cur; opts = []
        sol = z3.Solver(); sol.add(*ctx.pre); sol.add(*ctx.pc)
        while sol.check() == z3.sat and len(opts) < 64:
            v = sol.model().eval(s.t, model_completion=True); iv = int(v.numerator_as_long()//v.denominator_as_long())
            opts.append((iv, s.t == iv)); sol.add(s.t != iv)
        opts.sort()
        return ctx.decide(opts)
    def __repr__(s): return f"Sym({z3.simplify(s.t)})"

def trunc(x):
    return Sym(z3.If(x.t >= 0, z3.ToReal(z3.ToInt(x.t)), -z3.ToReal(z3.ToInt(-x.t))), True)
def rne(x):
    fl = z3.ToReal(z3.ToInt(x.t)); d = x.t - fl
    even = (z3.ToInt(x.t) % 2 == 0)
    return Sym(z3.If(d < z3.RealVal('1/2'), fl, z3.If(d > z3.RealVal('1/2'), fl+1, z3.If(even, fl, fl+1))), True)
def ceil(x):
    fl = z3.ToReal(z3.ToInt(x.t)); return Sym(z3.If(fl == x.t, fl, fl+1), True)

class _M(type):
    def __instancecheck__(cls, o): return builtins.isinstance(o, builtins.int) or (builtins.isinstance(o, Sym) and o.is_int)
class sint(builtins.int, metaclass=_M):
    def __new__(cls, x=0, *a):
        if builtins.isinstance(x, Sym): return x if x.is_int else trunc(x)
        return builtins.int(x, *a)
class _MF(type):
    def __instancecheck__(cls, o): return builtins.isinstance(o, builtins.float) or (builtins.isinstance(o, Sym) and not o.is_int)
class sfloat(builtins.float, metaclass=_MF): pass
def smin(a, b):
    if isinstance(a, Sym) or isinstance(b, Sym):
        A, B = lift(a), lift(b); return Sym(z3.If(A <= B, A, B), True)
    return builtins.min(a, b)
def smax(a, b):
    if isinstance(a, Sym) or isinstance(b, Sym):
        A, B = lift(a), lift(b); return Sym(z3.If(A >= B, A, B), True)
    return builtins.max(a, b)
