import warnings; warnings.filterwarnings('ignore')
import time, types, numpy as np, z3
exec(open(__file__.replace('p2.py','p1.py')).read().split("fr = stg.Frame")[0])

class NPProxy:
    def __getattr__(s, k): return getattr(np, k)
    def zeros(s, shape, dtype=None): 
        a = np.empty(shape, dtype=object); a[...] = 0; return a
fr = stg.Frame(fchans=6, tchans=4, df=2.0, dt=3.0, fch1=1000.0, ascending=False)
F.np = NPProxy()
D = np.empty(fr.shape, dtype=object)
for i in range(4):
    for j in range(6): D[i,j] = Sym(z3.Real(f'd_{i}_{j}'))
fr.data = D.copy()
t0=time.time()
sig = fr.add_signal(path, tprof, fprof, bp, doppler_smearing=True, smearing_subsamples=3, integrate_f_profile=True, f_subsamples=2, bounding_f_range=(fr.get_frequency(1), fr.get_frequency(5)))
print('exec', time.time()-t0)
# spec
s = z3.Solver()
viol = []
n=3; fs_=2
for i in range(4):
    ti = Sym.lift(fr.ts[i]); ti1 = Sym.lift(fr.ts_ext[i+1])
    for j in range(6):
        if 1 <= j < 5:
            acc = 0
            for k in range(n):
                c = Pth(ti) + k*(Pth(ti1)-Pth(ti))/n
                for m in range(fs_):
                    fj = Sym.lift(fr.fs[j]) + z3.RealVal(m)*Sym.lift(fr.df)/fs_
                    acc = acc + Tp(ti)*Fp(fj, c)*Bp(fj)/n
            spec = acc/fs_
        else:
            spec = z3.RealVal(0)
        viol.append(Sym.lift(sig[i,j]) != spec)
        viol.append(Sym.lift(fr.data[i,j]) != Sym.lift(D[i,j]) + spec)
s.add(z3.Or(viol))
t0=time.time(); print(s.check(), time.time()-t0)
