from setigen.voltage.raw_utils import format_header_line, get_header_key_val

def card_roundtrip(key: str, value: int) -> str:
    """
    pre: 1 <= len(key) <= 8
    pre: all(c in 'ABCDEFGHIJKLMNOPQRSTUVWXYZ_0123456789' for c in key)
    pre: -10**17 < value < 10**19
    post: len(_) == 80
    post: get_header_key_val(_) == (key, str(value))
    """
    return format_header_line(key, value)

def card_str(key: str, value: str) -> str:
    """
    pre: 1 <= len(key) <= 8 and key.isalnum() and key.isupper()
    pre: 1 <= len(value) <= 6 and value.isalnum()
    post: len(_) == 80
    post: get_header_key_val(_) == (key, value)
    """
    return format_header_line(key, value)

def pad_len(n: int) -> int:
    """
    pre: 1 <= n <= 10000
    post: (80*n + _) % 512 == 0 and 0 <= _ < 512
    """
    return 512 - (80 * n % 512)
