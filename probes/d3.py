import warnings; warnings.filterwarnings('ignore')
import numpy as np, setigen as stg
fs=[stg.Frame(fchans=8,tchans=16,df=2.7939677238464355,dt=18.253611008,fch1=6e9,t_start=1.7e9+ i*(16*18.253611008+7.3)) for i in range(3)]
c=stg.Cadence(fs); before=[f.ts.copy() for f in fs]
c.add_signal(stg.constant_path(f_start=fs[0].get_frequency(2),drift_rate=0.01),1.0,stg.box_f_profile(3.0))
print([np.array_equal(a,f.ts) for a,f in zip(before,fs)], [np.abs(a-f.ts).max() for a,f in zip(before,fs)])
def bad(t): raise RuntimeError('boom')
try: c.add_signal(bad,1.0,stg.box_f_profile(3.0))
except RuntimeError: pass
print('after raising on frame 0:', [np.abs(a-f.ts).max() for a,f in zip(before,fs)])
k=[0]
def bad2(t):
    k[0]+=1
    if k[0]==2: raise RuntimeError('boom')
    return np.full(t.shape, 6e9)
try: c.add_signal(bad2,1.0,stg.box_f_profile(3.0))
except RuntimeError: pass
print('after raising on frame 1:', [np.abs(a-f.ts).max() for a,f in zip(before,fs)])
