import z3, time, sys
KB=int(sys.argv[1]); WD=int(sys.argv[2])
def C(v): return z3.BitVecVal(v, WD)
def ceil_div(s, a, b, name, hi):
    q = z3.BitVec(name, WD); s.add(z3.ULE(q, C(hi)), z3.UGE(q*b, a), z3.Or(q==0, z3.ULT((q-1)*b, a))); return q
for taps,bps in [(8,4),(3,1)]:
    s = z3.SolverFor('QF_BV'); s.set('timeout', 120000)
    k, nsb = z3.BitVecs('k nsb', WD)
    KMAX = 2**KB
    s.add(z3.UGE(k,1), z3.ULE(k,KMAX), z3.UGE(nsb,1), z3.ULE(nsb,KMAX))
    T = C(taps)*k
    w = ceil_div(s, k, nsb, 'w', KMAX); W = w+1
    subT = C(taps)*(W-1)
    n2 = ceil_div(s, T, subT, 'n2', KMAX)
    sublen = subT*C(bps)
    rem = z3.URem(T, subT)
    Wl = z3.If(rem != 0, z3.UDiv(rem, C(taps)) + 1, W)
    last_range = z3.If(rem != 0, C(taps)*(Wl-1)*C(bps), sublen)
    s.add(z3.Or((n2-1)*sublen + last_range != T*C(bps), z3.ULT(Wl, 2)))
    t=time.time(); r=s.check(); print(taps,bps, r, round(time.time()-t,2))
    if r==z3.sat: print(s.model())
