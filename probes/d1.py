import warnings; warnings.filterwarnings('ignore')
import numpy as np, setigen as stg, io, types
from setigen.voltage import backend as B, raw_utils
def t(name, fn):
    try: print(name, '->', fn())
    except Exception as e: print(name, 'RAISED', type(e).__name__, str(e)[:80])
fr = stg.Frame(fchans=16, tchans=4, df=1.0, dt=1.0, fch1=1000.0, ascending=True)
t('array path tchans+1 smear', lambda: fr.add_signal(np.array([1003.,1004,1005,1006,1007]), 1.0, stg.box_f_profile(1.0), doppler_smearing=True, smearing_subsamples=2).sum())
t('const neg drift smear', lambda: fr.add_constant_signal(1008., -1.0, 1.0, 1.0, 'box', doppler_smearing=True).sum())
t('const zero drift smear', lambda: fr.add_constant_signal(1008., 0.0, 1.0, 1.0, 'box', doppler_smearing=True).sum())
t('const pos drift smear', lambda: fr.add_constant_signal(1003., 2.0, 1.0, 1.0, 'box', doppler_smearing=True).sum())
# make_header aligned
class FakeF:
    def __init__(s): s.b=b''
    def write(s,x): s.b+=bytes(x)
def mk(n, dio):
    f=FakeF(); hd={f'K{i}':i for i in range(n-2)}; hd['DIRECTIO']=dio; hd['PKTIDX']=0
    B.RawVoltageBackend._make_header(types.SimpleNamespace(samples_per_block=1), f, hd); return len(f.b)
t('hdr 31 cards+END dio=1', lambda: mk(31,1)); t('hdr 30 cards+END dio=1', lambda: mk(30,1)); t('hdr 31 dio=0', lambda: mk(31,0))
t('MultiAntennaArray no delays', lambda: stg.voltage.MultiAntennaArray(2, sample_rate=1e3, seed=1))
# slice keeps t_start?
fr2 = stg.Frame(fchans=16, tchans=4, df=1.0, dt=1.0, fch1=1000.0, t_start=12345.0, source_name='X')
s = fr2.get_slice(2,6); print('slice t_start/source', s.t_start, s.source_name)
# arange helper
import itertools
bad=0
for n in [256,1000,1024,4096]:
  for fch1 in [6000.0, 6095.214842353016, 1420.40575]:
    for df in [-2.7939677238464355e-06, 2.7939677238464355e-06, -1e-6, 3e-7, -2.86102294921875e-06]:
        L=len(np.arange(fch1, fch1+n*df, df)); 
        if L!=n: bad+=1; print('get_fs len', n, fch1, df, L)
print('bad', bad)
print('params tchans', stg.params_from_backend(obs_length=3*(51/(3e9/1024/1048576)), int_factor=51)['tchans'])
