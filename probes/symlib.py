import numpy as np, z3
from fractions import Fraction
def lift(x):
    if isinstance(x, Sym): return x.t
    if isinstance(x, (bool, np.bool_)): return z3.RealVal(int(x))
    if isinstance(x, (int, np.integer)): return z3.RealVal(int(x))
    if isinstance(x, (float, np.floating)):
        fr = Fraction(float(x)); return z3.RealVal(f"{fr.numerator}/{fr.denominator}")
    raise TypeError(type(x))
class Sym:
    __array_priority__ = 1000
    def __init__(s, t): s.t = t
    def __add__(s,o): return Sym(s.t + lift(o)) if not isinstance(o, SymC) else o.__radd__(s)
    def __radd__(s,o): return Sym(lift(o) + s.t)
    def __sub__(s,o): return Sym(s.t - lift(o))
    def __rsub__(s,o): return Sym(lift(o) - s.t)
    def __mul__(s,o):
        if isinstance(o,(complex,np.complexfloating)): return SymC(s*o.real, s*o.imag)
        if isinstance(o, SymC): return o.__rmul__(s)
        return Sym(s.t * lift(o))
    def __rmul__(s,o):
        if isinstance(o,(complex,np.complexfloating)): return SymC(s*o.real, s*o.imag)
        return Sym(lift(o) * s.t)
    def __truediv__(s,o): return Sym(s.t / lift(o))
    def __rtruediv__(s,o): return Sym(lift(o) / s.t)
    def __neg__(s): return Sym(-s.t)
    @property
    def real(s): return s
    @property
    def imag(s): return Sym(z3.RealVal(0))
    def __repr__(s): return f"Sym({z3.simplify(s.t)})"
class SymC:
    __array_priority__ = 1000
    def __init__(s, re, im):
        s.re = re if isinstance(re, Sym) else Sym(lift(re)); s.im = im if isinstance(im, Sym) else Sym(lift(im))
    @staticmethod
    def of(o):
        if isinstance(o, SymC): return o
        if isinstance(o,(complex,np.complexfloating)): return SymC(o.real, o.imag)
        return SymC(o, 0)
    def __add__(s,o): o=SymC.of(o); return SymC(s.re+o.re, s.im+o.im)
    __radd__=__add__
    def __sub__(s,o): o=SymC.of(o); return SymC(s.re-o.re, s.im-o.im)
    def __mul__(s,o): o=SymC.of(o); return SymC(s.re*o.re - s.im*o.im, s.re*o.im + s.im*o.re)
    __rmul__=__mul__
    def __truediv__(s,o): return SymC(s.re/o, s.im/o)
    @property
    def real(s): return s.re
    @property
    def imag(s): return s.im
def oarr(x):
    a = np.empty(np.shape(x), dtype=object); a[...] = x; return a
def dft_matrix(n):
    # exact twiddles for n in (2,4)
    tw = {2:[(1,0),(-1,0)], 4:[(1,0),(0,-1),(-1,0),(0,1)]}[n]
    return [[tw[(j*k)%n] for j in range(n)] for k in range(n)]
def sym_fft(x, n, axis=1):
    assert axis==1 and x.shape[1]==n
    M = dft_matrix(n); out = np.empty(x.shape, dtype=object)
    for r in range(x.shape[0]):
        for k in range(n):
            acc = SymC(0,0)
            for j in range(n):
                c = M[k][j]; acc = acc + SymC.of(x[r,j])*SymC(c[0],c[1])
            out[r,k]=acc
    return out
