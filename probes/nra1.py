import z3, time, sys
fmin, df, i, d1,d2,d3,d4 = z3.Reals('fmin df i d1 d2 d3 d4')
u = z3.RealVal(1)/2**53
s = z3.Solver(); s.set('timeout', 120000)
for d in (d1,d2,d3,d4): s.add(d >= -u, d <= u)
s.add(df >= z3.RealVal('1/1000'), df <= 10**9, fmin >= 0, fmin <= 10**12*df, fmin<=10**12, i >= 0, i <= 2**24)
f = (fmin + df*i*(1+d1))*(1+d2)
q = ((f - fmin)*(1+d3)/df)*(1+d4)
s.add(z3.Or(q - i >= z3.RealVal(1)/2, i - q >= z3.RealVal(1)/2))
t=time.time(); r=s.check(); print(r, time.time()-t)
if r==z3.sat: print(s.model())
