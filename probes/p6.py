import warnings; warnings.filterwarnings('ignore')
import time, sys, numpy as np, z3
import fork
from fork import *
import setigen as stg
from setigen import frame as F
from setigen.funcs import f_profiles as FP, paths as PA, t_profiles as TP

class NP:
    def __getattr__(s,k): return getattr(np,k)
    def zeros(s, shape, dtype=None):
        a = np.empty(shape, dtype=object); a[...] = 0; return a
    def full(s, shape, v, dtype=None):
        a = np.empty(shape, dtype=object); a[...] = v; return a
    def round(s, x): return rne(x) if isinstance(x, Sym) else np.round(x)
    def ceil(s, x): return ceil(x) if isinstance(x, Sym) else np.ceil(x)
    def abs(s, x):
        if isinstance(x, np.ndarray) and x.dtype==object: return np.frompyfunc(abs,1,1)(x)
        return abs(x)
npx = NP()
class OA(np.ndarray):
    pass
def box_astype(arr):  # elementwise SymB -> Sym
    return np.frompyfunc(lambda b: b.astype(int) if isinstance(b, SymB) else int(b),1,1)(arr)

def install():
    F.np = npx; F.int = sint; F.max = smax; F.min = smin; F.float = sfloat
    FP.np = npx
def uninstall():
    F.np = np; FP.np = np
    for k in ('int','max','min','float'): delattr(F, k)

# box profile reimplemented only because ndarray.astype(int) on object arrays needs SymArr (framework will subclass)
def box(width):
    def f_profile(f, c):
        return box_astype(np.frompyfunc(lambda a,b: abs(a-b) < width/2, 2, 1)(f, c))
    return f_profile
FP.box_f_profile = box   # PROBE ONLY

tch, fch = int(sys.argv[1]), int(sys.argv[2])
fr0 = stg.Frame(fchans=fch, tchans=tch, df=2.0, dt=3.0, fch1=1000.0, ascending=True)
f0, dr, lv, w = [Sym(z3.Real(n)) for n in ('f0','dr','lv','w')]
unit = fr0.df/fr0.dt
pre = [w.t >= z3.RealVal('1/10'), w.t <= 20, dr.t >= -4*lift(unit), dr.t <= 4*lift(unit), f0.t >= lift(fr0.fmin - 2*fr0.df), f0.t <= lift(fr0.fmax + 2*fr0.df)]
import copy
def run():
    fr = copy.copy(fr0); fr.data = npx.zeros(fr0.shape)
    return fr.add_constant_signal(f0, dr, lv, w, 'box', doppler_smearing=False)
install()
t0=time.time(); leaves, nq = explore(run, pre); te=time.time()-t0
print('leaves', len(leaves), 'feasibility queries', nq, 'exec s', round(te,1), 'exc', sum(1 for l in leaves if l[1][0]=='exc'))
for pc,res in leaves:
    if res[0]=='exc': print(repr(res[1])[:200]); break
# oracle: general signal, computed directly as spec terms
viol_total=0; t0=time.time(); unk=0
for pc, res in leaves:
    if res[0]!='ok': continue
    sig = res[1]; s = z3.Solver(); s.set('timeout', 20000); s.add(*pre); s.add(*pc)
    bad=[]
    for i in range(tch):
        c = f0.t + dr.t*lift(fr0.ts[i])
        for j in range(fch):
            d = lift(fr0.fs[j]) - c
            spec = z3.If(z3.If(d>=0,d,-d) < w.t/2, lv.t, z3.RealVal(0))
            bad.append(lift(sig[i,j]) != spec)
    s.add(z3.Or(bad)); s.add(lv.t != 0)
    r = s.check()
    if r==z3.sat:
        viol_total+=1
        if viol_total==1: m=s.model(); print('CEX', {str(d):m[d] for d in m.decls()})
    elif r==z3.unknown: unk+=1
print('violating leaves', viol_total, 'unknown', unk, 'solve s', round(time.time()-t0,1))
uninstall()
