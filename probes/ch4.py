import warnings; warnings.filterwarnings('ignore')
import setigen as stg
OK = [stg.Frame(fchans=4, tchans=2, df=1.0, dt=1.0, fch1=100.0, t_start=float(10*i)) for i in range(3)]
BAD = [stg.Frame(fchans=4, tchans=2, df=2.0, dt=1.0, fch1=100.0, t_start=0.), "not a frame"]
POOL = OK + BAD
ORDER = "ABCDEFGHIJ"

def step(n: int, s0: int, s1: int, s2: int, s3: int, lab: int, op: int, i: int, k: int) -> bool:
    """
    pre: 0 <= n <= 4 and 0 <= s0 < 3 and 0 <= s1 < 3 and 0 <= s2 < 3 and 0 <= s3 < 3
    pre: 0 <= op <= 3 and -6 <= i <= 6 and 0 <= k < 5 and 0 <= lab < 8
    post: _
    """
    state = [OK[s] for s in (s0, s1, s2, s3)[:n]]
    for b in range(3):
        f = OK[b]
        f.metadata.pop('order_label', None)
        if (lab >> b) & 1: f.metadata['order_label'] = 'Z'
    cad = stg.OrderedCadence(order=ORDER)
    cad.frames = list(state)
    ref = list(state)
    v = POOL[k]
    ok = (k < 3) or (k == 3 and n == 0)
    had = k < 3 and 'order_label' in v.metadata
    try:
        if op == 0: cad.append(v)
        elif op == 1: cad.insert(i, v)
        elif op == 2: cad[i] = v
        else: del cad[i]
    except (TypeError, AttributeError):
        return (not ok or op == 3) and len(cad.frames) == len(ref) and all(a is b for a, b in zip(cad.frames, ref)) and op != 3
    except IndexError:
        return (op in (2, 3) and not (-n <= i < n)) and all(a is b for a, b in zip(cad.frames, ref))
    if op == 0: ref.append(v)
    elif op == 1: ref.insert(i, v)
    elif op == 2: ref[i] = v
    else: del ref[i]
    if not ok and op != 3: return False
    if len(cad.frames) != len(ref) or any(a is not b for a, b in zip(cad.frames, ref)): return False
    if op != 3 and k < 3 and not had:
        pos = [j for j, a in enumerate(cad.frames) if a is v]
        return v.metadata.get('order_label') in [ORDER[j] for j in pos]
    return True
