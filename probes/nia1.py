import z3, time
def ceil_div(s, a, b, name):
    q = z3.Int(name); s.add(q*b >= a, (q-1)*b < a); return q
for mode in ['int','bv']:
    s = z3.Solver(); s.set('timeout', 60000)
    taps, k, nsb, bps = z3.Ints('taps k nsb bps')
    s.add(taps>=1, taps<=64, k>=1, k<=2**20, nsb>=1, nsb<=2**20, bps>=1, bps<=4)
    T = taps*k
    w = ceil_div(s, k, nsb, 'w')            # ceil(T/taps/nsb)
    W = w+1
    subT = taps*(W-1)
    n2 = ceil_div(s, T, subT, 'n2')
    sublen = subT*bps
    # last sub-block window count per code: if T % subT != 0: Wl = int((T % subT)/taps)+1
    rem = z3.Int('rem'); s.add(rem == T % subT)
    Wl = z3.If(rem != 0, rem/taps + 1, W)
    last_range = z3.If(rem != 0, taps*(Wl-1)*bps, sublen)
    # claim: (n2-1)*sublen + last_range == T*bps  and Wl>=2
    s.add(z3.Or((n2-1)*sublen + last_range != T*bps, Wl < 2))
    t=time.time(); r=s.check(); print(mode, r, time.time()-t); 
    if r==z3.sat: print(s.model())
    break
