import warnings; warnings.filterwarnings('ignore')
import logging; logging.disable(logging.CRITICAL)
import numpy as np, setigen as stg, tempfile, os, blimpy
d = tempfile.mkdtemp(dir='/var/tmp/probe')
def roundtrip(fr, ext):
    fn = os.path.join(d, 'x.'+ext)
    (fr.save_fil if ext=='fil' else fr.save_h5)(fn)
    g = stg.Frame(waterfall=fn)
    wf = blimpy.Waterfall(fn); freqs = wf.container.populate_freqs()*1e6; dat = wf.data[:,0,:]
    return g, freqs, dat
def cmp(tag, fr, ext='fil'):
    try:
        g, freqs, dat = roundtrip(fr, ext)
    except Exception as e:
        print(tag, ext, 'RAISED', type(e).__name__, str(e)[:100]); return
    ok = g.shape==fr.shape and np.allclose(g.data, fr.data) and np.allclose(g.fs, fr.fs, rtol=0, atol=fr.df*1e-3) and g.ascending==fr.ascending and abs(g.t_start-fr.t_start)<1e-3 and g.source_name==fr.source_name
    # blimpy sees each pixel at same sky frequency
    order = np.argsort(freqs); ok2 = dat.shape==fr.data.shape and np.allclose(freqs[order], fr.fs, rtol=0, atol=fr.df*1e-3) and np.allclose(dat[:,order], fr.data)
    print(tag, ext, 'frame-ok' if ok else 'FRAME-MISMATCH', 'blimpy-ok' if ok2 else 'BLIMPY-MISMATCH', g.shape, fr.shape)
rng = np.random.default_rng(0)
for asc in (False, True):
    fr = stg.Frame(fchans=8, tchans=3, df=2.0, dt=1.0, fch1=1e9, ascending=asc, t_start=1.7e9, source_name='SRC'); fr.data = rng.random(fr.shape)
    for ext in ('fil','h5'):
        cmp(f'synthetic asc={asc}', fr, ext)
    s = fr.get_slice(2,6); cmp(f'slice-of-synthetic asc={asc}', s)
    fr.get_waterfall(); s = fr.get_slice(2,6); cmp(f'slice-after-get_waterfall asc={asc}', s)
    fn=os.path.join(d,'p.fil'); fr.save_fil(fn); L = stg.Frame(waterfall=fn); cmp(f'loaded asc={asc}', L); cmp(f'slice-of-loaded asc={asc}', L.get_slice(2,6)); cmp(f'copy-of-loaded asc={asc}', L.copy())
    cmp(f'dedrift-of-loaded asc={asc}', stg.dedrift(L, 2.0))
import shutil; shutil.rmtree(d)
